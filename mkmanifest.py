#!/usr/bin/env python3
"""Regenerates /verif/MANIFEST.json from the table below (kept in one place so that it stays consistent)."""
import json, os

HERE = os.path.dirname(os.path.abspath(__file__))
PROPS = [json.loads(l)['id'] for l in open(os.path.join(HERE, 'properties.jsonl'))]

TRUST = ('Trusted base: clang 14 parser/sema as the reading of the source; the lpx extractor; sympy expand/cancel/diff as term '
         'normaliser; the paper lemmas of DESIGN.md section 3. Formulas are compared over the reals (no rounding). ')

# rules added during the robustness / second seeding rounds (appended to the decided clauses)
EXTRA = {
    'C02': 'accuracy certificate of the accepting test (C02.f): the accepted bracket is narrower than xAccuracy (or than max(xAccuracy, c|x|) with c <= 5e-15, the spacing of doubles) and contains the returned point',
    'C18': 'the engine is never copied on its way to a draw (std::bind without std::ref, by-value lambda captures); rejection outside the domain and the number of recorded points as boolean functions of the loop\'s tests; Inverse_Transform_Sampling / Sample_Gauss inherit C02 / C07.d',
    'C17': 'the executed set of (component, l_hat, m_hat) terms of the vector spherical harmonics; Inv_Erf inherits C02\'s obligations about Find_Root; an additional large-argument branch of Dawson_Integral must be a partial sum of the asymptotic series sum (2k-1)!!/(2^(k+1) x^(2k+1)) whose first omitted term at the switch point is below 2e-7 (1e-6 relative for Erfi); one that is above is a violation, one that is below is undecided',
    'C16': 'C16.h no quantity of the general spherical branch is formed as sqrt(1-u^2) with u reaching +-1 (conditioning); special axes tested in front of Rodrigues\' formula return the same rotation (sample axes with components 0, 2, -3); rotations about a general axis inherit C04\'s obligations about Vector::Norm/Normalize/Normalized; the unit vector of the general spherical branch is recognised as Normalized(axis), as Normalize() on a copy of the axis, or hand-made as axis(i)/Norm (axis(i) = N e_i); guards written on the unnormalised axis are evaluated with that substitution; a hand-made reciprocal normalisation leaves the exact pole guards undecided (rounding)',
    'C13': 'the spherical overload inherits C16\'s obligations about Spherical_Coordinates(r,theta,phi)',
    'C11': 'the value stored for a moved simplex vertex is the objective at that row (the argument array equals the row element by element, from the loop summary); the bracketing triple stays ordered (middle point strictly between the outer ones) on every path, decided on a finite set of placements of the points; C11.g every scalar member minimize(simplex, func) uses (evaluation counter against NMAX, dimensions, fmin) is assigned by that call before its first use on every path (definite assignment over the members; configuration written only by the constructor is exempt)',
    'C09': 'C09.f the cached search reads the table next to the cached index only for arguments Locate keeps inside the domain (concrete table, call-site path conditions); search phases written with std::lower_bound/upper_bound are classified by the segment convention they implement; C09.g an argument-keyed early return (`x == member`) in a query member: no constructor may initialise the key to a finite literal (a fresh object would answer that argument from the placeholder)',
    'C05': 'C05.e Determinant keeps no state in the object, or every member that can change the entries (also through a mutable reference it hands out) resets it; the row operation of the elimination covers every column of the work array; the pivot may be read into a local only after the exchange',
    'C01': 'data-dependent alternatives of the Steffen slope stay inside the monotonicity box on a sample table of secants (zeros, both signs, 1e-20..1e6); every returning path of Interpolate evaluates the segment polynomial (shortcuts only at exactly tested points); C01.h also evaluates C09.g (argument-keyed shortcut in front of the segment search); C01.f flat copy of the grid read at i*S+j: the stride S must be the size of the list behind the array indexed by j (the constructor appends rows of that length); a stride taken from the other list is a violation, any other second storage is undecided',
    'C04': 'C04.e no floating-point value passes through the integer abs(); block (r,c) of the block constructor lands at the prefix sums of heights/widths (running offsets by closed form, 3x3 layout with distinct prefix sums); multi-path Norm on small concrete objects; size invariant of Vector (components.size()==dimension after every writer) and copy completeness of the copy constructors / operator= of Vector and Matrix (every member copied on every path)',
    'C06': 'C06.l a probability computed from the a>100 quadrature is clamped to [0,1] (min/max, if- or ternary form); C06.k the starting value of the Inv_GammaP iteration is non-decreasing in p on a (p,a) grid; GammaP+GammaQ=1 as an identity of terms on every pair of branches; no history-carrying function-local state in the gamma family (exact caches exempt)',
    'C07': 'PMF_Binomial inherits the form of Binomial_Coefficient (C06.e) and the CDFs the clamp of the quadrature branch (C06.l); the KDE is normalised by the exact integral of its own interpolant (Interpolation::Integrate), not by an adaptive quadrature of it; the tabulated KDE value is the kernel sum divided by bandwidth times the total weight',
    'C08': 'C08.g the integration limit enters the stem function only as its offset from the segment\'s knot (no difference of abscissa-sized numbers); the knots Local_Minimum/Maximum compare are exactly the knots inside [x1,x2], decided on a concrete table with limits in and around both extrapolation zones; cached state of the integral/extremum queries: every writer of an input of the cached value (transitively through in-class helpers) touches the cache',
    'C10': 'C10.f tables of length 0 and ragged tables: a literal-position read of a caller-supplied vector happens only for longer containers (reach condition evaluated for every shorter length), p[r\'][c] with c bounded by another row needs a test of its own row, and a literal column read p[r][k] a test of the row lengths; containers sized like a parameter (resize(p.size())) and once-assigned copies of a table count as that parameter; q[i+c] under a loop over another list p is evaluated on concrete lengths len(q) < len(p) (mismatched list lengths); every field the domain guard of Locate reads is computed after the abscissae received their unit factor; Export_Table checks the length of every row; an order guard written with std::adjacent_find',
    'C12': 'every returning path of Integrate_Gauss_Legendre(func,a,b,n) builds the rule for (n,a,b) and delegates (only a==b may return 0); the rule builder and the three integrators keep no history-carrying local state (exact caches exempt)',
    'C14': 'C14.f the point handed to the integrand has region.size()/2 coordinates in every integrator; C14.a per call site of Vegas in Integrate_MC (a continuation run with init>0 is undecided); the bin of a Vegas sample point is the integer part of its own stratified coordinate; every value Miser writes into its mean is the mean of the box\'s own samples or the fraction-weighted mean of its two halves; C14.g no float-typed local or parameter in the integrators (an accumulator narrowed to float loses the exactness of constants); C14.h the caller\'s region is never assigned, swapped or handed to a mutating function by Integrate_MC or anything it forwards it to by mutable reference',
    'C15': 'QR and the eigen routines inherit the obligations of C04 about Norm/Normalize/products/block constructor; C15.a/b/c are decided on normal forms of object-valued terms (reflector I-2uu^T, one QR sweep incl. early-continue paths, one QR iteration and its convergence measure)',
    'C19': 'Workload_Distribution computes its indices in integer arithmetic (a truncated floating-point term is undecided); for constant data every accumulated sum of the weighted standard error vanishes identically (no cancellation between sums); Range (strided loops summarised, a branch through the function itself unfolded once, std::reverse) is evaluated as a closed form on the complete domain min,max in [-40,40], stepsize 1..40',
    'C20': 'header lines are skipped as whole lines (unbounded ignore count or getline); a container overload of In_Units may hand the input back only where the unit factor is 1 and no rounding is requested; Count_Lines counts every line unconditionally; Export/Import element and unit terms are evaluated in the loop state',
}

# property -> (technique, decided clauses, not decided clauses)
CLAIMS = {
    'C01': ('AST-derived symbolic normal forms (custom libTooling extractor + sympy): Hermite/limiter/bilinear identities',
            'C01.a Hermite conditions of the stored cubic coefficients; C01.b Steffen limiter lies in the Fritsch-Carlson box and '
            'reduces to the parabola slope when inactive; C01.c parabola slope (interior and both ends); C01.d Derivative(x,1..3) are '
            'the derivatives of the evaluator term; C01.e single segment index; C01.f bilinear form of the 2D evaluator; '
            'C01.g unit factors applied before domain/coefficients',
            'monotonicity/no-overshoot including floating-point rounding; behaviour in the 1% extrapolation zone beyond the cubic form'),
    'C04': ('guard truth tables with C integer semantics + loop-nest schema extraction (symbolic comprehension/sum summaries)',
            'C04.a conformability predicate of all 16 shape-guarded Vector/Matrix operations equals the spec on the full table of shapes 0..4; '
            'C04.b element term, loop bounds and result shape of ~35 routines (sum, difference, scalar and matrix products, matrix-vector, '
            'vector-matrix, outer, dot, cross, transpose, trace, norms, predicates, Sub_Matrix, Delete_/Return_ Row/Column, diagonal/identity) equal their definitions; '
            'C04.c operator spellings delegate to the named forms; C04.d shape guards are diagnostic exits dominating the loops',
            'floating-point exactness claims (A*I equals A exactly), the block-matrix constructor offsets'),
    'C10': ('guard-predicate extraction over the statement tree + complete truth tables (C unsigned wrap-around) + exit-site census',
            'C10.a for 56 guarded entry points the extracted exit predicate equals "request is meaningless" on the complete truth table of its input terms; '
            'C10.b every guard is a diagnostic exit (non-empty message, failure status); C10.c the guard dominates the protected uses (unchecked subscripts, '
            'iterator arithmetic, protected calls); C10.d every other noreturn call site of the library is classified (loop-guard, data-guard, give-up, environment) - '
            'an unclassified new site is ANALYSIS-BROKEN, not a pass; C10.e element-wise guards (strictly increasing abscissae over all neighbours, ragged rows, '
            'Locate tolerance uses the matching edge interval)',
            'absence of out-of-bounds accesses outside the enumerated protected uses; exits of the give-up class on valid input; sanitizer-visible UB in arithmetic'),
    'C06': ('one-iteration symbolic summaries of the Lentz / series loops, path enumeration of the branch tree, write-set analysis of the memo table',
            'C06.a the continued fraction for Q follows the modified Lentz recurrences with partial numerator -n(n-a), n a unit-step counter from 1 '
            '(the term index advances); C06.b GammaQ branch selection over (x,a) and the complement identities (GammaP, Upper/Lower, Inv_GammaQ) with '
            'argument order; C06.c common prefactor of series and continued fraction; C06.d series recurrence; C06.e factorial memo is history-free '
            '(only writer push_back(back()*size())), Binomial_Coefficient forms; C06.f Gamma=exp(GammaLn), 14-term Lanczos form with the published coefficients',
            'every accuracy figure (1e-12, 1e-3, 1e-7), range [0,1] and monotonicity of computed P and Q, the quadrature branch window, convergence of Halley\'s iteration'),
    'C08': ('symbolic differentiation of the extracted stem function against the evaluator term; iterator-range and prefactor-degree analysis of the extremum functions',
            'C08.a per-segment stem function G has dG/dxi = Interpolate term, contribution G(right)-G(left); C08.b segments i1..i2 inclusive, piece ends, '
            'limit swap with sign applied exactly once on both orientations; C08.c Local_Minimum/Maximum candidate set covers every knot in (x1,x2] plus both ends; '
            'C08.d all 1D extrema are prefactor*min/max with min/max exchanged for a negative prefactor; C08.e 2D global extrema range over all rows/columns and scale likewise',
            'rounding in the antiderivative differences, the computed bounds min*length <= integral <= max*length'),
    'C09': ('state confinement (field read/write sets over the whole program) and sibling cross-check of the two index searches',
            'C09.a the search cache fields are touched only by Locate and its private search helpers, which only Locate calls; Interpolation_2D uses its helper '
            'objects only through Locate; C09.b Bisection and Hunt put the equality case x==X[m] on the same side at every comparison (same segment closedness); '
            'C09.c hunting loops clamp the running index on every continuing path; C09.d Set_Prefactor/Multiply write only the prefactor, no query member writes '
            'a field, no mutable/static members, no user-declared copy/move',
            'bit-identity of floating-point results (follows from equal indices), the performance heuristic fabs(j-jLast)<10'),
    'C03': ('parameter-contract checking of the recursive helper by symbolic substitution (provenance of samples), path conditions on a finite grid',
            'C03.a accepted panel equals Boole\'s rule (7,32,12,32,7)/90 given the coarse Simpson estimate; C03.b the parameter contract (fa=F(a), fb=F(b), fc=F(mid), '
            'S=Simpson(a,b)) is preserved at both recursive call sites and established by the entry for both limit orientations; C03.c epsilon/2, depth-1, '
            'acceptance |S2-S|<=15 epsilon (absolute) or depth<=0, and a panel accepted only because the depth is exhausted sets the non-convergence flag, which Integrate reports; C03.d two evaluations per activation at the quarter points, three in the entry, two recursive '
            'calls (hence <= 2^(depth+2)+1 evaluations, all convex combinations of a,b); C03.e a==b short-cut before any evaluation, sign applied exactly once, epsilon only through |epsilon|',
            'the 4*epsilon a-posteriori bound for estimator-regular integrands (an analytic statement about the integrand class; it cannot hold for a panel accepted at exhausted depth, which is returned with a warning); rounding'),
    'C05': ('structural dominance rules on the elimination loop nest + symbolic summary of the cofactor expansion',
            'C05.a every elimination ratio W[j][i]/W[i][i] is preceded, in every sweep and unconditionally, by a magnitude scan over the rows below the diagonal and an exchange '
            'of whole rows; C05.b cofactor expansion: sum over all columns of (-1)^j a[0][j] det(Sub_Matrix(0,j)) (or a running sign flipped on every path), 1x1 and 2x2 closed forms, '
            'Sub_Matrix deletes the given row and column; C05.c Invertible <=> Square && Determinant()!=0 exactly, Inverse/Determinant exit iff not square (C10 tables), '
            'the remaining exit is a zero pivot after selection; C05.d augmentation [M|I], final row scaling, extraction of the right half',
            'the n*kappa*eps accuracy bound, multiplicativity/transpose invariance of the computed determinant to rounding'),
    'C13': ('path enumeration of the dispatcher with the ordering helper inlined; lambda-nest wiring analysis; state census',
            'C13.a for each of the six method names and both limit orientations the result is s*integrator(f, lo, hi, ...) with ordered limits and s=-1 exactly when exchanged; '
            'equal limits give 0; the ordering helper (which assigns the sign) is used at most once per sign variable; the nested 2D/3D branch accepts the same names; '
            'C13.b level k of the 2D/3D nests integrates its own lambda parameter over the k-th limit pair and the integrand receives the variables in axis order; '
            'C13.c the spherical wrapper integrates r^2 f(Spherical_Coordinates(r, acos c, phi)) (or an explicit vector equal to it) with limits in (r, cos, phi) order; '
            'C13.d Monte-Carlo front ends build {lower..,upper..} and pass args[k] in position k; C13.e no argument-dependent static state in the dispatchers',
            'the accuracy figures per method (boost quadrature internals), exact negation under limit reversal to rounding'),
    'C14': ('definite-assignment-before-read analysis of every static object under the entry constants (with callee write-before-read summaries), '
            'engine provenance, affine-combination rule on region bounds',
            'C14.a every function-local static and namespace-scope mutable object in the closure of Integrate_MC is assigned before it is read on every path (entry constants '
            'init=0, itmx=5, nprn=-1 taken from the call site; arrays at array granularity); C14.b each integrator seeds a local engine from a local random_device and every '
            'draw in its closure receives that engine; no static engine/distribution/seed source; C14.c/d every value combining two region entries is a width or an affine '
            'point c_lo*lower+c_hi*upper (c_lo+c_hi=1) of ONE axis; Random_Point, MC_Volume, Vegas, Miser and the 2D/3D front ends agree on the layout; C14.e plain MC returns '
            'sum(volume*f)/ncall, Miser MC_Volume*average',
            'six-standard-error accuracy, Vegas for ndim>10, bit-identical reproducibility for a fixed seed (no seed is observable statically), element-level coverage of array initialisation loops'),
    'C16': ('symbolic matrix/vector extraction and polynomial identity testing modulo trigonometric and unit-axis ideals (Groebner reduction); divisor zero-set vs guard coverage',
            'C16.a all nine entries of the 3D rotation equal Rodrigues\' formula for the normalised axis (and hence R^T R=I, det R=1, R n=n, re-derived); C16.b 2D rotation; '
            'C16.c plain spherical coordinates; C16.d axis-relative spherical coordinates satisfy |v|^2=r^2, v.e=r cos(theta), dv/dphi.(e x v)=r^2 sin^2(theta) modulo the ideal; '
            'C16.e every real zero of the divisor sqrt(1-e3^2) on [-1,1] is excluded by the guards and each pole case returns a vector with the same three identities; C16.f Angle',
            'loss of accuracy for axes within rounding of +-z beyond the exact poles, orthogonality to rounding'),
    'C17': ('path truth tables, symbolic oddness/series identities, one-iteration summary of Rybicki\'s sum, closed-form coefficient tables evaluated on sample (l,m)',
            'C17.a Sign/Sign(x,y)/StepFunction tables; C17.b Relative_Difference symmetric, its zero divisor a=b=0 excluded and mapped to 0, Floats_Equal; '
            'C17.c Dawson odd by construction, Round odd; C17.d Erfi composition, Inv_Erf bracket/tolerance/integrand; C17.e Dawson Maclaurin coefficients, the series '
            'remainder bound at the switch point (<=2e-7 absolute, <=1e-6 relative), Rybicki recurrences and constants; C17.f all 69 (component, dl, dm) cases of the Y and Psi '
            'coefficient tables against the closed forms (Psi = kappa*Y), driver loops visit lhat in {l-1,l+1}, mhat in {m-1,m,m+1} with |mhat|<=lhat at several (l,m) incl. sectoral',
            'Dawson/Erfi accuracy of the large-argument sum, Round\'s half-unit property near powers of ten, accuracy of Inv_Erf beyond its tolerance wiring'),
    'C19': ('symbolic comprehension summaries of the grid/list/partition loops, finite-table evaluation of the Sub_List index prologue, of the partition closed form and of the nearest-element path conditions, statement-order rule for Median',
            'C19.a Linear_Space/Log_Space elements follow the definition (last element is max identically) and the degenerate-case predicate; C19.b Transpose_Lists, Lists_Equal, '
            'List_Contains, Find_Indices, Combine_Lists, Flatten_List by schema; Sub_List copies exactly the clipped inclusive range inside the list on the complete table of '
            '(i1,i2,size); C19.c mean, variance (N-1), standard deviation, weighted average and its equal-weight reduction (N=4 symbolic data), Median selects each central element by '
            'its own nth_element and reads it directly afterwards; C19.d the closed form of Workload_Distribution\'s index list (prefix-recurrence and accumulation loop summaries) '
            'satisfies length, end points, monotonicity and balance on the complete domain 1<=workers<=128, 0<=tasks<=1024; C19.e Range enumerates min, min+-step, ... strictly '
            'before max (ascending/descending branch predicate, start, continuation test, step); C19.f Locate_Closest_Location returns a nearest index on the complete abstract table of '
            '(size, upper_bound position, order of the two neighbouring distances)',
            'monotonicity and equal spacing of the grids to rounding; Range with a non-positive step (outside the property\'s quantifier); searches written without std::upper_bound are undecided'),
    'C02': ('path enumeration of the entry logic on a table of end values (IEEE NaN comparison semantics) and a one-iteration symbolic summary of the Ridders loop',
            'C02.a reversed brackets enter the iteration with exchanged ends and their own values; C02.b the function is evaluated only at the two ends, at the midpoint and at '
            'Ridders\' point x3+(x3-x1)sgn(f1-f2)f3/sqrt(f3^2-f1f2) built from values taken at x1,x2,x3; C02.c every re-bracketing branch keeps f_i=F(x_i) and is selected by a '
            'sign difference of exactly the two values that become (f1,f2); C02.d NaN ends exit, f(l)f(r)>0 exits, an exact zero at an end is returned as is; '
            'C02.e a previous-iterate variable, if the stopping test has one, starts at a constant sentinel; the loop returns on a distance test against the accuracy or on f(x4)==0; '
            'C02.f what the accepting test certifies: the distance compared with xAccuracy is the width of the maintained bracket (f1 f2<0) and the returned point lies in it '
            '(intermediate value theorem; a test between successive iterates certifies nothing - that was the pinned tree, repaired by 75a1bfb)',
            'that the bracket shrinks below the accuracy within the 50 iterations for every function and accuracy (convergence), exactness on linear functions to rounding'),
    'C07': ('symbolic differentiation/limits of the extracted closed forms (sympy), sum summaries of the discrete families, wiring checks, dependency on C06 rules',
            'C07.a for uniform, normal, exponential, Maxwell-Boltzmann and chi-square: d/dx CDF == PDF on the support, the PDF vanishes exactly on the constant CDF branches, '
            'CDF limits 0 and 1; C07.b CDF_Binomial = sum PMF, CDF_Poisson = max(GammaQ(mu,n+1),0), Inv_CDF_Poisson, PMF_Poisson; C07.c Poisson (log-)likelihoods single-bin and '
            'binned (every path of the bin loop adds the single-bin form of that bin); C07.d Quantile_Gauss inverts CDF_Gauss; C07.e chi-bar mixtures; C07.f KDE divided by its own '
            'integral; C07.g the incomplete-gamma evaluator reached from the CDFs passes C06.a and C06.i',
            'numerical agreement of CDF differences with quadrature of the PDF, tail accuracy, accuracy of Inv_Erf/Inv_GammaQ, non-negativity of the interpolated KDE'),
    'C11': ('order-fact calculus over the path conditions of one symbolic loop iteration (Bracket, Brent); write-set and guard analysis of Nelder-Mead',
            'C11.a Nelder-Mead writes to vertex values/rows are only: trial replacement under ytry=F(ptry)<y[ihi], shrink guarded by i!=ilo towards row ilo with re-evaluation, '
            'the final 0<->ilo exchange of values and rows; C11.b selection scan; C11.c trial point c+fac(p_hi-c) and psum update; C11.d coefficient ranges; '
            'C11.e Bracket keeps fb<=fa on every path, returns only brackets and keeps every value paired with its abscissa; Brent moves (x,fx) only to (u,F(u)) with fu<=fx and '
            'returns x; C11.f Find_Maximum(f)=Find_Minimum(-f) with the same bracket and tolerance',
            'convergence distance on bowls, termination within the iteration caps, the parabolic-step acceptance tests'),
    'C12': ('one-iteration symbolic summaries of the recurrence and Newton loops; write census of the rule table; overload delegation chain',
            'C12.a Bonnet recurrence p1<-((2j+1)z p1-j p2)/(j+1) for j<n from (1,0), pp=n(z p1-p2)/(z^2-1), Newton step, stopping |dz|<=1e-14; '
            'C12.b nodes mid-/+hw z and equal weights 2hw/((1-z^2)pp^2) for the pair (i,n-1-i), i<(n+1)/2 covering all indices, no other write to the rule; '
            'C12.c the three overloads chain to sum values[i]*rule[i][1] with values[i]=f(rule[i][0]), the rule is built for exactly (n,a,b), mismatched lengths exit',
            'convergence of the Newton iteration for every n, strict ordering/interiority of computed nodes, positivity of computed weights, exactness to rounding'),
    'C15': ('normal forms of object-valued terms for the reflector/QR/QR-iteration code, loop-bound census, loop-carried-state analysis; two findings recorded in known_findings.json',
            'C15.a reflector I-2uu^T with u=normalised(x-Sign(|x|,-x0)e1) on every path (exceptions only under exact degeneracy tests); C15.b same embedded reflector applied as '
            'R<-PR, Q<-QP, conforming blocks, zeroing below the diagonal; C15.c A<-RQ, convergence measure sum|sub|/sum|diag| (absolute values), cap with diagnostic; '
            'C15.d every loop in the closure of Eigensystem is bounded (KNOWN FINDING: Rayleigh while-loop); C15.e the shift handed to Inverse is unperturbed '
            '(KNOWN FINDING: exits on exactly computed eigenvalues), each eigenvector search is independent of earlier ones',
            'convergence of the unshifted iteration, accuracy of eigenpairs, orthogonality to rounding'),
    'C18': ('transitive effect analysis over the call graph (entropy, engine construction, static state, engine forwarding) and provenance of returned values',
            'C18.a in the closure of all 11 functions with an mt19937& parameter: no entropy source, no engine construction, no static engine/distribution/mutable static, every '
            'draw receives the function\'s own engine; C18.b rejection samplers return variables drawn uniformly from their own axis limits, Metropolis starts inside and never '
            'accepts outside a given domain, inverse transform returns the root on [xMin,xMax]; C18.c acceptance min(1,PDF(c)/PDF(x)) against a fresh uniform draw, Sample_Gauss; '
            'C18.d chain length burn_in+thinning*sample with retention i>=burn_in && i%thinning==0 (exact count by the window lemma)',
            'the empirical law of the samples (statistical), Poisson sampler correctness for large means'),
    'C20': ('exact constant propagation over the initialiser DAG (sympy rationals); start-up order read from compiler output (LLVM IR of clang++, assembly of g++); wiring checks',
            'C20.a 51 defining identities and 20 SI prefixes hold exactly; C20.b in each configured build (g++/clang++ at -O0; thorough adds -O2) every unit symbol read by a dynamic '
            'initialiser is constant-initialised or stored earlier in the start-up sequence, constant-initialised symbols carry the exact value to a few ulps, no cross-TU '
            'initialisers; C20.c In_Units scalar form and element-wise overloads forwarding dimension, round and digits; C20.d Export_Table/Import_Table/Export_List/Import_List/'
            'Export_Function agree on the column<->unit map, header and skipped lines, values streamed as doubles',
            'six-significant-digit round trip of values (stream formatting), multi-line headers vs Count_Lines, behaviour of Round inside In_Units'),
}

NOT_BUILT = 'check not built yet (framework under construction; DESIGN.md section 3 describes the planned rules)'


def main():
    checks = []
    for p in PROPS:
        if p not in CLAIMS:
            continue
        tech, decided, notdec = CLAIMS[p]
        if p in EXTRA:
            decided = decided + '; ' + EXTRA[p]
        checks.append({
            'property_id': p,
            'quick_cmd': 'python3-vt lpv.py check %s --tier quick' % p,
            'thorough_cmd': 'python3-vt lpv.py check %s --tier thorough' % p,
            'evidence_file': 'evidence/%s.json' % p,
            'replay_cmd_template': 'python3-vt lpv.py replay {path}',
            'engine': 'lpv',
            'technique': 'static analysis: ' + tech,
            'level_claimed': {
                'category': 'other',
                'text': 'Static analysis of /repo\'s current source, nothing is executed. Decides these structural clauses, each a necessary '
                        'condition of the stated behaviour (lemma in DESIGN.md): ' + decided + '. It does NOT decide: ' + notdec +
                        '. The thorough tier re-runs the rules on a gnu++17 parse and against a committed corpus of hand-broken and '
                        'behaviour-preserving variants (must fire / must stay silent).',
                'design_ref': 'DESIGN.md section 3, ' + p,
            },
            'level_note': TRUST + 'Not decided: ' + notdec + '.',
        })
    m = {
        'version': 1,
        'setup_cmd': 'clang++ $(llvm-config-14 --cxxflags) -fno-rtti -O1 lpx/lpx.cc -o lpx/lpx '
                     '/usr/lib/llvm-14/lib/libclang-cpp.so.14 /usr/lib/llvm-14/lib/libLLVM-14.so',
        'hooks': {
            'guard': 'LIBPHYSICA_VERIF',
            'enable': 'none needed: the checks are static and read /repo\'s working tree directly; no source hooks exist',
            'baseline_off_cmd': 'cmake --build /repo/_build && ctest --test-dir /repo/_build -j8 --timeout 900',
            'source_commits': [],
            'add_only': True,
        },
        'engines': [{'name': 'lpv', 'path': 'lpv.py', 'serves_properties': sorted(CLAIMS),
                     'kind_free_text': 'custom static analyser: libTooling AST extractor (lpx) -> JSON IR -> Python rule modules '
                                       '(symbolic normal forms, guard truth tables, state/effect/loop analyses)'}],
        'checks': checks,
        'not_applicable': [{'property_id': p, 'reason': NOT_BUILT} for p in PROPS if p not in CLAIMS],
        'notes': 'exit 0 holds / exit 1 VIOLATION / exit 2 ANALYSIS-BROKEN (anchor vanished, rule outside its fragment, instance floor '
                 'not met). Known findings: known_findings.json.',
    }
    json.dump(m, open(os.path.join(HERE, 'MANIFEST.json'), 'w'), indent=1)


if __name__ == '__main__':
    main()

#!/usr/bin/env python3
"""Regenerates /verif/MANIFEST.json from the table below (kept in one place so that it stays consistent)."""
import json, os

HERE = os.path.dirname(os.path.abspath(__file__))
PROPS = [json.loads(l)['id'] for l in open(os.path.join(HERE, 'properties.jsonl'))]

TRUST = ('Trusted base: clang 14 parser/sema as the reading of the source; the lpx extractor; sympy expand/cancel/diff as term '
         'normaliser; the paper lemmas of DESIGN.md section 3. Formulas are compared over the reals (no rounding). ')

# property -> (technique, decided clauses, not decided clauses)
CLAIMS = {
    'C01': ('AST-derived symbolic normal forms (custom libTooling extractor + sympy): Hermite/limiter/bilinear identities',
            'C01.a Hermite conditions of the stored cubic coefficients; C01.b Steffen limiter lies in the Fritsch-Carlson box and '
            'reduces to the parabola slope when inactive; C01.c parabola slope (interior and both ends); C01.d Derivative(x,1..3) are '
            'the derivatives of the evaluator term; C01.e single segment index; C01.f bilinear form of the 2D evaluator; '
            'C01.g unit factors applied before domain/coefficients',
            'monotonicity/no-overshoot including floating-point rounding; behaviour in the 1% extrapolation zone beyond the cubic form'),
    'C04': ('guard truth tables with C integer semantics + loop-nest schema extraction (symbolic comprehension/sum summaries)',
            'C04.a conformability predicate of all 16 shape-guarded Vector/Matrix operations equals the spec on the full table of shapes 0..4; '
            'C04.b element term, loop bounds and result shape of ~35 routines (sum, difference, scalar and matrix products, matrix-vector, '
            'vector-matrix, outer, dot, cross, transpose, trace, norms, predicates, Sub_Matrix, Delete_/Return_ Row/Column, diagonal/identity) equal their definitions; '
            'C04.c operator spellings delegate to the named forms; C04.d shape guards are diagnostic exits dominating the loops',
            'floating-point exactness claims (A*I equals A exactly), the block-matrix constructor offsets'),
    'C10': ('guard-predicate extraction over the statement tree + complete truth tables (C unsigned wrap-around) + exit-site census',
            'C10.a for 56 guarded entry points the extracted exit predicate equals "request is meaningless" on the complete truth table of its input terms; '
            'C10.b every guard is a diagnostic exit (non-empty message, failure status); C10.c the guard dominates the protected uses (unchecked subscripts, '
            'iterator arithmetic, protected calls); C10.d every other noreturn call site of the library is classified (loop-guard, data-guard, give-up, environment) - '
            'an unclassified new site is ANALYSIS-BROKEN, not a pass; C10.e element-wise guards (strictly increasing abscissae over all neighbours, ragged rows, '
            'Locate tolerance uses the matching edge interval)',
            'absence of out-of-bounds accesses outside the enumerated protected uses; exits of the give-up class on valid input; sanitizer-visible UB in arithmetic'),
    'C06': ('one-iteration symbolic summaries of the Lentz / series loops, path enumeration of the branch tree, write-set analysis of the memo table',
            'C06.a the continued fraction for Q follows the modified Lentz recurrences with partial numerator -n(n-a), n a unit-step counter from 1 '
            '(the term index advances); C06.b GammaQ branch selection over (x,a) and the complement identities (GammaP, Upper/Lower, Inv_GammaQ) with '
            'argument order; C06.c common prefactor of series and continued fraction; C06.d series recurrence; C06.e factorial memo is history-free '
            '(only writer push_back(back()*size())), Binomial_Coefficient forms; C06.f Gamma=exp(GammaLn), 14-term Lanczos form with the published coefficients',
            'every accuracy figure (1e-12, 1e-3, 1e-7), range [0,1] and monotonicity of computed P and Q, the quadrature branch window, convergence of Halley\'s iteration'),
    'C08': ('symbolic differentiation of the extracted stem function against the evaluator term; iterator-range and prefactor-degree analysis of the extremum functions',
            'C08.a per-segment stem function G has dG/dxi = Interpolate term, contribution G(right)-G(left); C08.b segments i1..i2 inclusive, piece ends, '
            'limit swap with sign applied exactly once on both orientations; C08.c Local_Minimum/Maximum candidate set covers every knot in (x1,x2] plus both ends; '
            'C08.d all 1D extrema are prefactor*min/max with min/max exchanged for a negative prefactor; C08.e 2D global extrema range over all rows/columns and scale likewise',
            'rounding in the antiderivative differences, the computed bounds min*length <= integral <= max*length'),
    'C09': ('state confinement (field read/write sets over the whole program) and sibling cross-check of the two index searches',
            'C09.a the search cache fields are touched only by Locate and its private search helpers, which only Locate calls; Interpolation_2D uses its helper '
            'objects only through Locate; C09.b Bisection and Hunt put the equality case x==X[m] on the same side at every comparison (same segment closedness); '
            'C09.c hunting loops clamp the running index on every continuing path; C09.d Set_Prefactor/Multiply write only the prefactor, no query member writes '
            'a field, no mutable/static members, no user-declared copy/move',
            'bit-identity of floating-point results (follows from equal indices), the performance heuristic fabs(j-jLast)<10'),
}

NOT_BUILT = 'check not built yet (framework under construction; DESIGN.md section 3 describes the planned rules)'


def main():
    checks = []
    for p in PROPS:
        if p not in CLAIMS:
            continue
        tech, decided, notdec = CLAIMS[p]
        checks.append({
            'property_id': p,
            'quick_cmd': 'python3-vt lpv.py check %s --tier quick' % p,
            'thorough_cmd': 'python3-vt lpv.py check %s --tier thorough' % p,
            'evidence_file': 'evidence/%s.json' % p,
            'replay_cmd_template': 'python3-vt lpv.py replay {path}',
            'engine': 'lpv',
            'technique': 'static analysis: ' + tech,
            'level_claimed': {
                'category': 'other',
                'text': 'Static analysis of /repo\'s current source, nothing is executed. Decides these structural clauses, each a necessary '
                        'condition of the stated behaviour (lemma in DESIGN.md): ' + decided + '. It does NOT decide: ' + notdec +
                        '. The thorough tier re-runs the rules on a gnu++17 parse and against a committed corpus of hand-broken and '
                        'behaviour-preserving variants (must fire / must stay silent).',
                'design_ref': 'DESIGN.md section 3, ' + p,
            },
            'level_note': TRUST + 'Not decided: ' + notdec + '.',
        })
    m = {
        'version': 1,
        'setup_cmd': 'clang++ $(llvm-config-14 --cxxflags) -fno-rtti -O1 lpx/lpx.cc -o lpx/lpx '
                     '/usr/lib/llvm-14/lib/libclang-cpp.so.14 /usr/lib/llvm-14/lib/libLLVM-14.so',
        'hooks': {
            'guard': 'LIBPHYSICA_VERIF',
            'enable': 'none needed: the checks are static and read /repo\'s working tree directly; no source hooks exist',
            'baseline_off_cmd': 'cmake --build /repo/_build && ctest --test-dir /repo/_build -j8 --timeout 900',
            'source_commits': [],
            'add_only': True,
        },
        'engines': [{'name': 'lpv', 'path': 'lpv.py', 'serves_properties': sorted(CLAIMS),
                     'kind_free_text': 'custom static analyser: libTooling AST extractor (lpx) -> JSON IR -> Python rule modules '
                                       '(symbolic normal forms, guard truth tables, state/effect/loop analyses)'}],
        'checks': checks,
        'not_applicable': [{'property_id': p, 'reason': NOT_BUILT} for p in PROPS if p not in CLAIMS],
        'notes': 'exit 0 holds / exit 1 VIOLATION / exit 2 ANALYSIS-BROKEN (anchor vanished, rule outside its fragment, instance floor '
                 'not met). Known findings: known_findings.json.',
    }
    json.dump(m, open(os.path.join(HERE, 'MANIFEST.json'), 'w'), indent=1)


if __name__ == '__main__':
    main()

#!/bin/sh
# mkroot.sh <patch> <dir>: scratch copy of /repo's src+include with <patch> applied (for --root)
set -e
rm -rf "$2"; mkdir -p "$2"
cp -r /repo/src /repo/include /repo/CMakeLists.txt "$2"/
patch -p1 -s -d "$2" -i "$1"

#!/usr/bin/env python3
"""Confirm a candidate breaking change and run the checks against it.

usage: seedcheck.py <seed dir with patch.diff demo.cpp> <property id> [--keep <name>]

1. in a scratch worktree of /repo (under /tmp): pristine build -> demo must PASS; apply patch -> build -> ctest must pass
   (known-flaky MC tests ignored) -> demo must FAIL.
2. apply the patch to /repo itself, run every built check (quick), undo it (git checkout -- .).
Prints a JSON summary; with --keep copies the seed to /verif/seeded/<name>/ with meta.json.
"""
import sys, os, subprocess, json, shutil, glob, time

VERIF = os.path.dirname(os.path.dirname(os.path.abspath(__file__)))
WT = '/tmp/wt-eval'
FLAKY = ('TestIntegrate2DMC', 'TestMetropolis2D', 'test_Integration', 'test_Statistics')


def sh(cmd, cwd=None, timeout=1200):
    r = subprocess.run(cmd, shell=True, cwd=cwd, capture_output=True, text=True, timeout=timeout)
    return r.returncode, r.stdout + r.stderr


def ensure_worktree():
    head = sh('git -C /repo rev-parse HEAD')[1].strip()
    if os.path.exists(WT):
        cur = sh('git -C %s rev-parse HEAD' % WT)[1].strip()
        sh('git -C %s checkout -q -- .' % WT)
        if cur != head:
            sh('git -C %s checkout -q --detach %s' % (WT, head))
    else:
        sh('git -C /repo worktree add -q --detach %s HEAD' % WT)
    if not os.path.exists(WT + '/_build/build.ninja'):
        c, o = sh('cmake -G Ninja -B _build -DFETCHCONTENT_SOURCE_DIR_GOOGLETEST=/usr/src/googletest -DFETCHCONTENT_FULLY_DISCONNECTED=ON '
                  '-DCMAKE_BUILD_TYPE=RelWithDebInfo', cwd=WT)
        if c:
            raise SystemExit('configure failed: ' + o[-500:])
    c, o = sh('cmake --build _build', cwd=WT)
    if c:
        raise SystemExit('pristine build failed: ' + o[-800:])


def build_demo(seed, tag):
    exe = '/tmp/seed-demo-%s' % tag
    c, o = sh('g++ -std=c++14 -I%s/include %s/demo.cpp %s/_build/src/libphysica.a -lconfig++ -o %s' % (WT, seed, WT, exe))
    if c:
        return None, o[-600:]
    c, o = sh('timeout 300 ' + exe, cwd='/tmp')
    return c, o[-400:]


def ctest_ok():
    c, o = sh('ctest --test-dir _build -j8 --timeout 600', cwd=WT)
    if c == 0:
        return True, 'all passed'
    # rerun failed verbosely to see which gtest cases failed
    c2, o2 = sh('ctest --test-dir _build --rerun-failed --output-on-failure --timeout 600', cwd=WT)
    failed = [l for l in o2.splitlines() if '[  FAILED  ]' in l and 'listed below' not in l and 'tests, listed' not in l]
    names = set(l.split(']')[1].strip().split(' ')[0] for l in failed)
    real = [n for n in names if not any(f in n for f in FLAKY) and n]
    if c2 == 0 or not real:
        return True, 'only flaky failures: %s' % sorted(names)
    return False, 'failed: %s' % sorted(real)


def built_props():
    return sorted(os.path.basename(p)[:-3] for p in glob.glob(VERIF + '/lpv/props/C*.py'))


def main():
    seed = os.path.abspath(sys.argv[1])
    prop = sys.argv[2]
    keep = sys.argv[sys.argv.index('--keep') + 1] if '--keep' in sys.argv else None
    res = {'seed': seed, 'property': prop}
    patch = seed + '/patch.diff'
    c, o = sh('git -C /repo apply --check %s' % patch)
    if c:
        c3, o3 = sh('git -C /repo apply --check -3 %s' % patch)
        res['applies'] = False
        res['apply_error'] = o[-300:]
        print(json.dumps(res, indent=1))
        return 1
    res['applies'] = True
    ensure_worktree()
    res['demo_pristine'] = build_demo(seed, 'p')
    sh('git -C %s apply %s' % (WT, patch))
    c, o = sh('cmake --build _build', cwd=WT)
    res['compiles'] = (c == 0)
    if c == 0:
        res['tests'] = ctest_ok()
        res['demo_mutant'] = build_demo(seed, 'm')
    sh('git -C %s checkout -q -- .' % WT)
    sh('git -C %s clean -fdq -e _build' % WT)
    sh('cmake --build _build', cwd=WT)
    res['confirmed'] = bool(res.get('compiles') and res.get('tests', [False])[0] and res['demo_pristine'][0] == 0
                            and res.get('demo_mutant', [0])[0] not in (0, None))
    # ---- static checks against /repo with the patch applied
    # static checks on a scratch copy of /repo's sources with the patch applied (the checks only read src/, include/ and
    # CMakeLists.txt; /repo itself is never modified, so several seeds can be examined at once)
    import tempfile
    root = tempfile.mkdtemp(prefix='lpv-seed-', dir=os.environ.get('TMPDIR') or '/var/tmp')
    checks = {}
    try:
        sh('%s/tools/mkroot.sh %s %s' % (VERIF, patch, root))
        todo = built_props() if '--all' in sys.argv else [prop]
        for p in todo:
            c, o = sh('python3-vt lpv.py check %s --root %s --no-write' % (p, root), cwd=VERIF)
            lines = [l.replace(root, '') for l in o.splitlines() if l.startswith(('VIOLATION', 'ANALYSIS-BROKEN')) or (l[:3] == p and '.' in l[:6] and ' holds' not in l)]
            checks[p] = {'exit': c, 'lines': [l[:300] for l in lines[:8]]}
    finally:
        shutil.rmtree(root, ignore_errors=True)
    res['checks'] = checks
    res['detected_by'] = sorted(p for p, v in checks.items() if v['exit'] == 1)
    res['broken_in'] = sorted(p for p, v in checks.items() if v['exit'] == 2)
    print(json.dumps(res, indent=1))
    if keep:
        d = os.path.join(VERIF, 'seeded', keep)
        os.makedirs(d, exist_ok=True)
        for f in ('patch.diff', 'demo.cpp', 'notes.md'):
            if os.path.exists(os.path.join(seed, f)):
                shutil.copy(os.path.join(seed, f), d)
        meta = {'property': prop, 'confirmed': res['confirmed'],
                'needs_to_manifest': open(seed + '/notes.md').read()[:1500] if os.path.exists(seed + '/notes.md') else '',
                'what_i_ran': 'tools/seedcheck.py: scratch worktree /tmp/wt-eval of /repo HEAD %s: pristine build + demo (exit %s), patch applied, '
                              'cmake --build, ctest (%s), demo (exit %s); then the quick check(s) run on a scratch copy of /repo sources with the patch applied'
                              % (sh('git -C /repo rev-parse --short HEAD')[1].strip(), res['demo_pristine'][0], res.get('tests', ['', ''])[1],
                                 res.get('demo_mutant', [None])[0]),
                'checks': checks, 'detected_by': res['detected_by'], 'date': time.strftime('%Y-%m-%d')}
        json.dump(meta, open(os.path.join(d, 'meta.json'), 'w'), indent=1)
    return 0


if __name__ == '__main__':
    sys.exit(main())

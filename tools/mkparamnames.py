#!/usr/bin/env python3
"""Regenerate lpv/param_names.json (signature -> parameter names) from the tree at --root (default /repo).
The table is only used to alpha-rename parameters back to their documented names (lpv/normalise.py)."""
import sys, os, json
sys.path.insert(0, os.path.dirname(os.path.dirname(os.path.abspath(__file__))))
from lpv import ir
root = sys.argv[sys.argv.index('--root') + 1] if '--root' in sys.argv else '/repo'
prog = ir.extract(root)
tab = {}
for f in prog.all_functions(include_patterns=True):
    if f.file.startswith(prog.root) and not f.is_lambda:
        tab[f.sig] = [p['name'] for p in f.params]
out = os.path.join(os.path.dirname(os.path.dirname(os.path.abspath(__file__))), 'lpv', 'param_names.json')
json.dump(tab, open(out, 'w'), indent=0, sort_keys=True)
print(len(tab), 'signatures ->', out)

#!/usr/bin/env python3
"""Run all checks on behaviour-preserving variants of /repo.

  python3 tools/neutralcheck.py <dir-with-n*/patch.diff> [...]

Each patch is applied to a scratch copy of /repo's src+include (under $TMPDIR or /var/tmp, removed
afterwards) and all 20 quick checks are run on that copy with --no-write.  A VIOLATION on such a
variant is a false alarm of the checker; an ANALYSIS-BROKEN (exit 2) is a rule that fell outside
its recognised fragment (acceptable, but worth reducing).
"""
import sys, os, subprocess, shutil, tempfile, glob, json
from concurrent.futures import ThreadPoolExecutor

HERE = os.path.dirname(os.path.dirname(os.path.abspath(__file__)))
PROPS = os.environ['LPV_PROPS'].split(',') if os.environ.get('LPV_PROPS') else ['C%02d' % i for i in range(1, 21)]   # LPV_PROPS=C11,C14: only these checks


def one(patch):
    base = os.environ.get('TMPDIR') or '/var/tmp'
    d = tempfile.mkdtemp(prefix='lpv-neutral-', dir=base)
    try:
        for sub in ('src', 'include'):
            shutil.copytree(os.path.join('/repo', sub), os.path.join(d, sub))
        for f in ('CMakeLists.txt',):
            shutil.copy(os.path.join('/repo', f), d)
        r = subprocess.run(['patch', '-p1', '-s', '-d', d, '-i', os.path.abspath(patch)], capture_output=True, text=True)
        if r.returncode != 0:
            return patch, {'_apply': (r.returncode, r.stdout + r.stderr)}
        res = {}

        def chk(p):
            r = subprocess.run(['python3-vt', os.path.join(HERE, 'lpv.py'), 'check', p, '--root', d, '--no-write'],
                               capture_output=True, text=True)
            lines = [l for l in (r.stdout + r.stderr).splitlines()
                     if l.startswith(('VIOLATION', 'ANALYSIS-BROKEN', '  VIOLATED', '  UNDECIDED', 'Traceback'))
                     or 'violated' in l.lower() or 'undecided' in l.lower() or 'Error' in l]
            return p, (r.returncode, '\n'.join(lines[:12]))
        with ThreadPoolExecutor(4) as ex:
            for p, v in ex.map(chk, PROPS):
                res[p] = v
        return patch, res
    finally:
        shutil.rmtree(d, ignore_errors=True)


def main():
    patches = []
    for a in sys.argv[1:]:
        if os.path.isfile(a):
            patches.append(a)
        else:
            patches += sorted(glob.glob(os.path.join(a, '*', 'patch.diff')))
    bad = 0
    with ThreadPoolExecutor(4) as ex:
        for patch, res in ex.map(one, patches):
            fails = {p: v for p, v in res.items() if v[0] != 0}
            print('== %s: %s' % (patch, 'all silent' if not fails else ' '.join('%s=%d' % (p, v[0]) for p, v in fails.items())))
            for p, v in fails.items():
                bad += 1
                print('  -- %s exit %d' % (p, v[0]))
                for l in v[1].splitlines():
                    print('     ' + l)
    return 1 if bad else 0


if __name__ == '__main__':
    sys.exit(main())

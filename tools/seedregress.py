#!/usr/bin/env python3
"""Regression over the kept seeded changes: each /verif/seeded/<id>/patch.diff is applied to a scratch copy of /repo's
sources and the check of its own property is run on the copy (static only, nothing is built or executed).
Prints one line per seed; exit 1 if a seed that was detected before is no longer detected.

  python3 tools/seedregress.py [--update] [seed ...]      (--update rewrites detected_by/lines in meta.json)
"""
import sys, os, json, glob, subprocess, shutil, tempfile
from concurrent.futures import ThreadPoolExecutor

HERE = os.path.dirname(os.path.dirname(os.path.abspath(__file__)))


def one(d):
    meta = json.load(open(os.path.join(d, 'meta.json')))
    prop = meta['property']
    base = os.environ.get('TMPDIR') or '/var/tmp'
    root = tempfile.mkdtemp(prefix='lpv-seed-', dir=base)
    try:
        for sub in ('src', 'include'):
            shutil.copytree(os.path.join('/repo', sub), os.path.join(root, sub))
        shutil.copy('/repo/CMakeLists.txt', root)
        r = subprocess.run(['patch', '-p1', '-s', '-d', root, '-i', os.path.join(d, 'patch.diff')], capture_output=True, text=True)
        if r.returncode != 0:
            return d, prop, None, ['patch does not apply: ' + (r.stdout + r.stderr)[-200:]]
        r = subprocess.run(['python3-vt', os.path.join(HERE, 'lpv.py'), 'check', prop, '--root', root, '--no-write'], capture_output=True, text=True)
        lines = [l.replace(root, '') for l in r.stdout.splitlines() if l.startswith(('ANALYSIS-BROKEN',)) or (l[:3] == prop and '.' in l[:6] and ' holds' not in l)]
        return d, prop, r.returncode, lines[:6]
    finally:
        shutil.rmtree(root, ignore_errors=True)


def main():
    dirs = sorted(glob.glob(os.path.join(HERE, 'seeded', '*')))
    dirs = [d for d in dirs if os.path.exists(os.path.join(d, 'meta.json'))]
    only = [a for a in sys.argv[1:] if not a.startswith('--')]          # optional seed names: regress these only
    if only:
        dirs = [d for d in dirs if os.path.basename(d) in only]
    bad = 0
    with ThreadPoolExecutor(8) as ex:
        for d, prop, code, lines in ex.map(one, dirs):
            meta = json.load(open(os.path.join(d, 'meta.json')))
            if meta.get('obsolete'):
                # the change no longer breaks the property on today's tree (a later fix: commit removed what it relied on);
                # it must now be silent - it is a behaviour-preserving variant
                print('%-8s %-9s %s' % (os.path.basename(d), 'obsolete', ('silent' if code == 0 else 'NOT SILENT exit %s' % code) + ': ' + meta['obsolete'][:120]))
                if code != 0:
                    bad += 1
                continue
            was = prop in meta.get('detected_by', [])
            now = code == 1
            tag = 'detected' if now else ('MISSED' if code == 0 else 'exit %s' % code)
            if was and not now:
                bad += 1
                tag += '  <-- REGRESSION'
            print('%-8s %-9s %s' % (os.path.basename(d), tag, (lines[0][:160] if lines else '')))
            if '--update' in sys.argv and code is not None:
                meta['detected_by'] = sorted(set(p for p in meta.get('detected_by', []) if p != prop) | ({prop} if now else set()))
                meta.setdefault('checks', {})[prop] = {'exit': code, 'lines': [l[:300] for l in lines]}
                json.dump(meta, open(os.path.join(d, 'meta.json'), 'w'), indent=1)
    return 1 if bad else 0


if __name__ == '__main__':
    sys.exit(main())

#!/bin/sh
# addneutral.sh <patch.diff> <Cnn> <name>: keep a behaviour-preserving variant as a `silent` self-test of property Cnn
set -e
out=/verif/selftest/$2/neutral-$3.patch
{ echo "# expect: silent"; echo "# behaviour-preserving variant written by a sub-agent that saw only the source, not the checks"; cat "$1"; } > "$out"
echo "$out"

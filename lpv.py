#!/usr/bin/env python3
"""Driver of the libphysica static checks.

  python3-vt lpv.py check <Cnn> [--tier quick|thorough] [--root /repo]
  python3-vt lpv.py replay <replay.json>
  python3-vt lpv.py selftest <Cnn>|all
  python3-vt lpv.py all [--tier ...]

exit 0: every obligation of the property holds on the analysed tree
exit 1: VIOLATION property=<id> replay=<path>   (a violation not listed in known_findings.json)
exit 2: ANALYSIS-BROKEN (anchor vanished, extraction failed, rule outside its fragment, floor not met)
"""
import sys, os, time, json, argparse, importlib, traceback

sys.path.insert(0, os.path.dirname(os.path.abspath(__file__)))
from lpv import ir, report   # noqa: E402


from lpv.driver import run_property   # noqa: E402


def cmd_check(args):
    tier = os.environ.get('VERIF_TIER') or args.tier
    if tier not in ('quick', 'thorough'):
        tier = 'quick'
    try:
        prog = ir.extract(args.root)
    except ir.AnalysisBroken as e:
        print('ANALYSIS-BROKEN property=%s %s' % (args.prop, e))
        return 2
    code, ctx = run_property(args.prop, prog, tier, write=not args.no_write)
    if tier == 'thorough' and code == 0:
        from lpv import selftest
        c2 = selftest.thorough(args.prop, args.root, ctx)
        code = max(code, c2)
    return code


def cmd_replay(args):
    r = json.load(open(args.path))
    prog = ir.extract(args.root)
    code, ctx = run_property(r['property'], prog, 'quick', write=False, out=lambda *a: None)
    hit = [o for o in ctx.obs if o.rule == r['rule'] and o.instance == r['instance']]
    if not hit:
        print('instance %s %s no longer exists in the tree' % (r['rule'], r['instance']))
        return 2
    for o in hit:
        print('%s %s at %s: %s -> %s' % (o.rule, o.instance, o.where, o.detail, o.status))
        if o.witness is not None:
            print('    witness: %s' % (o.witness,))
    if any(o.status == report.VIOLATED for o in hit):
        print('VIOLATION property=%s replay=%s' % (r['property'], args.path))
        return 1
    return 0


def cmd_selftest(args):
    from lpv import selftest
    return selftest.run(args.prop, args.root)


def cmd_all(args):
    prog = ir.extract(args.root)
    worst = 0
    for n in range(1, 21):
        pid = 'C%02d' % n
        if not os.path.exists(os.path.join(os.path.dirname(os.path.abspath(__file__)), 'lpv', 'props', pid + '.py')):
            continue
        code, _ = run_property(pid, prog, args.tier, write=not args.no_write)
        worst = max(worst, code)
    return worst


def main():
    ap = argparse.ArgumentParser()
    sub = ap.add_subparsers(dest='cmd', required=True)
    for name in ('check', 'selftest'):
        p = sub.add_parser(name)
        p.add_argument('prop')
        p.add_argument('--tier', default='quick')
        p.add_argument('--root', default='/repo')
        p.add_argument('--no-write', action='store_true')
    p = sub.add_parser('replay')
    p.add_argument('path')
    p.add_argument('--root', default='/repo')
    p = sub.add_parser('all')
    p.add_argument('--tier', default='quick')
    p.add_argument('--root', default='/repo')
    p.add_argument('--no-write', action='store_true')
    args = ap.parse_args()
    code = {'check': cmd_check, 'replay': cmd_replay, 'selftest': cmd_selftest, 'all': cmd_all}[args.cmd](args)
    sys.exit(code)


if __name__ == '__main__':
    main()

// Explicit instantiations of libphysica's header-only list templates so that the
// extractor sees type-checked bodies for them even if no library TU happens to
// use one. This file only *includes* /repo's header; it adds no library code.
#include <iostream>
#include <string>
#include <vector>

#include "libphysica/List_Manipulations.hpp"

namespace libphysica
{
template bool Lists_Equal<double>(const std::vector<double>&, const std::vector<double>&);
template bool Lists_Equal<double>(const std::vector<std::vector<double>>&, const std::vector<std::vector<double>>&);
template std::vector<double> Combine_Lists<double>(const std::vector<double>&, const std::vector<double>&);
template std::vector<std::vector<double>> Transpose_Lists<double>(const std::vector<std::vector<double>>&);
template std::vector<std::vector<double>> Transpose_Lists<double>(const std::vector<double>&, const std::vector<double>&);
template std::vector<double> Sub_List<double>(const std::vector<double>&, int, unsigned int);
template std::vector<double> Flatten_List<double>(const std::vector<std::vector<double>>&);
template bool List_Contains<double>(const std::vector<double>&, double);
template std::vector<int> Find_Indices<double>(const std::vector<double>&, double);
}	// namespace libphysica

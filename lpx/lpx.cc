// lpx: libTooling extractor for the libphysica static checks.
// Parses one translation unit with the given compile flags and writes one JSON
// document ("lpx-IR") with every function body defined under --root (and in
// the main file) as a structured statement/expression tree with resolved
// references, plus classes and namespace-scope variables.
//
// usage: lpx --root=/repo --out=file.json source.cpp -- <compile flags>
#include "clang/AST/ASTConsumer.h"
#include "clang/AST/ASTContext.h"
#include "clang/AST/DeclCXX.h"
#include "clang/AST/DeclTemplate.h"
#include "clang/AST/Expr.h"
#include "clang/AST/ExprCXX.h"
#include "clang/AST/Stmt.h"
#include "clang/AST/StmtCXX.h"
#include "clang/Frontend/CompilerInstance.h"
#include "clang/Frontend/FrontendAction.h"
#include "clang/Lex/Lexer.h"
#include "clang/Tooling/CommonOptionsParser.h"
#include "clang/Tooling/Tooling.h"
#include "llvm/Support/CommandLine.h"
#include "llvm/Support/JSON.h"
#include "llvm/Support/raw_ostream.h"
#include <set>
#include <string>

using namespace clang;
using namespace clang::tooling;
namespace json = llvm::json;

static llvm::cl::OptionCategory Cat("lpx options");
static llvm::cl::opt<std::string> OptRoot("root", llvm::cl::desc("source root"), llvm::cl::cat(Cat));
static llvm::cl::opt<std::string> OptOut("out", llvm::cl::desc("output file"), llvm::cl::cat(Cat));

namespace
{

struct Dumper
{
	ASTContext& Ctx;
	SourceManager& SM;
	PrintingPolicy PP;
	std::string Root;
	json::Array Functions, Classes, Globals;
	std::set<const FunctionDecl*> SeenFn;
	bool SawGoto = false;

	Dumper(ASTContext& C, std::string R)
	: Ctx(C), SM(C.getSourceManager()), PP(C.getLangOpts()), Root(std::move(R))
	{
		PP.SuppressTagKeyword = true;
		PP.Bool				  = true;
		PP.SuppressUnwrittenScope = true;
	}

	// ---------- helpers
	static std::string idOf(const void* p)
	{
		char buf[32];
		snprintf(buf, sizeof buf, "%llx", (unsigned long long) (uintptr_t) p);
		return buf;
	}

	std::string fileOf(SourceLocation L)
	{
		L = SM.getExpansionLoc(L);
		if(L.isInvalid())
			return "";
		auto F = SM.getFilename(L);
		return F.str();
	}
	int lineOf(SourceLocation L)
	{
		L = SM.getExpansionLoc(L);
		return L.isValid() ? (int) SM.getSpellingLineNumber(L) : 0;
	}
	int colOf(SourceLocation L)
	{
		L = SM.getExpansionLoc(L);
		return L.isValid() ? (int) SM.getSpellingColumnNumber(L) : 0;
	}
	bool inScope(SourceLocation L)
	{
		std::string F = fileOf(L);
		if(F.empty())
			return false;
		if(SM.isInMainFile(SM.getExpansionLoc(L)))
			return true;
		llvm::SmallString<256> P(F);
		std::string S = P.str().str();
		// normalise "/repo/src/../include/x" is not needed: includes are -I based
		return S.compare(0, Root.size(), Root) == 0 && S.find("/_build/") == std::string::npos && S.find("/external/") == std::string::npos;
	}

	std::string tyStr(QualType T)
	{
		if(T.isNull())
			return "";
		QualType C = T.getNonReferenceType().getCanonicalType().getUnqualifiedType();
		return C.getAsString(PP);
	}
	std::string tyWritten(QualType T)
	{
		if(T.isNull())
			return "";
		return T.getAsString(PP);
	}

	std::string sigOf(const FunctionDecl* FD)
	{
		std::string S = FD->getQualifiedNameAsString();
		S += "(";
		bool first = true;
		for(const ParmVarDecl* P : FD->parameters())
		{
			if(!first)
				S += ",";
			first = false;
			S += P->getType().getCanonicalType().getAsString(PP);
		}
		S += ")";
		if(auto* M = dyn_cast<CXXMethodDecl>(FD))
			if(M->isConst())
				S += "const";
		return S;
	}

	std::string macroName(SourceLocation L)
	{
		if(L.isMacroID())
		{
			// outermost macro that expands to this token
			SourceLocation Cur = L;
			std::string name;
			while(Cur.isMacroID())
			{
				name = Lexer::getImmediateMacroName(Cur, SM, Ctx.getLangOpts()).str();
				if(SM.isMacroArgExpansion(Cur))
					Cur = SM.getImmediateSpellingLoc(Cur);
				else
					Cur = SM.getImmediateExpansionRange(Cur).getBegin();
			}
			return name;
		}
		return "";
	}

	std::string srcText(SourceRange R)
	{
		if(R.isInvalid())
			return "";
		SourceLocation B = SM.getSpellingLoc(R.getBegin());
		SourceLocation E = SM.getSpellingLoc(R.getEnd());
		if(B.isInvalid() || E.isInvalid())
			return "";
		bool Inv = false;
		StringRef T = Lexer::getSourceText(CharSourceRange::getTokenRange(B, E), SM, Ctx.getLangOpts(), &Inv);
		return Inv ? "" : T.str();
	}

	void loc(json::Object& O, SourceLocation L)
	{
		O["l"] = lineOf(L);
	}

	// ---------- expressions
	json::Value declRef(const ValueDecl* D, const Expr* E, bool captured)
	{
		json::Object O;
		O["k"]	  = "Ref";
		O["name"] = D->getNameAsString();
		O["id"]	  = idOf(D->getCanonicalDecl());
		O["ty"]	  = tyStr(D->getType());
		if(auto* PD = dyn_cast<ParmVarDecl>(D))
		{
			O["rk"]	 = "param";
			O["idx"] = (int) PD->getFunctionScopeIndex();
			if(PD->getType()->isReferenceType())
				O["byref"] = true;
		}
		else if(auto* VD = dyn_cast<VarDecl>(D))
		{
			if(VD->isStaticLocal())
				O["rk"] = "slocal";
			else if(VD->hasLocalStorage())
				O["rk"] = "local";
			else if(VD->isStaticDataMember())
			{
				O["rk"] = "global";
				O["q"]	= VD->getQualifiedNameAsString();
			}
			else
			{
				O["rk"] = "global";
				O["q"]	= VD->getQualifiedNameAsString();
			}
			if(VD->getType().isConstQualified())
				O["const"] = true;
			if(VD->getType()->isReferenceType())
				O["byref"] = true;
		}
		else if(auto* FD = dyn_cast<FunctionDecl>(D))
		{
			O["rk"]	 = "func";
			O["q"]	 = FD->getQualifiedNameAsString();
			O["sig"] = sigOf(FD);
		}
		else if(isa<EnumConstantDecl>(D))
		{
			O["rk"] = "enum";
			O["q"]	= D->getQualifiedNameAsString();
		}
		else if(isa<FieldDecl>(D))
			O["rk"] = "field";
		else if(isa<BindingDecl>(D))
			O["rk"] = "binding";
		else
			O["rk"] = "other";
		if(captured)
			O["cap"] = true;
		if(E)
			loc(O, E->getExprLoc());
		return O;
	}

	// A free function that no header declares: a file-local helper (static, anonymous namespace, or simply
	// defined in the .cpp only).  Such helpers are implementation detail of their callers.
	bool isFileLocal(const FunctionDecl* FD)
	{
		if(!FD || isa<CXXMethodDecl>(FD) || !inScope(FD->getLocation()))
			return false;
		if(FD->isTemplateInstantiation() || FD->getTemplatedKind() != FunctionDecl::TK_NonTemplate)
			return false;
		if(!FD->isExternallyVisible())
			return true;
		for(const FunctionDecl* R : FD->redecls())
			if(!SM.isInMainFile(SM.getExpansionLoc(R->getLocation())))
				return false;
		return true;
	}

	json::Value calleeInfo(const FunctionDecl* FD)
	{
		json::Object C;
		if(!FD)
			return nullptr;
		if(isFileLocal(FD))
			C["local"] = true;
		C["q"]	 = FD->getQualifiedNameAsString();
		C["sig"] = sigOf(FD);
		C["name"] = FD->getNameAsString();
		if(FD->isNoReturn())
			C["noreturn"] = true;
		if(inScope(FD->getLocation()))
			C["inrepo"] = true;
		if(auto* M = dyn_cast<CXXMethodDecl>(FD))
		{
			C["cls"] = M->getParent()->getQualifiedNameAsString();
			if(M->isConst())
				C["const"] = true;
			if(M->isStatic())
				C["static"] = true;
		}
		if(FD->isOverloadedOperator())
			C["op"] = getOperatorSpelling(FD->getOverloadedOperator());
		C["ret"] = tyStr(FD->getReturnType());
		// which parameters are non-const references (possible out-params)
		json::Array refs;
		unsigned i = 0;
		for(const ParmVarDecl* P : FD->parameters())
		{
			QualType T = P->getType();
			if(T->isLValueReferenceType() && !T.getNonReferenceType().isConstQualified())
				refs.push_back((int) i);
			++i;
		}
		if(!refs.empty())
			C["mutrefs"] = std::move(refs);
		return C;
	}

	json::Value exprs(llvm::ArrayRef<const Expr*> A)
	{
		json::Array R;
		for(const Expr* E : A)
			R.push_back(expr(E));
		return R;
	}

	bool isRecordNamed(QualType T, llvm::StringRef Name)
	{
		T = T.getNonReferenceType().getCanonicalType();
		if(auto* RD = T->getAsCXXRecordDecl())
			return RD->getQualifiedNameAsString() == Name;
		return false;
	}

	json::Value expr(const Expr* E)
	{
		if(!E)
			return nullptr;
		// transparent wrappers
		if(auto* P = dyn_cast<ParenExpr>(E))
			return expr(P->getSubExpr());
		if(auto* P = dyn_cast<ExprWithCleanups>(E))
			return expr(P->getSubExpr());
		if(auto* P = dyn_cast<MaterializeTemporaryExpr>(E))
			return expr(P->getSubExpr());
		if(auto* P = dyn_cast<CXXBindTemporaryExpr>(E))
			return expr(P->getSubExpr());
		if(auto* P = dyn_cast<ConstantExpr>(E))
			return expr(P->getSubExpr());
		if(auto* P = dyn_cast<SubstNonTypeTemplateParmExpr>(E))
			return expr(P->getReplacement());
		if(auto* P = dyn_cast<CXXStdInitializerListExpr>(E))
			return expr(P->getSubExpr());
		if(auto* P = dyn_cast<OpaqueValueExpr>(E))
			return P->getSourceExpr() ? expr(P->getSourceExpr()) : json::Value(nullptr);

		json::Object O;
		loc(O, E->getExprLoc());
		O["ty"] = tyStr(E->getType());

		if(auto* L = dyn_cast<IntegerLiteral>(E))
		{
			O["k"]	= "Lit";
			O["lk"] = "int";
			llvm::SmallString<32> S;
			L->getValue().toString(S, 10, L->getType()->isSignedIntegerType());
			O["v"] = S.str().str();
			std::string M = macroName(L->getBeginLoc());
			if(!M.empty())
				O["macro"] = M;
			return O;
		}
		if(auto* L = dyn_cast<FloatingLiteral>(E))
		{
			O["k"]	= "Lit";
			O["lk"] = "float";
			std::string T = srcText(L->getSourceRange());
			llvm::SmallString<32> S;
			L->getValue().toString(S, 17);
			O["val"] = S.str().str();
			// strip suffixes
			while(!T.empty() && (T.back() == 'f' || T.back() == 'F' || T.back() == 'l' || T.back() == 'L'))
				T.pop_back();
			O["v"] = T.empty() ? S.str().str() : T;
			std::string M = macroName(L->getBeginLoc());
			if(!M.empty())
				O["macro"] = M;
			return O;
		}
		if(auto* L = dyn_cast<CXXBoolLiteralExpr>(E))
		{
			O["k"]	= "Lit";
			O["lk"] = "bool";
			O["v"]	= L->getValue() ? "true" : "false";
			return O;
		}
		if(auto* L = dyn_cast<StringLiteral>(E))
		{
			O["k"]	= "Lit";
			O["lk"] = "str";
			O["v"]	= L->isAscii() || L->isUTF8() ? L->getString().str() : std::string("<wide>");
			return O;
		}
		if(auto* L = dyn_cast<CharacterLiteral>(E))
		{
			O["k"]	= "Lit";
			O["lk"] = "char";
			O["v"]	= std::to_string(L->getValue());
			return O;
		}
		if(isa<CXXNullPtrLiteralExpr>(E) || isa<GNUNullExpr>(E))
		{
			O["k"]	= "Lit";
			O["lk"] = "null";
			O["v"]	= "0";
			return O;
		}
		if(auto* U = dyn_cast<UserDefinedLiteral>(E))
		{
			O["k"]		= "UDL";
			O["suffix"] = U->getUDSuffix()->getName().str();
			O["e"]		= U->getNumArgs() > 0 ? expr(U->getArg(0)) : json::Value(nullptr);
			return O;
		}
		if(auto* D = dyn_cast<DeclRefExpr>(E))
		{
			json::Value V = declRef(D->getDecl(), E, D->refersToEnclosingVariableOrCapture());
			return V;
		}
		if(auto* M = dyn_cast<MemberExpr>(E))
		{
			O["k"]	  = "Member";
			O["base"] = expr(M->getBase());
			O["name"] = M->getMemberDecl()->getNameAsString();
			O["id"]	  = idOf(M->getMemberDecl()->getCanonicalDecl());
			if(auto* FD = dyn_cast<FieldDecl>(M->getMemberDecl()))
				O["cls"] = FD->getParent()->getQualifiedNameAsString();
			else if(auto* MD = dyn_cast<CXXMethodDecl>(M->getMemberDecl()))
			{
				O["cls"]	= MD->getParent()->getQualifiedNameAsString();
				O["method"] = true;
			}
			return O;
		}
		if(isa<CXXThisExpr>(E))
		{
			O["k"] = "This";
			return O;
		}
		if(auto* U = dyn_cast<UnaryOperator>(E))
		{
			O["k"]	= "Un";
			O["op"] = UnaryOperator::getOpcodeStr(U->getOpcode()).str();
			if(U->isPostfix())
				O["post"] = true;
			O["e"] = expr(U->getSubExpr());
			return O;
		}
		if(auto* B = dyn_cast<BinaryOperator>(E))
		{
			O["k"]	= "Bin";
			O["op"] = B->getOpcodeStr().str();
			O["l"]	= lineOf(B->getOperatorLoc());
			O["lhs"] = expr(B->getLHS());
			O["rhs"] = expr(B->getRHS());
			if(auto* CA = dyn_cast<CompoundAssignOperator>(B))
				O["cty"] = tyStr(CA->getComputationResultType());
			return O;
		}
		if(auto* C = dyn_cast<ConditionalOperator>(E))
		{
			O["k"] = "Cond";
			O["c"] = expr(C->getCond());
			O["a"] = expr(C->getTrueExpr());
			O["b"] = expr(C->getFalseExpr());
			return O;
		}
		if(auto* A = dyn_cast<ArraySubscriptExpr>(E))
		{
			O["k"]	  = "Index";
			O["base"] = expr(A->getBase());
			O["idx"]  = expr(A->getIdx());
			return O;
		}
		if(auto* C = dyn_cast<CastExpr>(E))
		{
			CastKind K = C->getCastKind();
			switch(K)
			{
				case CK_IntegralToFloating:
				case CK_FloatingToIntegral:
				case CK_IntegralCast:
				case CK_FloatingCast:
				case CK_IntegralToBoolean:
				case CK_FloatingToBoolean:
				case CK_BooleanToSignedIntegral:
				case CK_FloatingRealToComplex:
				case CK_IntegralRealToComplex:
				case CK_ConstructorConversion:
				case CK_UserDefinedConversion:
				{
					if(K == CK_ConstructorConversion || K == CK_UserDefinedConversion)
						return expr(C->getSubExpr());
					O["k"]	= "Cast";
					O["ck"] = C->getCastKindName();
					if(isa<ExplicitCastExpr>(C))
						O["explicit"] = true;
					O["e"] = expr(C->getSubExpr());
					return O;
				}
				default:
					return expr(C->getSubExpr());
			}
		}
		if(auto* L = dyn_cast<LambdaExpr>(E))
		{
			O["k"] = "Lambda";
			json::Array Caps;
			auto InitIt = L->capture_init_begin();
			for(const LambdaCapture& Cap : L->captures())
			{
				json::Object CO;
				if(Cap.capturesVariable())
				{
					CO["name"] = Cap.getCapturedVar()->getNameAsString();
					CO["id"]   = idOf(Cap.getCapturedVar()->getCanonicalDecl());
					CO["byref"] = Cap.getCaptureKind() == LCK_ByRef;
				}
				else if(Cap.capturesThis())
					CO["name"] = "this";
				Caps.push_back(std::move(CO));
				++InitIt;
			}
			O["captures"] = std::move(Caps);
			O["fn"]		  = function(L->getCallOperator(), true);
			return O;
		}
		if(auto* C = dyn_cast<CXXConstructExpr>(E))
		{
			const CXXConstructorDecl* CD = C->getConstructor();
			// copy / move construction from a single argument: transparent
			if(CD->isCopyOrMoveConstructor() && C->getNumArgs() == 1)
			{
				O["k"] = "Copy";
				O["e"] = expr(C->getArg(0));
				if(inScope(CD->getLocation()) && CD->isUserProvided())
					O["user"] = sigOf(CD);
				return O;
			}
			O["k"]	 = "Construct";
			O["q"]	 = CD->getParent()->getQualifiedNameAsString();
			O["sig"] = sigOf(CD);
			if(inScope(CD->getLocation()))
				O["inrepo"] = true;
			if(C->isListInitialization())
				O["list"] = true;
			if(C->isStdInitListInitialization())
				O["stdinit"] = true;
			json::Array A;
			for(const Expr* X : C->arguments())
				A.push_back(expr(X));
			O["args"] = std::move(A);
			return O;
		}
		if(auto* I = dyn_cast<InitListExpr>(E))
		{
			if(I->isSemanticForm() == false && I->getSemanticForm())
				I = I->getSemanticForm();
			O["k"] = "InitList";
			json::Array A;
			for(const Expr* X : I->inits())
				A.push_back(expr(X));
			O["elems"] = std::move(A);
			return O;
		}
		if(auto* D = dyn_cast<CXXDefaultArgExpr>(E))
		{
			O["k"] = "DefaultArg";
			O["e"] = expr(D->getExpr());
			return O;
		}
		if(auto* D = dyn_cast<CXXDefaultInitExpr>(E))
			return expr(D->getExpr());
		if(isa<ImplicitValueInitExpr>(E) || isa<CXXScalarValueInitExpr>(E))
		{
			O["k"]	= "Lit";
			O["lk"] = "zero";
			O["v"]	= "0";
			return O;
		}
		if(auto* OC = dyn_cast<CXXOperatorCallExpr>(E))
		{
			const FunctionDecl* FD = OC->getDirectCallee();
			OverloadedOperatorKind OK = OC->getOperator();
			std::string Sp			  = getOperatorSpelling(OK);
			if(OK == OO_Subscript && OC->getNumArgs() == 2)
			{
				O["k"]	  = "Index";
				O["base"] = expr(OC->getArg(0));
				O["idx"]  = expr(OC->getArg(1));
				if(FD)
				{
					O["q"] = FD->getQualifiedNameAsString();
					O["sig"] = sigOf(FD);
					if(inScope(FD->getLocation()))
						O["inrepo"] = true;
				}
				return O;
			}
			if(OK == OO_Call)
			{
				QualType OT = OC->getArg(0)->getType();
				O["k"]		= "Call";
				const CXXRecordDecl* RD = OT.getNonReferenceType()->getAsCXXRecordDecl();
				if(RD && RD->isLambda())
					O["kind"] = "lambda";
				else if(RD && RD->getQualifiedNameAsString() == "std::function")
					O["kind"] = "stdfn";
				else
					O["kind"] = "functor";
				O["fn"] = expr(OC->getArg(0));
				json::Array A;
				for(unsigned i = 1; i < OC->getNumArgs(); ++i)
					A.push_back(expr(OC->getArg(i)));
				O["args"]	= std::move(A);
				O["callee"] = calleeInfo(FD);
				O["c"]		= colOf(OC->getExprLoc());
				return O;
			}
			if(OK == OO_Equal && OC->getNumArgs() == 2)
			{
				O["k"]	 = "Bin";
				O["op"]	 = "=";
				O["lhs"] = expr(OC->getArg(0));
				O["rhs"] = expr(OC->getArg(1));
				if(FD)
				{
					O["ovl"] = sigOf(FD);
					if(inScope(FD->getLocation()) && FD->isUserProvided())
						O["ovl_user"] = true;
				}
				return O;
			}
			O["k"]		= "Call";
			O["kind"]	= "op";
			O["op"]		= Sp;
			O["callee"] = calleeInfo(FD);
			json::Array A;
			for(const Expr* X : OC->arguments())
				A.push_back(expr(X));
			O["args"] = std::move(A);
			O["c"]	  = colOf(OC->getExprLoc());
			return O;
		}
		if(auto* MC = dyn_cast<CXXMemberCallExpr>(E))
		{
			const CXXMethodDecl* MD = MC->getMethodDecl();
			O["k"]					= "Call";
			O["kind"]				= "method";
			O["obj"]				= expr(MC->getImplicitObjectArgument());
			O["callee"]				= calleeInfo(MD);
			json::Array A;
			for(const Expr* X : MC->arguments())
				A.push_back(expr(X));
			O["args"] = std::move(A);
			O["c"]	  = colOf(MC->getExprLoc());
			// conversion operators (e.g. lambda -> std::function is a ctor, not this)
			return O;
		}
		if(auto* C = dyn_cast<CallExpr>(E))
		{
			const FunctionDecl* FD = C->getDirectCallee();
			O["k"]				   = "Call";
			O["kind"]			   = FD ? "func" : "indirect";
			if(FD)
				O["callee"] = calleeInfo(FD);
			else
				O["fn"] = expr(C->getCallee());
			json::Array A;
			for(const Expr* X : C->arguments())
				A.push_back(expr(X));
			O["args"] = std::move(A);
			O["c"]	  = colOf(C->getExprLoc());
			return O;
		}
		if(auto* U = dyn_cast<UnaryExprOrTypeTraitExpr>(E))
		{
			O["k"]	= "Lit";
			O["lk"] = "sizeof";
			O["v"]	= "0";
			return O;
		}
		if(auto* U = dyn_cast<UnresolvedLookupExpr>(E))
		{
			O["k"]	  = "Unresolved";
			O["name"] = U->getName().getAsString();
			return O;
		}
		if(auto* U = dyn_cast<CXXDependentScopeMemberExpr>(E))
		{
			O["k"]	  = "Unresolved";
			O["name"] = U->getMember().getAsString();
			if(!U->isImplicitAccess())
				O["base"] = expr(U->getBase());
			return O;
		}
		if(auto* U = dyn_cast<CXXUnresolvedConstructExpr>(E))
		{
			O["k"] = "UnresolvedConstruct";
			json::Array A;
			for(const Expr* X : U->arguments())
				A.push_back(expr(X));
			O["args"] = std::move(A);
			return O;
		}
		// generic fallback
		O["k"]	 = "Other";
		O["cls"] = E->getStmtClassName();
		json::Array Sub;
		for(const Stmt* S : E->children())
			if(auto* X = dyn_cast_or_null<Expr>(S))
				Sub.push_back(expr(X));
		O["sub"] = std::move(Sub);
		return O;
	}

	// ---------- statements
	json::Value varDecl(const VarDecl* VD)
	{
		json::Object D;
		D["name"] = VD->getNameAsString();
		D["id"]	  = idOf(VD->getCanonicalDecl());
		D["ty"]	  = tyStr(VD->getType());
		D["tyw"]  = tyWritten(VD->getType());
		D["l"]	  = lineOf(VD->getLocation());
		if(VD->isStaticLocal())
			D["static"] = true;
		if(VD->getType().isConstQualified())
			D["const"] = true;
		if(VD->getType()->isReferenceType())
			D["byref"] = true;
		if(VD->hasInit())
			D["init"] = expr(VD->getInit());
		return D;
	}

	json::Value stmt(const Stmt* S)
	{
		if(!S)
			return nullptr;
		json::Object O;
		O["l"] = lineOf(S->getBeginLoc());
		if(auto* C = dyn_cast<CompoundStmt>(S))
		{
			O["k"] = "Compound";
			json::Array B;
			for(const Stmt* X : C->body())
				B.push_back(stmt(X));
			O["body"] = std::move(B);
			return O;
		}
		if(auto* D = dyn_cast<DeclStmt>(S))
		{
			O["k"] = "Decl";
			json::Array A;
			for(const Decl* X : D->decls())
				if(auto* VD = dyn_cast<VarDecl>(X))
					A.push_back(varDecl(VD));
			O["decls"] = std::move(A);
			return O;
		}
		if(auto* I = dyn_cast<IfStmt>(S))
		{
			O["k"]	  = "If";
			O["cond"] = expr(I->getCond());
			O["then"] = stmt(I->getThen());
			O["else"] = stmt(I->getElse());
			return O;
		}
		if(auto* F = dyn_cast<ForStmt>(S))
		{
			O["k"]	  = "For";
			O["init"] = stmt(F->getInit());
			O["cond"] = expr(F->getCond());
			O["inc"]  = expr(F->getInc());
			O["body"] = stmt(F->getBody());
			return O;
		}
		if(auto* W = dyn_cast<WhileStmt>(S))
		{
			O["k"]	  = "While";
			O["cond"] = expr(W->getCond());
			O["body"] = stmt(W->getBody());
			return O;
		}
		if(auto* W = dyn_cast<DoStmt>(S))
		{
			O["k"]	  = "Do";
			O["cond"] = expr(W->getCond());
			O["body"] = stmt(W->getBody());
			return O;
		}
		if(auto* R = dyn_cast<CXXForRangeStmt>(S))
		{
			O["k"]	   = "RangeFor";
			O["var"]   = varDecl(R->getLoopVariable());
			O["range"] = expr(R->getRangeInit());
			O["body"]  = stmt(R->getBody());
			return O;
		}
		if(auto* R = dyn_cast<ReturnStmt>(S))
		{
			O["k"] = "Return";
			O["e"] = expr(R->getRetValue());
			return O;
		}
		if(isa<BreakStmt>(S))
		{
			O["k"] = "Break";
			return O;
		}
		if(isa<ContinueStmt>(S))
		{
			O["k"] = "Continue";
			return O;
		}
		if(isa<NullStmt>(S))
		{
			O["k"] = "Null";
			return O;
		}
		if(auto* W = dyn_cast<SwitchStmt>(S))
		{
			O["k"]	  = "Switch";
			O["cond"] = expr(W->getCond());
			O["body"] = stmt(W->getBody());
			return O;
		}
		if(auto* C = dyn_cast<CaseStmt>(S))
		{
			O["k"]	 = "Case";
			O["val"] = expr(C->getLHS());
			O["sub"] = stmt(C->getSubStmt());
			return O;
		}
		if(auto* C = dyn_cast<DefaultStmt>(S))
		{
			O["k"]	 = "Default";
			O["sub"] = stmt(C->getSubStmt());
			return O;
		}
		if(auto* T = dyn_cast<CXXTryStmt>(S))
		{
			O["k"]	  = "Try";
			O["body"] = stmt(T->getTryBlock());
			json::Array H;
			for(unsigned i = 0; i < T->getNumHandlers(); ++i)
				H.push_back(stmt(T->getHandler(i)->getHandlerBlock()));
			O["handlers"] = std::move(H);
			return O;
		}
		if(isa<GotoStmt>(S) || isa<LabelStmt>(S) || isa<IndirectGotoStmt>(S))
		{
			SawGoto = true;
			O["k"]	= "Goto";
			return O;
		}
		if(auto* E = dyn_cast<Expr>(S))
		{
			O["k"] = "Expr";
			O["e"] = expr(E);
			return O;
		}
		O["k"]	 = "OtherStmt";
		O["cls"] = S->getStmtClassName();
		return O;
	}

	// ---------- functions
	json::Value function(const FunctionDecl* FD, bool isLambda)
	{
		json::Object F;
		F["q"]	  = FD->getQualifiedNameAsString();
		F["name"] = FD->getNameAsString();
		F["sig"]  = sigOf(FD);
		F["id"]	  = idOf(FD->getCanonicalDecl());
		F["file"] = fileOf(FD->getLocation());
		F["l"]	  = lineOf(FD->getLocation());
		F["lend"] = lineOf(FD->getEndLoc());
		F["ret"]  = tyStr(FD->getReturnType());
		{
			// a function that hands out a mutable reference or pointer (to storage the caller can then write)
			QualType RT = FD->getReturnType();
			if((RT->isLValueReferenceType() && !RT.getNonReferenceType().isConstQualified()) ||
			   (RT->isPointerType() && !RT->getPointeeType().isConstQualified()))
				F["retmut"] = true;
		}
		if(isLambda)
			F["lambda"] = true;
		else if(isFileLocal(FD))
			F["local"] = true;
		if(FD->isNoReturn())
			F["noreturn"] = true;
		if(FD->getTemplatedKind() == FunctionDecl::TK_FunctionTemplate)
			F["pattern"] = true;
		if(FD->isTemplateInstantiation())
		{
			F["inst"] = true;
			if(auto* TA = FD->getTemplateSpecializationArgs())
			{
				json::Array A;
				for(const TemplateArgument& X : TA->asArray())
				{
					std::string S;
					llvm::raw_string_ostream OS(S);
					X.print(PP, OS, true);
					A.push_back(OS.str());
				}
				F["targs"] = std::move(A);
			}
		}
		json::Array Ps;
		for(const ParmVarDecl* P : FD->parameters())
		{
			json::Object PO;
			PO["name"] = P->getNameAsString();
			PO["id"]   = idOf(P->getCanonicalDecl());
			PO["ty"]   = tyStr(P->getType());
			PO["tyw"]  = tyWritten(P->getType());
			if(P->getType()->isReferenceType())
			{
				PO["byref"] = true;
				if(P->getType().getNonReferenceType().isConstQualified())
					PO["constref"] = true;
			}
			if(P->hasDefaultArg() && !P->hasUninstantiatedDefaultArg() && !P->hasUnparsedDefaultArg())
				PO["default"] = expr(P->getDefaultArg());
			Ps.push_back(std::move(PO));
		}
		F["params"] = std::move(Ps);
		if(auto* MD = dyn_cast<CXXMethodDecl>(FD))
		{
			if(!isLambda)
				F["cls"] = MD->getParent()->getQualifiedNameAsString();
			if(MD->isConst())
				F["const"] = true;
			if(MD->isStatic())
				F["static"] = true;
		}
		if(auto* CD = dyn_cast<CXXConstructorDecl>(FD))
		{
			F["ctor"] = true;
			json::Array Inits;
			for(const CXXCtorInitializer* I : CD->inits())
			{
				json::Object IO;
				if(I->isMemberInitializer())
				{
					IO["field"] = I->getMember()->getNameAsString();
					IO["id"]	= idOf(I->getMember()->getCanonicalDecl());
				}
				else if(I->isDelegatingInitializer())
					IO["delegating"] = true;
				else if(I->isBaseInitializer())
					IO["base"] = tyStr(QualType(I->getBaseClass(), 0));
				IO["written"] = I->isWritten();
				IO["init"]	  = expr(I->getInit());
				IO["l"]		  = lineOf(I->getSourceLocation());
				Inits.push_back(std::move(IO));
			}
			F["inits"] = std::move(Inits);
		}
		F["body"] = stmt(FD->getBody());
		return F;
	}

	void addFunction(const FunctionDecl* FD)
	{
		if(!FD->doesThisDeclarationHaveABody())
			return;
		if(!inScope(FD->getLocation()))
			return;
		if(FD->isImplicit() || FD->isDefaulted())
			return;
		if(!SeenFn.insert(FD).second)
			return;
		if(auto* MD = dyn_cast<CXXMethodDecl>(FD))
			if(MD->getParent()->isLambda())
				return;	  // dumped inline
		Functions.push_back(function(FD, false));
	}

	void addClass(const CXXRecordDecl* RD)
	{
		if(!RD->isThisDeclarationADefinition() || !inScope(RD->getLocation()) || RD->isLambda())
			return;
		json::Object C;
		C["q"]	  = RD->getQualifiedNameAsString();
		C["file"] = fileOf(RD->getLocation());
		C["l"]	  = lineOf(RD->getLocation());
		json::Array Fs;
		for(const FieldDecl* FD : RD->fields())
		{
			json::Object FO;
			FO["name"] = FD->getNameAsString();
			FO["id"]   = idOf(FD->getCanonicalDecl());
			FO["ty"]   = tyStr(FD->getType());
			if(FD->isMutable())
				FO["mutable"] = true;
			if(FD->getType().isConstQualified())
				FO["const"] = true;
			FO["access"] = (int) FD->getAccess();
			FO["l"]		 = lineOf(FD->getLocation());
			Fs.push_back(std::move(FO));
		}
		C["fields"] = std::move(Fs);
		json::Array Ss;
		for(const Decl* D : RD->decls())
			if(auto* VD = dyn_cast<VarDecl>(D))
				if(VD->isStaticDataMember())
					Ss.push_back(VD->getNameAsString());
		C["static_members"]			  = std::move(Ss);
		C["user_copy_ctor"]			  = RD->hasUserDeclaredCopyConstructor();
		C["user_copy_assign"]		  = RD->hasUserDeclaredCopyAssignment();
		C["user_move_ctor"]			  = RD->hasUserDeclaredMoveConstructor();
		C["user_move_assign"]		  = RD->hasUserDeclaredMoveAssignment();
		json::Array Bs;
		for(const CXXBaseSpecifier& B : RD->bases())
			Bs.push_back(tyStr(B.getType()));
		C["bases"] = std::move(Bs);
		json::Array Ms;
		for(const CXXMethodDecl* MD : RD->methods())
			if(!MD->isImplicit())
			{
				json::Object MO;
				MO["sig"]  = sigOf(MD);
				MO["name"] = MD->getNameAsString();
				MO["access"] = (int) MD->getAccess();
				Ms.push_back(std::move(MO));
			}
		C["methods"] = std::move(Ms);
		Classes.push_back(std::move(C));
	}

	void addGlobal(const VarDecl* VD)
	{
		if(!inScope(VD->getLocation()) || !VD->isThisDeclarationADefinition())
			return;
		if(VD->isLocalVarDeclOrParm())
			return;
		json::Object G;
		G["q"]	  = VD->getQualifiedNameAsString();
		G["name"] = VD->getNameAsString();
		G["id"]	  = idOf(VD->getCanonicalDecl());
		G["ty"]	  = tyStr(VD->getType());
		G["file"] = fileOf(VD->getLocation());
		G["l"]	  = lineOf(VD->getLocation());
		G["const"] = VD->getType().isConstQualified();
		if(VD->hasInit())
			G["init"] = expr(VD->getInit());
		Globals.push_back(std::move(G));
	}

	void walk(const DeclContext* DC)
	{
		for(const Decl* D : DC->decls())
		{
			if(auto* NS = dyn_cast<NamespaceDecl>(D))
				walk(NS);
			else if(auto* LS = dyn_cast<LinkageSpecDecl>(D))
				walk(LS);
			else if(auto* FT = dyn_cast<FunctionTemplateDecl>(D))
			{
				addFunction(FT->getTemplatedDecl());
				for(const FunctionDecl* Spec : FT->specializations())
					addFunction(Spec);
			}
			else if(auto* FD = dyn_cast<FunctionDecl>(D))
				addFunction(FD);
			else if(auto* RD = dyn_cast<CXXRecordDecl>(D))
			{
				addClass(RD);
				if(RD->isThisDeclarationADefinition() && inScope(RD->getLocation()))
					walk(RD);
			}
			else if(auto* VD = dyn_cast<VarDecl>(D))
				addGlobal(VD);
		}
	}
};

class Consumer : public ASTConsumer
{
  public:
	void HandleTranslationUnit(ASTContext& Ctx) override
	{
		std::string Root = OptRoot;
		Dumper D(Ctx, Root);
		D.walk(Ctx.getTranslationUnitDecl());
		json::Object Top;
		auto& SM   = Ctx.getSourceManager();
		Top["tu"]  = SM.getFileEntryForID(SM.getMainFileID())->getName().str();
		Top["root"] = Root;
		Top["functions"] = std::move(D.Functions);
		Top["classes"]	 = std::move(D.Classes);
		Top["globals"]	 = std::move(D.Globals);
		Top["goto"]		 = D.SawGoto;
		Top["errors"]	 = (int) Ctx.getDiagnostics().getNumErrors();
		std::error_code EC;
		llvm::raw_fd_ostream OS(OptOut, EC);
		if(EC)
		{
			llvm::errs() << "lpx: cannot write " << OptOut << "\n";
			exit(3);
		}
		OS << json::Value(std::move(Top)) << "\n";
	}
};

class Action : public ASTFrontendAction
{
  public:
	std::unique_ptr<ASTConsumer> CreateASTConsumer(CompilerInstance&, StringRef) override
	{
		return std::make_unique<Consumer>();
	}
};

}	// namespace

int main(int argc, const char** argv)
{
	auto Exp = CommonOptionsParser::create(argc, argv, Cat);
	if(!Exp)
	{
		llvm::errs() << Exp.takeError();
		return 2;
	}
	ClangTool Tool(Exp->getCompilations(), Exp->getSourcePathList());
	return Tool.run(newFrontendActionFactory<Action>().get());
}

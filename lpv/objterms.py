"""Symx with object-valued terms: values of libphysica::Vector / Matrix locals are kept as terms over the library's
own operations (the callees are not opened - their element-wise meaning is established separately by C04), so that a
function that only *composes* matrix operations (Householder_Matrix, QR_Decomposition) gets a normal form that is
independent of temporaries, aliases, statement merging and declaration order.

  FILL(r, c, v) / VFILL(n, v)     freshly constructed matrix / vector with constant entries
  UPD(base, i[, j], v)            base with one entry overwritten
  BLOCKS(((a, b), (c, d)))        the block-matrix constructor
  <q>(recv, args...)              const method of the library applied to a receiver term
  <q>!(recv, args...)             the receiver after a mutating method
"""
import sympy as sp
from sympy import Symbol, Function, Integer
from .ir import strip, strip_casts, show, Undecided
from .symx import Symx, Arr, LambdaVal

LP = ('libphysica::Vector', 'libphysica::Matrix')


class ObjSymx(Symx):
    def is_lp(self, ty):
        ty = (ty or '').replace('const ', '').replace('&', '').strip()
        return ty in LP

    def arr_term(self, v):
        if isinstance(v, Arr):
            if getattr(v, 'objterm', None) is not None:
                return v.objterm
            return Symbol('arr:' + str(v.name))
        return v

    def obj_term(self, obj, st):
        o = strip(obj)
        if o.get('k') in ('Ref', 'Member'):
            key = self.lv_key(o)
            if key is not None and key in st.env:
                v = st.env[key]
                if isinstance(v, sp.Basic):
                    return v
                if isinstance(v, Arr):
                    return self.arr_term(v)
            if o.get('k') == 'Member' and o.get('base') is not None:
                b = strip(o['base'])
                bk = self.lv_key(b) if b.get('k') in ('Ref', 'Member') else None
                if bk is not None and isinstance(st.env.get(bk), sp.Basic):
                    return Function('.' + o['name'], real=True)(st.env[bk])     # member of a value we know as a term (pair.first)
            return Symbol('obj:' + self.lv_name(o))
        return self.sym_or_name(o, st)

    def sym_or_name(self, x, st):
        x0 = strip(x)
        if x0.get('k') in ('Ref', 'Member') and self.is_lp(x0.get('ty')):
            return self.obj_term(x0, st)
        if x0.get('k') == 'Construct' and x0.get('q') in LP:
            t = self.lp_term(x0, st)
            if t is not None:
                return t
        return super().sym_or_name(x, st)

    # -- constructors
    def lp_term(self, e, st):
        args = [a for a in e.get('args', []) if a.get('k') != 'DefaultArg']
        q = e['q']
        if len(args) == 1:
            a0 = strip(args[0])
            if self.is_lp(a0.get('ty')):
                return self.sym_or_name(a0, st)          # copy
            if q == 'libphysica::Matrix' and 'std::vector<std::vector<libphysica::Matrix' in (a0.get('ty') or ''):
                return Function('BLOCKS', real=True)(self.block_rows(a0, st))
        tys = [strip(a).get('ty', '') for a in args]
        num = lambda t: t in ('double', 'float', 'int', 'unsigned int', 'long', 'unsigned long')
        if q == 'libphysica::Matrix' and len(args) in (2, 3) and all(num(t) for t in tys):
            fill = self.sym(args[2], st) if len(args) == 3 else Integer(0)
            return Function('FILL', real=True)(self.sym(args[0], st), self.sym(args[1], st), fill)
        if q == 'libphysica::Vector' and len(args) in (1, 2) and all(num(t) for t in tys):
            fill = self.sym(args[1], st) if len(args) == 2 else Integer(0)
            return Function('VFILL', real=True)(self.sym(args[0], st), fill)
        return None

    def block_rows(self, e, st):
        e = strip(e)
        while e.get('k') in ('Construct', 'Copy', 'Cast') and not self.is_lp(e.get('q', '')):
            inner = [a for a in e.get('args', []) if a.get('k') != 'DefaultArg'] if e.get('k') == 'Construct' else [e['e']]
            if e.get('k') == 'Construct' and (e.get('stdinit') or e.get('list')) and not (len(inner) == 1 and strip(inner[0]).get('k') == 'InitList'):
                return sp.Tuple(*[self.block_rows(a, st) for a in inner])
            if len(inner) != 1:
                return sp.Tuple(*[self.block_rows(a, st) for a in inner])
            e = strip(inner[0])
        if e.get('k') == 'InitList':
            return sp.Tuple(*[self.block_rows(a, st) for a in e['elems']])
        return self.sym_or_name(e, st)

    def rvalue(self, e, st):
        e0 = strip(e)
        if e0.get('k') == 'Construct' and e0.get('q') in LP:
            t = self.lp_term(e0, st)
            if t is not None:
                return t
        if e0.get('k') in ('Ref', 'Member') and self.is_lp(e0.get('ty')):
            return self.obj_term(e0, st)
        return super().rvalue(e, st)

    # -- methods of the library's classes
    def method_call(self, e, st):
        c = e['callee']
        cls = c.get('cls', '')
        if cls not in LP:
            return super().method_call(e, st)
        obj = strip(e['obj'])
        recv = self.obj_term(obj, st)
        a = [self.sym_or_name(x, st) for x in e.get('args', []) if x.get('k') != 'DefaultArg']
        if c.get('const'):
            return Function(c['q'], real=True)(recv, *a)
        key = self.lv_key(obj) if obj.get('k') in ('Ref', 'Member') else None
        if key is None:
            raise Undecided('mutating method on a temporary: ' + show(e))
        st.env[key] = Function(c['q'] + '!', real=True)(recv, *a)
        return Integer(0)

    def op_call(self, e, st):
        c = e.get('callee') or {}
        if e.get('op') == '[]' and c.get('cls') in LP:
            a = [self.sym_or_name(x, st) for x in e['args']]
            # element read: M[i][j] arrives as op[](op[](M, i), j) for Matrix (row proxy is a std::vector: Index node) or directly
            return Function('AT', real=True)(*a)
        return super().op_call(e, st)

    def index(self, e, st):
        # std::vector subscript applied to a row returned by Matrix::operator[]
        b = strip(e['base'])
        if b.get('k') == 'Call' and b.get('kind') == 'op' and b.get('op') == '[]' and (b.get('callee') or {}).get('cls') in LP:
            inner = self.op_call(b, st)
            return Function('AT', real=True)(*(tuple(inner.args) + (self.sym(e['idx'], st),)))
        return super().index(e, st)

    def assign(self, lhs, v, st):
        l = strip(lhs)
        idx = []
        t = l
        # peel subscripts: std::vector Index nodes and the classes' own operator[]
        while True:
            if t.get('k') == 'Index':
                idx.insert(0, self.sym(t['idx'], st))
                t = strip(t['base'])
            elif t.get('k') == 'Call' and t.get('kind') == 'op' and t.get('op') == '[]' and (t.get('callee') or {}).get('cls') in LP:
                idx.insert(0, self.sym(t['args'][1], st))
                t = strip(t['args'][0])
            else:
                break
        if idx and t.get('k') in ('Ref', 'Member') and self.is_lp(t.get('ty')):
            key = self.lv_key(t)
            if key is None:
                raise Undecided('assignment target ' + show(lhs))
            base = self.obj_term(t, st)
            if isinstance(v, (Arr, LambdaVal)):
                v = self.arr_term(v) if isinstance(v, Arr) else Symbol('lambda')
            st.env[key] = Function('UPD', real=True)(base, *(idx + [v]))
            return
        if l.get('k') in ('Ref', 'Member') and self.is_lp(l.get('ty')):
            key = self.lv_key(l)
            if isinstance(v, Arr):
                v = self.arr_term(v)
            st.env[key] = v
            return
        return super().assign(lhs, v, st)


# ----------------------------------------------------------------------------- canonical form of matrix-valued terms
SCALAR_FUNCS = ('Sign2', 'AT', 'libphysica::Vector::Norm', 'libphysica::Vector::Size', 'libphysica::Matrix::Rows', 'libphysica::Matrix::Columns',
                'libphysica::Vector::Dot', 'libphysica::Matrix::Trace', 'libphysica::Matrix::Determinant')


def is_scalar(t):
    if isinstance(t, (sp.Number, sp.NumberSymbol)):
        return True
    if isinstance(t, Symbol):
        return not (t.name.startswith('arr:') or t.name.startswith('obj:'))
    if isinstance(t, sp.core.function.AppliedUndef):
        n = t.func.__name__
        if n in SCALAR_FUNCS:
            return True
        if n.startswith('op') and ':' in n:
            return all(is_scalar(a) for a in t.args)
        return False
    if isinstance(t, (sp.Add, sp.Mul, sp.Pow)):
        return all(is_scalar(a) for a in t.args)
    return isinstance(t, sp.Basic) and not t.atoms(sp.core.function.AppliedUndef) and not any(s.name.startswith(('arr:', 'obj:')) for s in t.free_symbols)


def canon(t):
    """Canonical tree of a matrix/vector-valued term: sums are flattened and sorted, a product with one scalar factor is
    ('scale', s, X) wherever the scalar stood, everything else is (function name, canonical arguments)."""
    if isinstance(t, sp.Tuple):
        return ('tuple',) + tuple(canon(a) for a in t.args)
    if is_scalar(t):
        return ('s', sp.simplify(t) if not isinstance(t, (sp.Number, Symbol)) else t)
    if isinstance(t, sp.core.function.AppliedUndef):
        n = t.func.__name__
        if n.startswith('op') and ':' in n:
            op = n[2:n.index(':')]
            a = list(t.args)
            if op == '*' and len(a) == 2:
                s = [x for x in a if is_scalar(x)]
                m = [x for x in a if not is_scalar(x)]
                if len(s) == 1 and len(m) == 1:
                    inner = canon(m[0])
                    if inner[0] == 'scale':
                        return ('scale', sp.simplify(s[0] * inner[1]), inner[2])
                    return ('scale', sp.simplify(s[0]), inner)
                return ('mul', canon(a[0]), canon(a[1]))
            if op == '/' and len(a) == 2 and is_scalar(a[1]):
                return ('scale', sp.simplify(1 / a[1]), canon(a[0]))
            if op in ('+', '-') and len(a) == 2:
                terms = []
                for sign, x in ((1, a[0]), (1 if op == '+' else -1, a[1])):
                    cx = canon(x)
                    if cx[0] == 'add':
                        terms += [(sign * sg, y) for sg, y in cx[1]]
                    elif cx[0] == 'scale':
                        terms.append((sign * cx[1], cx[2]))
                    else:
                        terms.append((sp.Integer(sign), cx))
                terms = sorted(((sp.simplify(sg), y) for sg, y in terms), key=lambda p: str(p))
                return ('add', tuple(terms))
            if op == '-' and len(a) == 1:
                cx = canon(a[0])
                return ('scale', -cx[1], cx[2]) if cx[0] == 'scale' else ('scale', sp.Integer(-1), cx)
            return ('op' + op,) + tuple(canon(x) for x in a)
        return (n,) + tuple(canon(x) for x in t.args)
    return ('raw', t)

"""Obligation bookkeeping, evidence files, known findings, exit codes."""
import json, os, time, hashlib

from .ir import VERIF

HOLDS, VIOLATED, UNDECIDED = 'holds', 'violated', 'undecided'


class Ob:
    def __init__(self, rule, instance, status, where, detail, witness=None, form=None):
        self.rule = rule            # e.g. 'C01.a'
        self.instance = instance    # stable identity: '<function>:<role>' (never a line number)
        self.status = status
        self.where = where          # file:line of the construct (for the reader)
        self.detail = detail
        self.witness = witness
        self.form = form            # extracted normal form(s), for evidence samples

    def as_dict(self):
        d = {'rule': self.rule, 'instance': self.instance, 'status': self.status, 'where': self.where,
             'detail': self.detail}
        if self.witness is not None:
            d['witness'] = self.witness
        if self.form is not None:
            d['form'] = self.form
        return d


class Ctx:
    def __init__(self, prop, tier, prog):
        self.prop = prop
        self.tier = tier
        self.prog = prog
        self.obs = []
        self.floors = {}     # rule -> minimal number of instances confirmed by hand
        self.rules = {}      # rule -> text
        self.assumptions = []
        self.functions = set()
        self.call_sites = 0
        self.notes = []

    def rule(self, rid, text, floor=1):
        self.rules[rid] = text
        self.floors[rid] = floor

    def touch(self, fn):
        if fn is not None:
            self.functions.add(fn.sig if hasattr(fn, 'sig') else str(fn))

    def _w(self, fn, line=None):
        if fn is None:
            return ''
        if isinstance(fn, str):
            return fn
        rel = self.prog.rel(fn.file)
        return '%s:%d' % (rel, line or fn.line)

    def holds(self, rule, instance, fn, detail, line=None, form=None):
        self.touch(fn)
        self.obs.append(Ob(rule, instance, HOLDS, self._w(fn, line), detail, None, form))

    def violated(self, rule, instance, fn, detail, witness=None, line=None, form=None):
        self.touch(fn)
        self.obs.append(Ob(rule, instance, VIOLATED, self._w(fn, line), detail, witness, form))

    def undecided(self, rule, instance, fn, detail, line=None):
        self.touch(fn)
        self.obs.append(Ob(rule, instance, UNDECIDED, self._w(fn, line), detail))

    def sub(self, label, f, *a, **kw):
        """Run one group of rules; a construct outside its fragment (or an internal error) makes that group undecided and
        leaves the other groups of the property to run."""
        import traceback
        from . import ir as _ir
        try:
            return f(*a, **kw)
        except _ir.AnalysisBroken as e:
            self.undecided(self.prop, 'analysis:' + label, None, 'analysis broken: %s' % e)
        except _ir.Undecided as e:
            self.undecided(self.prop, 'analysis:' + label, None, 'construct outside the understood fragment: %s' % e)
        except Exception as e:
            self.undecided(self.prop, 'analysis:' + label, None, 'internal error: %s\n%s' % (e, traceback.format_exc()[-1200:]))
        return None

    def inherit(self, src_pid, select, newrule, who, cache={}):
        """Obligations of another property's rules about a callee this property depends on: the selected obligations
        (select(ob) -> bool) of `src_pid` are copied under rule `newrule` with instance 'dependency:<instance>'."""
        import importlib
        cache = self.prog.__dict__.setdefault('_inherit_cache', {})     # per program object, never by id()
        key = src_pid
        if key not in cache:
            sub = Ctx(src_pid, self.tier, self.prog)
            try:
                importlib.import_module('lpv.props.' + src_pid).check(self.prog, sub)
                cache[key] = sub
            except Exception as e:
                cache[key] = e
        sub = cache[key]
        if isinstance(sub, Exception):
            self.undecided(newrule, 'dependency:' + src_pid, None, '%s rules could not be evaluated: %s' % (src_pid, sub))
            return 0
        n = 0
        for o in sub.obs:
            if select(o):
                n += 1
                det = ('%s inherit%s: ' % (who, '' if who.endswith('s') else 's')) + o.detail if o.status == VIOLATED else o.detail
                self.obs.append(Ob(newrule, 'dependency:' + o.instance, o.status, o.where, det, o.witness if o.status == VIOLATED else None))
        return n

    def decide(self, rule, instance, fn, ok, detail_ok, detail_bad=None, witness=None, line=None, form=None):
        if ok:
            self.holds(rule, instance, fn, detail_ok, line, form)
        else:
            self.violated(rule, instance, fn, detail_bad or ('NOT: ' + detail_ok), witness, line, form)
        return ok


def load_known():
    p = os.path.join(VERIF, 'known_findings.json')
    if not os.path.exists(p):
        return []
    return json.load(open(p)).get('findings', [])


def finish(ctx, t0, seed=0, out=print, write=True):
    """Evaluate obligations against floors and known findings; write evidence; return exit code."""
    prop = ctx.prop
    known = [k for k in load_known() if k['property'] == prop and k.get('status') == 'known']
    broken = []
    any_viol = any(o.status == VIOLATED for o in ctx.obs)
    for rid, floor in ctx.floors.items():
        n = sum(1 for o in ctx.obs if o.rule == rid)
        if n < floor and not any_viol:   # a violation may legitimately cut a rule's follow-up obligations short
            broken.append('rule %s matched %d instance(s), fewer than the %d confirmed by hand' % (rid, n, floor))
    for o in ctx.obs:
        if o.status == UNDECIDED:
            broken.append('%s %s at %s: %s' % (o.rule, o.instance, o.where, o.detail))
    viol = [o for o in ctx.obs if o.status == VIOLATED]
    matched, fresh = [], []
    for o in viol:
        m = [k for k in known if k['rule'] == o.rule and k['instance'] == o.instance]
        (matched if m else fresh).append(o)
    replays = []
    if write:
        rdir = os.path.join(VERIF, 'replays', prop)
        os.makedirs(rdir, exist_ok=True)
    for n, o in enumerate(fresh):
        rp = os.path.join(VERIF, 'replays', prop, '%s-%s.json' % (o.rule, hashlib.sha1(o.instance.encode()).hexdigest()[:8]))
        if write:
            json.dump({'property': prop, 'rule': o.rule, 'instance': o.instance, 'where': o.where,
                       'detail': o.detail, 'witness': o.witness, 'form': o.form,
                       'rule_text': ctx.rules.get(o.rule, '')}, open(rp, 'w'), indent=1, default=str)
        replays.append(rp)
    # ---- output
    for o in matched:
        out('KNOWN-FINDING: property=%s %s %s at %s: %s' % (prop, o.rule, o.instance, o.where, o.detail))
    for o, rp in zip(fresh, replays):
        out('%s %s at %s: %s' % (o.rule, o.instance, o.where, o.detail))
        if o.witness is not None:
            out('    witness: %s' % (o.witness,))
        out('VIOLATION property=%s replay=%s' % (prop, rp))
    for b in broken:
        out('ANALYSIS-BROKEN property=%s %s' % (prop, b))
    nh = sum(1 for o in ctx.obs if o.status == HOLDS)
    out('%s: %d obligations over %d functions: %d hold, %d violated (%d known), %d undecided'
        % (prop, len(ctx.obs), len(ctx.functions), nh, len(viol), len(matched),
           sum(1 for o in ctx.obs if o.status == UNDECIDED)))
    code = 1 if fresh else (2 if broken else 0)
    if write:
        write_evidence(ctx, t0, seed, viol, matched, fresh, broken)
    return code


def write_evidence(ctx, t0, seed, viol, matched, fresh, broken):
    obs = ctx.obs
    forms = set()
    for o in obs:
        forms.add(json.dumps([o.rule, o.instance, o.form], sort_keys=True, default=str))
    samples = []
    per_rule = {}
    for o in obs:
        per_rule.setdefault(o.rule, []).append(o)
    for rid in sorted(per_rule):
        for o in per_rule[rid][:2]:
            samples.append(o.as_dict())
    for o in viol:
        d = o.as_dict()
        if d not in samples:
            samples.append(d)
    ev = {
        'property_id': ctx.prop,
        'tier': ctx.tier,
        'seed': int(seed),
        'level': 'other',
        'coverage': {
            'explanation': 'Static analysis of /repo\'s current sources (clang 14 AST via the lpx extractor; no library '
                           'code is executed). Rules applied: ' + ' || '.join('%s: %s' % (r, t) for r, t in sorted(ctx.rules.items())),
            'obligations': len(obs),
            'discharged': sum(1 for o in obs if o.status == HOLDS),
            'evaluations': len(obs),
            'distinct_nontrivial': len(forms),
            'rule': 'one evaluation per rule instance found in the source; distinct = distinct (rule, instance, extracted form) '
                    'triples; every instance involves at least one construct of /repo',
            'samples': json.loads(json.dumps(samples, default=str)),
            'per_rule': {r: {'instances': len(v), 'holds': sum(1 for o in v if o.status == HOLDS),
                             'violated': sum(1 for o in v if o.status == VIOLATED),
                             'floor': ctx.floors.get(r)} for r, v in sorted(per_rule.items())},
            'translation_units': [os.path.basename(t['tu']) for t in ctx.prog.tus],
            'functions_analysed': sorted(ctx.functions),
            'functions_in_program': len(ctx.prog.functions),
            'known_findings_matched': [o.as_dict() for o in matched],
            'new_violations': [o.as_dict() for o in fresh],
            'analysis_broken': broken,
            'notes': ctx.notes,
            'exhaustive': False,
        },
        'assumptions': ['real arithmetic: formulas are compared as identities over the reals, rounding is not modelled',
                        'clang 14\'s reading of the sources equals g++\'s for this code base',
                        'the paper lemmas of DESIGN.md section 3 connect each structural rule to its behavioural clause',
                        'in-bounds assumption inside the term normaliser (subscript safety is decided by the guard rules of C10)'] + ctx.assumptions,
        'wall_s': round(time.time() - t0, 3),
        'violations': len(fresh),
    }
    os.makedirs(os.path.join(VERIF, 'evidence'), exist_ok=True)
    json.dump(ev, open(os.path.join(VERIF, 'evidence', ctx.prop + '.json'), 'w'), indent=1, default=str)

"""lpx-IR loading and tree utilities (no analysis here)."""
import json, os, subprocess, tempfile, shutil, re, sys
from concurrent.futures import ThreadPoolExecutor

HERE = os.path.dirname(os.path.abspath(__file__))
VERIF = os.path.dirname(HERE)
LPX = os.path.join(VERIF, 'lpx', 'lpx')

TUS = ['Integration.cpp', 'Linear_Algebra.cpp', 'Natural_Units.cpp', 'Numerics.cpp',
       'Special_Functions.cpp', 'Statistics.cpp', 'Utilities.cpp']


class AnalysisBroken(Exception):
    """The analysis cannot be carried out (missing anchor, extraction failure, ...)."""


class Undecided(Exception):
    """A construct is outside the fragment a rule understands."""


# ----------------------------------------------------------------------------- extraction

def make_generated(root, scratch):
    gen = os.path.join(scratch, 'gen')
    os.makedirs(gen, exist_ok=True)
    src = os.path.join(root, 'include', 'version.hpp.in')
    if not os.path.exists(src):
        raise AnalysisBroken('include/version.hpp.in not found under ' + root)
    txt = open(src).read()
    txt = re.sub(r'@[A-Za-z_]+@', 'x', txt)
    open(os.path.join(gen, 'version.hpp'), 'w').write(txt)
    return gen


def resource_dir():
    return subprocess.run(['clang++', '-print-resource-dir'], capture_output=True, text=True).stdout.strip()


def compile_flags(root, gen, std='c++14'):
    return ['-std=' + std, '-I' + os.path.join(root, 'include'), '-I' + gen, '-I' + os.path.join(root, 'src'),
            '-UNDEBUG', '-O0', '-w', '-resource-dir', resource_dir()]


def extract(root='/repo', std='c++14', scratch=None, extra_tus=()):
    """Run lpx on all TUs of `root` (in parallel); returns (Program, scratch_dir_used)."""
    own = scratch is None
    if own:
        scratch = tempfile.mkdtemp(prefix='lpv-', dir=os.environ.get('TMPDIR', '/var/tmp'))
    try:
        if not os.path.exists(LPX):
            raise AnalysisBroken('extractor %s not built (run MANIFEST.setup_cmd)' % LPX)
        gen = make_generated(root, scratch)
        flags = compile_flags(root, gen, std)
        srcs = [os.path.join(root, 'src', t) for t in TUS]
        for s in srcs:
            if not os.path.exists(s):
                raise AnalysisBroken('translation unit missing: ' + s)
        # every other .cpp under src is analysed too (the build globs none, but be complete)
        for f in sorted(os.listdir(os.path.join(root, 'src'))):
            p = os.path.join(root, 'src', f)
            if f.endswith('.cpp') and p not in srcs:
                srcs.append(p)
        srcs += [os.path.join(VERIF, 'lpx', t) for t in ('inst_templates.cpp',)] + list(extra_tus)

        def one(src):
            out = os.path.join(scratch, os.path.basename(src) + '.json')
            r = subprocess.run([LPX, '--root=' + root, '--out=' + out, src, '--'] + flags,
                               capture_output=True, text=True)
            if r.returncode != 0 or not os.path.exists(out):
                raise AnalysisBroken('lpx failed on %s:\n%s' % (src, r.stderr[-2000:]))
            d = json.load(open(out))
            if d.get('errors'):
                raise AnalysisBroken('clang reported %d errors in %s:\n%s' % (d['errors'], src, r.stderr[-2000:]))
            return d
        with ThreadPoolExecutor(max_workers=16) as ex:
            tus = list(ex.map(one, srcs))
        prog = Program(tus, root)
        from . import normalise
        prog.unbraced = normalise.unbrace_scalars(prog)
        prog.inlined = normalise.inline_local_helpers(prog)
        prog.range_loops = normalise.canonical_range_for(prog)
        prog.iterator_loops = normalise.canonical_iterator_for(prog)
        prog.aliases = normalise.resolve_reference_aliases(prog)
        prog.continues = normalise.canonical_continue(prog)
        prog.returns_canon = normalise.canonical_returns(prog)
        prog.any_of_loops = normalise.any_of_guards(prog)
        pn = os.path.join(os.path.dirname(os.path.abspath(__file__)), 'param_names.json')
        prog.renamed_params = normalise.canonical_param_names(prog, json.load(open(pn))) if os.path.exists(pn) else 0
        return prog
    finally:
        if own:
            shutil.rmtree(scratch, ignore_errors=True)


# ----------------------------------------------------------------------------- program model

class Function:
    def __init__(self, d, tu):
        self.d = d
        self.tu = tu
        self.q = d['q']
        self.name = d['name']
        self.sig = d['sig']
        self.file = d['file']
        self.line = d['l']
        self.cls = d.get('cls')
        self.params = d['params']
        self.body = d['body']
        self.ret = d.get('ret')
        self.is_pattern = d.get('pattern', False)
        self.is_inst = d.get('inst', False)
        self.is_lambda = d.get('lambda', False)
        self.inits = d.get('inits', [])

    @property
    def where(self):
        return '%s:%d' % (self.file, self.line)

    def __repr__(self):
        return '<Function %s>' % self.sig


class Program:
    def __init__(self, tus, root):
        self.root = root
        self.tus = tus
        self.functions = {}      # sig -> Function (first definition wins; header inlines deduplicated)
        self.by_q = {}
        self.classes = {}
        self.globals = []        # in (tu, textual) order
        self.goto = any(t.get('goto') for t in tus)
        for t in tus:
            for f in t['functions']:
                fn = Function(f, t['tu'])
                if fn.is_pattern:
                    key = 'pattern:' + fn.sig
                else:
                    key = fn.sig
                if key in self.functions:
                    continue
                self.functions[key] = fn
                self.by_q.setdefault(fn.q, []).append(fn)
            for c in t['classes']:
                self.classes.setdefault(c['q'], c)
            seen = set((g['q'], g['file'], g['l']) for g in self.globals)
            for g in t['globals']:
                if (g['q'], g['file'], g['l']) not in seen:
                    g = dict(g)
                    g['tu'] = t['tu']
                    self.globals.append(g)

    # lookups ---------------------------------------------------------------
    def fn(self, q, nparams=None, pred=None, allow_pattern=False):
        """The unique function with qualified name q (optionally filtered)."""
        c = [f for f in self.by_q.get(q, []) if allow_pattern or not f.is_pattern]
        if nparams is not None:
            c = [f for f in c if len(f.params) == nparams]
        if pred:
            c = [f for f in c if pred(f)]
        if len(c) != 1:
            raise AnalysisBroken('anchor %s%s: expected exactly one definition, found %d'
                                 % (q, '' if nparams is None else '/%d' % nparams, len(c)))
        return c[0]

    def fns(self, q):
        return [f for f in self.by_q.get(q, []) if not f.is_pattern]

    def by_sig(self, sig):
        return self.functions.get(sig)

    def all_functions(self, include_patterns=False, include_folded=True):
        return [f for k, f in self.functions.items() if (include_patterns or not f.is_pattern) and (include_folded or not f.d.get('folded'))]

    def repo_functions(self):
        """Functions whose definition lives under root (not the verif instantiation TU); file-local helpers that were
        folded into all their callers are not listed (their code is analysed where it is used)."""
        return [f for f in self.all_functions(include_folded=False) if f.file.startswith(self.root)]

    def rel(self, path):
        return os.path.relpath(path, self.root) if path.startswith(self.root) else path


# ----------------------------------------------------------------------------- tree walking

EXPR_CHILD_KEYS = ('e', 'lhs', 'rhs', 'c', 'a', 'b', 'base', 'idx', 'obj', 'fn')


def expr_children(e):
    if not isinstance(e, dict):
        return
    k = e.get('k')
    if k == 'Lambda':
        return
    if k == 'Cond':
        for key in ('c', 'a', 'b'):
            if isinstance(e.get(key), dict):
                yield e[key]
        return
    for key in ('e', 'lhs', 'rhs', 'base', 'idx', 'obj'):
        v = e.get(key)
        if isinstance(v, dict):
            yield v
    if k == 'Call' and isinstance(e.get('fn'), dict):
        yield e['fn']
    for key in ('args', 'elems', 'sub'):
        v = e.get(key)
        if isinstance(v, list):
            for x in v:
                if isinstance(x, dict):
                    yield x


def walk_expr(e, into_lambdas=False):
    """Pre-order over all sub-expressions of e."""
    if not isinstance(e, dict):
        return
    yield e
    if e.get('k') == 'Lambda':
        if into_lambdas:
            for s in walk_stmts(e['fn']['body'], into_lambdas=True):
                for x in stmt_exprs(s):
                    yield from walk_expr(x, True)
        return
    for c in expr_children(e):
        yield from walk_expr(c, into_lambdas)


def stmt_children(s):
    if not isinstance(s, dict):
        return
    k = s['k']
    if k == 'Compound':
        yield from s['body']
    elif k == 'If':
        if s.get('then'):
            yield s['then']
        if s.get('else'):
            yield s['else']
    elif k in ('For',):
        if s.get('init'):
            yield s['init']
        if s.get('body'):
            yield s['body']
    elif k in ('While', 'Do', 'RangeFor', 'Switch'):
        if s.get('body'):
            yield s['body']
    elif k in ('Case', 'Default'):
        if s.get('sub'):
            yield s['sub']
    elif k == 'Try':
        yield s['body']
        yield from s.get('handlers', [])


def walk_stmts(s, into_lambdas=False):
    if not isinstance(s, dict):
        return
    yield s
    for c in stmt_children(s):
        yield from walk_stmts(c, into_lambdas)


def stmt_exprs(s):
    """Expressions directly attached to statement s (not to its sub-statements)."""
    k = s['k']
    if k == 'Decl':
        for d in s['decls']:
            if d.get('init'):
                yield d['init']
    elif k == 'If':
        yield s['cond']
    elif k == 'For':
        if s.get('cond'):
            yield s['cond']
        if s.get('inc'):
            yield s['inc']
    elif k in ('While', 'Do', 'Switch'):
        yield s['cond']
    elif k == 'RangeFor':
        yield s['range']
    elif k == 'Return':
        if s.get('e'):
            yield s['e']
    elif k == 'Expr':
        yield s['e']
    elif k == 'Case':
        if s.get('val'):
            yield s['val']


def all_exprs(fn_or_body, into_lambdas=True):
    """Every expression node in a function body (pre-order), optionally into lambdas."""
    body = fn_or_body.body if isinstance(fn_or_body, Function) else fn_or_body
    for s in walk_stmts(body):
        for e in stmt_exprs(s):
            yield from walk_expr(e, into_lambdas)


def ctor_init_exprs(fn):
    for i in fn.inits:
        if i.get('init'):
            yield from walk_expr(i['init'], True)


def strip(e):
    """Remove value-preserving wrappers (casts are kept unless `Copy`/`DefaultArg`)."""
    while isinstance(e, dict) and e.get('k') in ('Copy', 'DefaultArg'):
        e = e['e']
    return e


def strip_casts(e):
    while isinstance(e, dict) and e.get('k') in ('Copy', 'DefaultArg', 'Cast'):
        e = e['e']
    return e


def is_call_to(e, q):
    e = strip(e)
    return isinstance(e, dict) and e.get('k') == 'Call' and (e.get('callee') or {}).get('q') == q


def callee_q(e):
    return (e.get('callee') or {}).get('q') if isinstance(e, dict) and e.get('k') == 'Call' else None


def calls(fn_or_body, into_lambdas=True):
    for e in all_exprs(fn_or_body, into_lambdas):
        if e.get('k') == 'Call':
            yield e
    if isinstance(fn_or_body, Function):
        for e in ctor_init_exprs(fn_or_body):
            if e.get('k') == 'Call':
                yield e


def constructs(fn_or_body, into_lambdas=True):
    for e in all_exprs(fn_or_body, into_lambdas):
        if e.get('k') == 'Construct':
            yield e
    if isinstance(fn_or_body, Function):
        for e in ctor_init_exprs(fn_or_body):
            if e.get('k') == 'Construct':
                yield e


def exchanges(body):
    """Exchange idioms anywhere under statement/function `body`: yields (a, b, anchor, stmts) with a, b the two
    exchanged lvalue expressions, anchor the node to locate the exchange by (the std::swap call or the first of the
    three statements) and stmts the statements making it up.  Recognised: std::swap(a, b), std::iter_swap-free
    three-assignment form  T t = a; a = b; b = t;  (t a fresh local or an earlier declared local)."""
    root = body.body if isinstance(body, Function) else body
    for st in walk_stmts(root):
        for e in stmt_exprs(st):
            for n in walk_expr(e, into_lambdas=False):
                if n.get('k') == 'Call' and (n.get('callee') or {}).get('q') == 'std::swap' and len(n.get('args', [])) == 2:
                    yield strip_casts(n['args'][0]), strip_casts(n['args'][1]), n, [st]
        if st['k'] != 'Compound':
            continue
        seq = st['body']
        for i in range(len(seq) - 2):
            s0, s1, s2 = seq[i], seq[i + 1], seq[i + 2]
            tname = tval = None
            if s0['k'] == 'Decl' and len(s0['decls']) == 1 and s0['decls'][0].get('init') is not None:
                tname, tval = s0['decls'][0]['name'], _unwrap_copy(s0['decls'][0]['init'])
            elif s0['k'] == 'Expr' and strip(s0['e']).get('k') == 'Bin' and strip(s0['e'])['op'] == '=' and strip(strip(s0['e'])['lhs']).get('k') == 'Ref':
                tname, tval = strip(strip(s0['e'])['lhs'])['name'], _unwrap_copy(strip(s0['e'])['rhs'])
            if tname is None or s1['k'] != 'Expr' or s2['k'] != 'Expr':
                continue
            e1, e2 = strip(s1['e']), strip(s2['e'])
            if not (e1.get('k') in ('Bin', 'Call') and e2.get('k') in ('Bin', 'Call')):
                continue
            a1 = _assign_parts(e1)
            a2 = _assign_parts(e2)
            if a1 is None or a2 is None:
                continue
            x, y, t = show(tval), show(a1[1]), show(a2[1])
            if show(a1[0]) == x and show(a2[0]) == y and t == tname and x != y:
                yield strip_casts(a1[0]), strip_casts(a2[0]), s0, [s0, s1, s2]


def _unwrap_copy(e):
    e = strip_casts(e)
    while e.get('k') == 'Construct' and len([a for a in e.get('args', []) if a.get('k') != 'DefaultArg']) == 1:
        e = strip_casts(e['args'][0])
    return e


def _assign_parts(e):
    """(lhs, rhs) of an assignment written with the builtin `=` or an overloaded operator=."""
    if e.get('k') == 'Bin' and e.get('op') == '=':
        return strip_casts(e['lhs']), _unwrap_copy(e['rhs'])
    if e.get('k') == 'Call' and e.get('kind') == 'op' and e.get('op') == '=' and len(e.get('args', [])) == 2:
        return strip_casts(e['args'][0]), _unwrap_copy(e['args'][1])
    if e.get('k') == 'Call' and e.get('kind') == 'op' and e.get('op') == '=' and e.get('obj') is not None and len(e.get('args', [])) == 1:
        return strip_casts(e['obj']), _unwrap_copy(e['args'][0])
    return None


def loop_container(s):
    """For a loop that visits every element of a container in order - a (canonicalised) range-based for or a counted
    `for(i = 0; i < X.size(); i++)` - returns (container expression X, index variable name); else None."""
    if s.get('k') != 'For' or s.get('init') is None or s.get('cond') is None or s.get('inc') is None:
        return None
    if s['init'].get('k') != 'Decl' or len(s['init']['decls']) != 1:
        return None
    d = s['init']['decls'][0]
    i0 = strip_casts(d.get('init') or {})
    if i0.get('k') != 'Lit' or i0.get('v') not in ('0', '0u', '0U', '0ul', '0UL'):
        return None
    c = strip(s['cond'])
    if c.get('k') != 'Bin' or c.get('op') not in ('<', '!='):
        return None
    l, r = strip_casts(c['lhs']), strip_casts(c['rhs'])
    if l.get('id') != d['id'] or r.get('k') != 'Call' or r.get('kind') != 'method' or (r.get('callee') or {}).get('name') != 'size':
        return None
    inc = strip(s['inc'])
    unit = (inc.get('k') == 'Un' and inc.get('op') == '++' and strip(inc['e']).get('id') == d['id']) or \
           (inc.get('k') == 'Bin' and inc.get('op') == '+=' and strip(inc['lhs']).get('id') == d['id'] and strip_casts(inc['rhs']).get('v') == '1')
    if not unit:
        return None
    return strip_casts(r['obj']), d['name']


def local_decls(fn):
    for s in walk_stmts(fn.body):
        if s['k'] == 'Decl':
            for d in s['decls']:
                yield d
        if s['k'] == 'RangeFor':
            yield s['var']
    # lambdas
    for e in all_exprs(fn, into_lambdas=False):
        if e.get('k') == 'Lambda':
            for s in walk_stmts(e['fn']['body']):
                if s['k'] == 'Decl':
                    for d in s['decls']:
                        yield d


# ----------------------------------------------------------------------------- rendering

PREC = {',': 1, '=': 2, '+=': 2, '-=': 2, '*=': 2, '/=': 2, '%=': 2, '||': 4, '&&': 5, '|': 6, '^': 7, '&': 8,
        '==': 9, '!=': 9, '<': 10, '>': 10, '<=': 10, '>=': 10, '<<': 11, '>>': 11, '+': 12, '-': 12,
        '*': 13, '/': 13, '%': 13}


def show(e, p=0):
    if e is None:
        return ''
    k = e.get('k')
    if k == 'Lit':
        if e['lk'] == 'str':
            return json.dumps(e['v'][:40])
        return e.get('macro') or e['v']
    if k == 'Ref':
        return e['name']
    if k == 'This':
        return 'this'
    if k == 'Member':
        b = e['base']
        if b and b.get('k') == 'This':
            return e['name']
        return show(b, 15) + '.' + e['name']
    if k == 'Un':
        if e.get('post'):
            return show(e['e'], 14) + e['op']
        return e['op'] + show(e['e'], 14)
    if k == 'Bin':
        q = PREC.get(e['op'], 3)
        s = '%s %s %s' % (show(e['lhs'], q), e['op'], show(e['rhs'], q + 1))
        return '(' + s + ')' if q < p else s
    if k == 'Cond':
        s = '%s ? %s : %s' % (show(e['c'], 4), show(e['a'], 3), show(e['b'], 3))
        return '(' + s + ')' if p > 3 else s
    if k == 'Index':
        return '%s[%s]' % (show(e['base'], 15), show(e['idx']))
    if k == 'Cast':
        if e.get('explicit'):
            return '(%s)%s' % (e['ty'], show(e['e'], 14))
        return show(e['e'], p)
    if k in ('Copy', 'DefaultArg'):
        return show(e['e'], p)
    if k == 'Call':
        args = ', '.join(show(a) for a in e.get('args', []))
        kind = e.get('kind')
        if kind in ('stdfn', 'lambda', 'functor', 'indirect'):
            return '%s(%s)' % (show(e.get('fn'), 15), args)
        c = e.get('callee') or {}
        if kind == 'method':
            return '%s.%s(%s)' % (show(e['obj'], 15), c.get('name', '?'), args)
        if kind == 'op':
            a = e.get('args', [])
            if len(a) == 2:
                return '(%s %s %s)' % (show(a[0], 12), e['op'], show(a[1], 12))
            return '%s(%s)' % (e['op'], args)
        return '%s(%s)' % (c.get('name', '?'), args)
    if k == 'Construct':
        return '%s(%s)' % (e['q'].split('::')[-1], ', '.join(show(a) for a in e['args']))
    if k == 'InitList':
        return '{' + ', '.join(show(a) for a in e['elems']) + '}'
    if k == 'Lambda':
        return '[lambda@%s]' % e['fn'].get('l')
    if k == 'UDL':
        return show(e['e']) + e['suffix']
    if k == 'Unresolved':
        return e['name']
    return '<%s>' % k

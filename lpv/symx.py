"""E1 symx: algebraic normal forms of lpx-IR expressions and straight-line/structured code.

This is a *term normaliser*, not an executor of library code and not a solver front end:
IR trees are rewritten into sympy terms over the function's inputs (reaching definitions
inlined, counted loops summarised as array comprehensions / sums), and two terms are compared
by cancel(together(expand(a-b))) == 0.  Anything outside the understood fragment raises
Undecided.
"""
import sympy as sp
from sympy import Symbol, Function, Rational, Integer, Piecewise, S
from .ir import Undecided, show, strip, strip_casts, walk_expr, walk_stmts, stmt_exprs

INT_TYPES = {'int', 'unsigned int', 'long', 'unsigned long', 'short', 'unsigned short', 'char', 'unsigned char',
             'long long', 'unsigned long long', 'bool', 'signed char'}
UNSIGNED = {'unsigned int', 'unsigned long', 'unsigned short', 'unsigned char', 'unsigned long long'}
FLOAT_TYPES = {'double', 'float', 'long double'}

IntDiv = Function('IntDiv')
Sign2 = Function('Sign2', real=True)
MAXPATHS = 400


def is_int_ty(t):
    return t in INT_TYPES


# When set, a loop comprehension only defines the elements its loop actually wrote (its index range is part of the
# definition's guard).  Off by default: most rules read arrays at indices known to lie in the written range and the
# range conditions make the terms explode; rules that evaluate a summary on a whole domain switch it on.
STRICT_RANGES = False


class strict_ranges:
    def __enter__(self):
        global STRICT_RANGES
        self.old = STRICT_RANGES
        STRICT_RANGES = True

    def __exit__(self, *a):
        global STRICT_RANGES
        STRICT_RANGES = self.old


class Arr:
    """Symbolic array: ordered list of definitions (kvar, guard, term); later ones win."""

    def __init__(self, name, dims=1):
        self.name = name
        self.defs = []
        self.length = None
        self.base = None      # fallback applied-undef name
        self.opaque = False
        self.entry_from = None   # inside a loop body: defs[:entry_from] are pre-loop; reads of them yield placeholders
        self.ranges = {}         # position in defs -> index-range condition of a loop comprehension (kvs-based)

    def copy(self):
        a = Arr(self.name)
        a.defs = list(self.defs)
        a.length = self.length
        a.base = self.base
        a.opaque = self.opaque
        a.entry_from = self.entry_from
        a.ranges = dict(self.ranges)
        if hasattr(self, 'dims'):
            a.dims = self.dims
        return a

    def entry_func(self):
        return Function('@entry:' + str(self.name), real=True)

    def fallback(self, idx):
        return Function(self.base or self.name, real=True)(*idx)

    def read(self, idx):
        """idx: tuple of sympy index terms."""
        if self.opaque:
            return self.fallback(idx)
        pieces = []
        ndef = len(self.defs)
        for pos, (kv, guard, term) in zip(range(ndef - 1, -1, -1), reversed(self.defs)):
            if self.entry_from is not None and pos < self.entry_from:
                pieces.append((self.entry_func()(*idx), True))
                break
            if len(kv) > len(idx):
                continue
            sub = dict(zip(kv, idx))
            g = guard.subs(sub) if guard is not None else S.true
            g = simplify_bool(g)
            if (len(self.ranges) >= 2 or STRICT_RANGES) and pos in self.ranges:
                # several comprehensions may cover disjoint index ranges of this array: the range matters
                g = sp.And(g, self.ranges[pos].subs(sub))
            rest = idx[len(kv):]
            t = term.subs(sub)
            if rest:
                t = index_into(t, rest)
            if g == S.true:
                pieces.append((t, True))
                break
            if g == S.false:
                continue
            pieces.append((t, g))
        else:
            if self.entry_from is not None:
                pieces.append((self.entry_func()(*idx), True))
            else:
                pieces.append((self.fallback(idx), True))
        if len(pieces) == 1:
            return pieces[0][0]
        return Piecewise(*pieces)


def known_disequalities(conds):
    out = set()

    def add(c):
        if isinstance(c, sp.And):
            for a in c.args:
                add(a)
        elif isinstance(c, sp.Ne):
            out.add(frozenset((c.lhs, c.rhs)))
        elif isinstance(c, sp.Not) and isinstance(c.args[0], sp.Equality):
            out.add(frozenset((c.args[0].lhs, c.args[0].rhs)))
    for c in conds:
        add(c)
    return out


def contradictory(conds):
    """True only when two of the conditions are linear order relations that cannot hold together: e > 0 (or >= 0) and
    f > 0 (or >= 0) with e + f a constant that excludes it.  Conjunctions are opened; anything else is ignored."""
    rel = []

    def add(c):
        if isinstance(c, sp.And):
            for a in c.args:
                add(a)
        elif isinstance(c, (sp.Gt, sp.Ge, sp.Lt, sp.Le)):
            e = sp.expand(c.lhs - c.rhs)
            if isinstance(c, (sp.Lt, sp.Le)):
                e = -e
            rel.append((e, isinstance(c, (sp.Gt, sp.Lt))))
        elif isinstance(c, sp.Not) and isinstance(c.args[0], (sp.Gt, sp.Ge, sp.Lt, sp.Le)):
            add(c.args[0].negated)
        elif c in (S.false, False):
            rel.append((Integer(-1), True))
    for c in conds:
        add(c)
    for (e, strict) in rel:
        if e.is_number and (e < 0 or (strict and e == 0)):
            return True
    for a in range(len(rel)):
        for b in range(a + 1, len(rel)):
            tot = sp.expand(rel[a][0] + rel[b][0])
            if tot.is_number and (tot < 0 or (tot == 0 and (rel[a][1] or rel[b][1]))):
                return True
    return False


def index_into(t, rest):
    """Index further into a term that denotes an array value (applied undef)."""
    if isinstance(t, sp.core.function.AppliedUndef):
        return t.func(*(tuple(t.args) + tuple(rest)))
    if isinstance(t, Symbol):
        return Function(t.name, real=True)(*rest)
    raise Undecided('cannot index into term %s' % t)


def simplify_bool(g):
    if g in (True, False):
        return S.true if g else S.false
    return g


class LambdaVal:
    def __init__(self, node, env):
        self.node = node
        self.env = env


class State:
    def __init__(self, env=None, conds=None):
        self.env = env if env is not None else {}
        self.conds = conds if conds is not None else []
        self.effects = []     # list of (kind, info) side effects of interest (calls)

    def fork(self):
        s = State({k: (v.copy() if isinstance(v, Arr) else v) for k, v in self.env.items()}, list(self.conds))
        s.effects = list(self.effects)
        return s


class Outcome:
    def __init__(self, kind, value, state, node=None):
        self.kind = kind      # 'return' | 'exit' | 'end'
        self.value = value
        self.state = state
        self.node = node

    @property
    def cond(self):
        return sp.And(*self.state.conds) if self.state.conds else S.true


class Symx:
    def __init__(self, prog, fn=None, inline=(), opaque_arrays=(), inline_depth=3, real_ints=False):
        self.prog = prog
        self.fn = fn
        self.inline = set(inline)          # qualified names of in-repo functions to inline
        self.opaque_arrays = set(opaque_arrays)   # names of arrays to keep opaque
        self.inline_depth = inline_depth
        self.symcache = {}
        self.calls_seen = []
        self.depth = 0
        self.fresh = 0
        self.real_ints = real_ints

    def is_helper_sig(self, sig):
        f = self.prog.by_sig(sig) if sig else None
        return f is not None and bool(f.d.get('helper'))

    # ------------------------------------------------------------------ symbols
    def symbol(self, name, ty=None):
        kind = 'int' if (is_int_ty(ty) and not self.real_ints) else 'real'
        key = (name, kind)
        if key not in self.symcache:
            if kind == 'int':
                self.symcache[key] = Symbol(name, integer=True)
            else:
                self.symcache[key] = Symbol(name, real=True)
        return self.symcache[key]

    def fresh_symbol(self, base, ty=None):
        self.fresh += 1
        return self.symbol('%s#%d' % (base, self.fresh), ty)

    def lit(self, e):
        lk = e['lk']
        if lk == 'int' or lk == 'char':
            return Integer(int(e['v']))
        if lk == 'float':
            if e.get('macro') == 'M_PI':
                return sp.pi
            v = e['v']
            try:
                return Rational(v)
            except Exception:
                return Rational(e['val'])
        if lk == 'bool':
            return S.true if e['v'] == 'true' else S.false
        if lk in ('zero', 'null', 'sizeof'):
            return Integer(0)
        if lk == 'str':
            return Symbol('str:' + e['v'][:30])
        raise Undecided('literal kind ' + lk)

    # ------------------------------------------------------------------ lvalues
    def lv_key(self, e):
        """Key under which the value of lvalue e is stored in env, or None."""
        e = strip(e)
        k = e['k']
        if k == 'Ref':
            return e['id']
        if k == 'Member':
            b = strip(e['base'])
            if b['k'] == 'This':
                return 'this.' + e['name']
            bk = self.lv_key(b)
            if bk is not None:
                return '%s.%s' % (bk, e['name'])
        return None

    def lv_name(self, e):
        e = strip(e)
        k = e['k']
        if k == 'Ref':
            return e['name']
        if k == 'Member':
            b = strip(e['base'])
            if b['k'] == 'This':
                return 'this.' + e['name']
            return self.lv_name(b) + '.' + e['name']
        if k == 'Un' and e['op'] == '*':
            return self.lv_name(e['e'])
        if k == 'This':
            return 'this'
        if k == 'Index':
            return '%s[%s]' % (self.lv_name(e['base']), show(e['idx']))
        if k == 'Call':
            return show(e)
        return show(e)

    def is_array_ty(self, ty):
        return ty.startswith('std::vector<') or ty.endswith(']') or ty in ('libphysica::Vector', 'libphysica::Matrix') \
            or ty.startswith('std::array<')

    # ------------------------------------------------------------------ expressions
    def sym(self, e, st):
        """IR expression -> sympy term (numbers) in state st."""
        e = strip(e)
        if e is None:
            raise Undecided('missing expression')
        k = e['k']
        if k == 'Lit':
            return self.lit(e)
        if k == 'Cast':
            v = self.sym(e['e'], st)
            ck = e['ck']
            if ck == 'FloatingToIntegral':
                if v.is_integer:
                    return v
                return Function('trunc', integer=True)(v)
            if ck in ('IntegralToBoolean', 'FloatingToBoolean'):
                return sp.Ne(v, 0)
            return v
        if k == 'Member' and strip(e['base']).get('k') == 'Index' and not e.get('method'):
            idx = []
            b = e['base']
            while strip(b)['k'] == 'Index':
                b = strip(b)
                idx.insert(0, self.sym(b['idx'], st))
                b = b['base']
            return Function('%s.%s' % (self.lv_name(b), e['name']), real=True)(*idx)
        if k == 'Member' and strip(e['base']).get('k') == 'Ref' and not e.get('method'):
            # a field of a variable that stands for an element of a container (a lambda / loop parameter bound to X(i)):
            # the same term as X[i].field
            bk_ = self.lv_key(strip(e['base']))
            bv_ = st.env.get(bk_) if bk_ is not None else None
            if isinstance(bv_, sp.core.function.AppliedUndef) and not bv_.func.__name__.startswith(('F:', 'op', 'new:', 'm:', 'libphysica::', 'std::')) \
                    and self.lv_key(e) not in st.env:
                return Function('%s.%s' % (bv_.func.__name__, e['name']), real=True)(*bv_.args)
        if k == 'Ref' or k == 'Member':
            key = self.lv_key(e)
            if key is not None and key in st.env:
                v = st.env[key]
                if isinstance(v, Arr):
                    return Symbol('arr:' + v.name)
                if isinstance(v, LambdaVal):
                    return Symbol('lambda:' + self.lv_name(e))
                return v
            if k == 'Ref' and e.get('rk') == 'global':
                return self.global_value(e)
            return self.symbol(self.lv_name(e), e.get('ty'))
        if k == 'This':
            return Symbol('this')
        if k == 'Un':
            op = e['op']
            if op in ('++', '--'):
                old = self.sym(e['e'], st)
                new = old + (1 if op == '++' else -1)
                self.assign(e['e'], new, st)
                return old if e.get('post') else new
            v = self.sym(e['e'], st)
            if op == '-':
                return -v
            if op == '+':
                return v
            if op == '!':
                return sp.Not(self.as_bool(v))
            if op == '*':
                return v
            raise Undecided('unary ' + op)
        if k == 'Bin':
            return self.binop(e, st)
        if k == 'Cond':
            c = self.as_bool(self.sym(e['c'], st))
            a = self.sym_or_name(e['a'], st)
            b = self.sym_or_name(e['b'], st)
            if c == S.true:
                return a
            if c == S.false:
                return b
            if a.is_Boolean or b.is_Boolean:
                return sp.Or(sp.And(c, self.as_bool(a)), sp.And(sp.Not(c), self.as_bool(b)))
            if isinstance(c, (sp.Lt, sp.Le, sp.Gt, sp.Ge)) and not isinstance(a, (Arr, LambdaVal)) and not isinstance(b, (Arr, LambdaVal)):
                # (x < y ? x : y) is min(x, y), written as a conditional
                x_, y_ = c.args
                if (x_ == a and y_ == b) or (x_ == b and y_ == a):
                    picks_first = (x_ == a)
                    less = isinstance(c, (sp.Lt, sp.Le))
                    return sp.Min(a, b) if picks_first == less else sp.Max(a, b)
            return Piecewise((a, c), (b, True))
        if k == 'Index':
            return self.index(e, st)
        if k == 'Call':
            return self.call(e, st)
        if k == 'Construct':
            return self.construct(e, st)
        if k == 'InitList':
            return sp.Tuple(*[self.sym(x, st) for x in e['elems']])
        if k == 'Lambda':
            return Symbol('lambda@%s' % e['fn'].get('l'))
        if k == 'UDL':
            if e['suffix'] == 'i':
                return sp.I * self.sym(e['e'], st)
            raise Undecided('udl ' + e['suffix'])
        raise Undecided('expression kind %s at line %s' % (k, e.get('l')))

    def global_value(self, e):
        return self.symbol(e.get('q', e['name']), e.get('ty'))

    def as_bool(self, v):
        if v in (True, False):
            return S.true if v else S.false
        if getattr(v, 'is_Boolean', False) or isinstance(v, (sp.Rel, sp.logic.boolalg.BooleanFunction)):
            return v
        if isinstance(v, sp.logic.boolalg.BooleanAtom):
            return v
        return sp.Ne(v, 0)

    def binop(self, e, st):
        op = e['op']
        if op == '=':
            v = self.rvalue(e['rhs'], st)
            self.assign(e['lhs'], v, st)
            return v if not isinstance(v, (Arr, LambdaVal)) else Symbol('obj')
        if op in ('+=', '-=', '*=', '/=', '%='):
            old = self.sym(e['lhs'], st)
            r = self.sym(e['rhs'], st)
            v = self.arith(op[0], old, r, e['lhs'].get('ty'), e['rhs'].get('ty'), e)
            lt_, rt_ = str(strip(e['lhs']).get('ty', '')), str(strip_casts(e['rhs']).get('ty', ''))
            if any(t_ in lt_ for t_ in ('int', 'long', 'short', 'size_t')) and 'std::' not in lt_ and rt_ in ('double', 'float', 'long double') \
                    and isinstance(v, sp.Basic) and not v.is_integer:
                v = Function('trunc', integer=True)(v)      # the computation is done in floating point and stored back into an integer
            self.assign(e['lhs'], v, st)
            return v
        if op == ',':
            self.sym(e['lhs'], st)
            return self.sym(e['rhs'], st)
        if op == '&&':
            return sp.And(self.as_bool(self.sym(e['lhs'], st)), self.as_bool(self.sym(e['rhs'], st)))
        if op == '||':
            return sp.Or(self.as_bool(self.sym(e['lhs'], st)), self.as_bool(self.sym(e['rhs'], st)))
        l = self.sym(e['lhs'], st)
        r = self.sym(e['rhs'], st)
        if op in ('<', '>', '<=', '>=', '==', '!='):
            rel = {'<': sp.Lt, '>': sp.Gt, '<=': sp.Le, '>=': sp.Ge, '==': sp.Eq, '!=': sp.Ne}[op]
            if getattr(l, 'is_Boolean', False) or getattr(r, 'is_Boolean', False):
                l = self.as_bool(l)
                r = self.as_bool(r)
                return sp.Equivalent(l, r) if op == '==' else sp.Xor(l, r)
            try:
                return rel(l, r)
            except TypeError:
                return rel(Function('re')(l), Function('re')(r))
        return self.arith(op, l, r, strip(e['lhs']).get('ty'), strip(e['rhs']).get('ty'), e)

    def arith(self, op, l, r, lt, rt, e=None):
        # a truth value used as a number is 0 or 1
        truth = (sp.core.relational.Relational, sp.And, sp.Or, sp.Not, sp.logic.boolalg.BooleanTrue, sp.logic.boolalg.BooleanFalse)
        if isinstance(l, truth):
            l = Piecewise((Integer(1), l), (Integer(0), True))
        if isinstance(r, truth):
            r = Piecewise((Integer(1), r), (Integer(0), True))
        if op == '+':
            return l + r
        if op == '-':
            return l - r
        if op == '*':
            return l * r
        if op == '/':
            if is_int_ty(lt) and is_int_ty(rt) and not self.real_ints:
                q = l / r
                if q.is_integer:
                    return q
                return IntDiv(l, r)
            return l / r
        if op == '%':
            return sp.Mod(l, r)
        if op == '>>':
            return IntDiv(l, 2 ** r)
        if op == '<<':
            return l * 2 ** r
        raise Undecided('operator %s' % op)

    def index(self, e, st):
        idx = []
        b = e
        while True:
            b = strip(b)
            if b['k'] == 'Index':
                idx.insert(0, self.sym(b['idx'], st))
                b = b['base']
            else:
                break
        key = self.lv_key(b)
        if key is not None and isinstance(st.env.get(key), Arr):
            return st.env[key].read(tuple(idx))
        if b['k'] in ('Ref', 'Member'):
            name = self.lv_name(b)
            if key is not None and key in st.env and not isinstance(st.env[key], (Arr, LambdaVal)):
                return index_into(st.env[key], tuple(idx))
            return Function(name, real=True)(*idx)
        v = self.sym(b, st)
        return index_into(v, tuple(idx))

    # ------------------------------------------------------------------ calls
    MATH1 = {'sqrt': sp.sqrt, 'exp': sp.exp, 'log': sp.log, 'sin': sp.sin, 'cos': sp.cos, 'tan': sp.tan,
             'acos': sp.acos, 'asin': sp.asin, 'atan': sp.atan, 'erf': sp.erf, 'erfc': sp.erfc,
             'fabs': sp.Abs, 'abs': sp.Abs, 'floor': sp.floor, 'ceil': sp.ceiling, 'cosh': sp.cosh, 'sinh': sp.sinh,
             'tanh': sp.tanh, 'log10': lambda x: sp.log(x, 10)}

    def call(self, e, st):
        kind = e.get('kind')
        c = e.get('callee') or {}
        q = c.get('q', '')
        args = e.get('args', [])
        self.calls_seen.append(e)
        if kind in ('stdfn', 'indirect', 'functor'):
            fnv = strip(e['fn'])
            key = self.lv_key(fnv)
            if key is not None and isinstance(st.env.get(key), LambdaVal):
                return self.apply_lambda(st.env[key], args, st)
            name = self.lv_name(fnv)
            a = [self.sym(x, st) for x in args]
            return Function('F:' + name, real=True)(*a)
        if kind == 'lambda':
            fnv = strip(e['fn'])
            if fnv['k'] == 'Lambda':
                return self.apply_lambda(LambdaVal(fnv, st.env), args, st)
            key = self.lv_key(fnv)
            if key is not None and isinstance(st.env.get(key), LambdaVal):
                return self.apply_lambda(st.env[key], args, st)
            a = [self.sym(x, st) for x in args]
            return Function('F:' + self.lv_name(fnv), real=True)(*a)
        short = q.split('::')[-1]
        if q in ('std::numeric_limits<double>::epsilon', 'std::numeric_limits<float>::epsilon') and not args:
            # the spacing of the floating-point numbers at 1 (the same value a DBL_EPSILON literal gives)
            return sp.Float(2.220446049250313e-16 if 'double' in q else 1.1920929e-07)
        if q in ('std::' + short, short) or q.startswith('std::') and short in ('min', 'max', 'swap', 'isnan', 'isinf', 'pow', 'copysign', 'frexp', 'ldexp'):
            if short in self.MATH1 and len(args) == 1:
                return self.MATH1[short](self.sym(args[0], st))
            if short == 'ldexp' and len(args) == 2:
                return self.sym(args[0], st) * sp.Pow(2, self.sym(args[1], st))
            if short == 'frexp' and len(args) == 2 and strip(args[1]).get('k') == 'Un' and strip(args[1]).get('op') == '&':
                # x = m 2^e with 1/2 <= |m| < 1 (x != 0)
                xv = self.sym(args[0], st)
                ev = sp.floor(sp.log(sp.Abs(xv), 2)) + 1
                self.assign(strip(args[1])['e'], ev, st)
                return xv / sp.Pow(2, ev)
            if short == 'copysign' and len(args) == 2:
                return sp.Abs(self.sym(args[0], st)) * sp.sign(self.sym(args[1], st))
            if short == 'pow' and len(args) == 2:
                b = self.sym(args[0], st)
                x = self.sym(args[1], st)
                return sp.Pow(b, x)
            if short in ('min', 'max') and kind == 'func':
                f = sp.Min if short == 'min' else sp.Max
                if len(args) == 2:
                    return f(self.sym(args[0], st), self.sym(args[1], st))
                if len(args) == 1:
                    t = self.sym(args[0], st)
                    if isinstance(t, sp.Tuple):
                        return f(*t)
            if short in ('isnan', 'isinf') and len(args) == 1:
                return sp.Ne(Function(short)(self.sym(args[0], st)), 0)
            if short == 'swap' and len(args) == 2:
                a = self.rvalue(args[0], st)
                b = self.rvalue(args[1], st)
                self.assign(args[0], b, st)
                self.assign(args[1], a, st)
                return Integer(0)
            if short == 'exit':
                return Integer(0)
        if q in ('std::transform', 'std::copy', 'std::fill') and kind == 'func':
            r = self.std_writer(short, args, st)
            if r is not None:
                return r
        if q == 'std::copy_n' and kind == 'func' and len(args) == 3:
            # copy_n(first, n, out) = copy(first, first + n, out)
            last_ = {'k': 'Call', 'kind': 'op', 'op': '+', 'args': [args[0], args[1]], 'callee': {'q': 'iterator+'}, 'ty': strip(args[0]).get('ty'), 'l': e.get('l')}
            r = self.std_writer('copy', [args[0], last_, args[2]], st)
            if r is not None:
                return r
        if q == 'std::reverse' and kind == 'func' and len(args) == 2:
            # whole-container reversal: element k of the result is element len-1-k of the operand
            i0, i1 = self.iterator(args[0], st), self.iterator(args[1], st)
            io = self.iter_container(args[0], st)
            src = st.env.get(io[0]) if io is not None and io[0] is not None else None
            if i0 and i1 and i0[0] == i1[0] and isinstance(src, Arr) and src.length is not None and not src.opaque \
                    and i0[1] == 0 and sp.simplify(i1[1] - src.length) == 0:
                kv = sp.Dummy('k', integer=True)
                rev = Arr(src.name)
                rev.length = src.length
                rev.defs.append(((kv,), S.true, src.read((src.length - 1 - kv,))))
                rev.ranges[0] = sp.And(sp.Ge(kv, 0), sp.Lt(kv, src.length))
                st.env[io[0]] = rev
                return Integer(0)
        if not c.get('inrepo') and kind == 'func' and q.startswith('std::') and short not in self.STD_ITER_READERS:
            # an unmodelled standard algorithm: whatever container it can write through an iterator argument is unknown afterwards
            for a_ in args:
                io = self.iter_container(a_, st)
                if io is not None and io[0] is not None and not strip(io[1]).get('ty', '').startswith('const '):
                    st.env[io[0]] = Arr(self.lv_name(io[1]) + '@%s%d' % (short, e.get('l', 0)))
                    st.env[io[0]].opaque = False
        if short in ('min_element', 'max_element') and len(args) == 2:
            i0 = self.iterator(args[0], st)
            i1 = self.iterator(args[1], st)
            if i0 and i1 and i0[0] == i1[0]:
                cont = Symbol('arr:' + i0[0])
                lo_, hi_ = i0[1], i1[1]
                io_ = self.iter_container(args[0], st)
                if io_ is not None and strip(io_[1]).get('k') == 'Index':
                    # an element of a container of containers (a row): keep the row index as a term, not as text
                    idx_, b_ = [], io_[1]
                    while strip(b_).get('k') == 'Index':
                        b_ = strip(b_)
                        idx_.insert(0, self.sym(b_['idx'], st))
                        b_ = b_['base']
                    bn_ = self.lv_name(b_)
                    cont = Function('arr:' + bn_, real=True)(*idx_)
                    ln_ = Symbol('len(%s)' % i0[0], integer=True, nonnegative=True)
                    if isinstance(hi_, sp.Basic) and hi_.has(ln_):
                        hi_ = hi_.subs(ln_, Function('len:' + bn_, integer=True)(*idx_))
                return Function('ITER_' + ('MIN' if short == 'min_element' else 'MAX'))(cont, lo_, hi_)
        if short == 'inner_product' and len(args) == 4:
            i0, i1, j0 = self.iterator(args[0], st), self.iterator(args[1], st), self.iterator(args[2], st)
            if i0 and i1 and j0 and i0[0] == i1[0]:
                jv = Symbol('j_', integer=True)

                def elem_(it_, arg_, ix_):
                    io_ = self.iter_container(arg_, st)
                    src_ = st.env.get(io_[0]) if io_ is not None and io_[0] is not None else None
                    return src_.read((ix_,)) if isinstance(src_, Arr) else Function(it_[0], real=True)(ix_)
                return self.sym(args[3], st) + sp.Sum(elem_(i0, args[0], jv) * elem_(j0, args[2], jv - i0[1] + j0[1]), (jv, i0[1], i1[1] - 1))
        if short == 'accumulate' and len(args) == 4:
            # fold with a binary operation given as a lambda: op(acc, v) = acc + g(v)  ->  init + sum of g over the range
            i0 = self.iterator(args[0], st)
            i1 = self.iterator(args[1], st)
            f_ = strip(args[3])
            while f_.get('k') in ('Construct', 'Cast', 'Copy') and (f_.get('args') or f_.get('e')):
                f_ = strip(f_['args'][0]) if f_.get('k') == 'Construct' else strip(f_['e'])
            lv_ = LambdaVal(f_, st.env) if f_.get('k') == 'Lambda' else (st.env.get(self.lv_key(f_)) if f_.get('k') == 'Ref' else None)
            if i0 and i1 and i0[0] == i1[0] and isinstance(lv_, LambdaVal):
                jv = Symbol('j_', integer=True)
                io = self.iter_container(args[0], st)
                src = st.env.get(io[0]) if io is not None and io[0] is not None else None
                el = src.read((jv,)) if isinstance(src, Arr) else Function(i0[0], real=True)(jv)
                acc = Symbol('acc@fold', real=True)
                try:
                    r_ = self.apply_lambda(lv_, None, st, vals=[acc, el])
                    d_ = sp.expand(r_ - acc)
                    if isinstance(r_, sp.Basic) and not d_.has(acc):
                        return self.sym(args[2], st) + sp.Sum(r_ - acc if not (r_ - acc).has(acc) else d_, (jv, i0[1], i1[1] - 1))
                except Undecided:
                    pass
        if short == 'accumulate' and len(args) == 3:
            i0 = self.iterator(args[0], st)
            i1 = self.iterator(args[1], st)
            if i0 and i1 and i0[0] == i1[0]:
                # std::accumulate(first, last, init) = init + sum of the elements, the same term an explicit summation loop gives
                jv = Symbol('j_', integer=True)
                io = self.iter_container(args[0], st)
                src = st.env.get(io[0]) if io is not None and io[0] is not None else None
                el = src.read((jv,)) if isinstance(src, Arr) else Function(i0[0], real=True)(jv)
                return self.sym(args[2], st) + sp.Sum(el, (jv, i0[1], i1[1] - 1))
        if kind == 'method':
            return self.method_call(e, st)
        if kind == 'op':
            if e.get('op') == '*' and len(args) == 1:
                v = self.sym_or_name(args[0], st)
                if isinstance(v, sp.core.function.AppliedUndef) and v.func.__name__ in ('ITER_MIN', 'ITER_MAX'):
                    return Function(v.func.__name__[5:] + 'EL', real=True)(*v.args)
            return self.op_call(e, st)
        if q == 'libphysica::Sign':
            if len(args) == 1:
                return sp.sign(self.sym(args[0], st))
            return Sign2(self.sym(args[0], st), self.sym(args[1], st))
        if c.get('inrepo'):
            fn = self.prog.by_sig(c.get('sig'))
            if fn is not None and (q in self.inline or '*' in self.inline) and self.depth < self.inline_depth:
                return self.inline_call(fn, None, args, st)
            if fn is not None and fn.d.get('helper') and self.depth < self.inline_depth:
                # file-local helper (declared in no header): implementation detail of its caller
                snap = (dict(st.env), list(st.conds))
                try:
                    return self.inline_call(fn, None, args, st)
                except Undecided:
                    st.env.clear(); st.env.update(snap[0])
                    st.conds[:] = snap[1]
            a = [self.sym_or_name(x, st) for x in args]
            self.havoc_mutrefs(c, args, st)
            return Function(q, real=True)(*a)
        a = [self.sym_or_name(x, st) for x in args]
        self.havoc_mutrefs(c, args, st)
        return Function(q or 'call', real=True)(*a)

    STD_ITER_READERS = {'min_element', 'max_element', 'accumulate', 'is_sorted', 'upper_bound', 'lower_bound', 'find', 'find_if', 'distance',
                        'any_of', 'all_of', 'none_of', 'count', 'count_if', 'equal', 'begin', 'end', 'inner_product', 'binary_search',
                        'minmax_element', 'advance', 'next', 'prev', 'min', 'max', 'swap', 'move', 'forward', 'get', 'make_pair', 'abs', 'fabs',
                        'isnan', 'isinf', 'pow', 'exit'}

    def iter_container(self, e, st):
        """(env key, container expression) of the container an iterator expression points into, else None."""
        e = strip(e)
        while e.get('k') in ('Construct', 'Cast') and (e.get('args') or e.get('e')):
            e = strip(e['args'][0]) if e.get('k') == 'Construct' else strip(e['e'])
        if e.get('k') == 'Call' and e.get('kind') == 'method' and (e.get('callee') or {}).get('name') in ('begin', 'end'):
            ob = strip(e['obj'])
            key = self.lv_key(ob) if ob.get('k') in ('Ref', 'Member') else None
            return key, ob
        if e.get('k') == 'Call' and e.get('kind') == 'op' and e.get('op') in ('+', '-') and len(e.get('args', [])) == 2:
            return self.iter_container(e['args'][0], st)
        return None

    def std_writer(self, short, args, st):
        """std::transform(first,last,out,f) / std::copy(first,last,out) / std::fill(first,last,v) on containers that are
        plain lvalues: the destination gets a comprehension over the written index range.  None when not modelled."""
        def unw(a):
            a = strip(a)
            while a.get('k') in ('Construct',) and len([x for x in a.get('args', []) if x.get('k') != 'DefaultArg']) == 1:
                a = strip(a['args'][0])
            return a
        if short == 'fill':
            if len(args) != 3:
                return None
            dst_a, dst_b = self.iterator(unw(args[0]), st), self.iterator(unw(args[1]), st)
            io = self.iter_container(args[0], st)
            if not dst_a or not dst_b or dst_a[0] != dst_b[0] or io is None or io[0] is None:
                return None
            val = self.sym(args[2], st)
            lo, hi = dst_a[1], dst_b[1]
            term = lambda kv: val
        else:
            need = 4 if short == 'transform' else 3
            if len(args) != need:
                return None
            sa, sb, da = self.iterator(unw(args[0]), st), self.iterator(unw(args[1]), st), self.iterator(unw(args[2]), st)
            io = self.iter_container(args[2], st)
            so = self.iter_container(args[0], st)
            if not sa or not sb or not da or sa[0] != sb[0] or io is None or io[0] is None or so is None:
                return None
            src = st.env.get(so[0]) if so[0] is not None else None
            sname = sa[0]
            row_idx, row_base = [], None
            if strip(so[1]).get('k') == 'Index':
                # the source is an element of a container of containers (a row): keep the row index as a term
                b_ = so[1]
                while strip(b_).get('k') == 'Index':
                    b_ = strip(b_)
                    row_idx.insert(0, self.sym(b_['idx'], st))
                    b_ = b_['base']
                row_base = b_

            def rd(ix):
                if isinstance(src, Arr):
                    return src.read((ix,))
                if row_base is not None:
                    bk_ = self.lv_key(row_base) if strip(row_base).get('k') in ('Ref', 'Member') else None
                    if bk_ is not None and isinstance(st.env.get(bk_), Arr):
                        return st.env[bk_].read(tuple(row_idx) + (ix,))
                    return Function(self.lv_name(row_base), real=True)(*(row_idx + [ix]))
                return Function(sname, real=True)(ix)
            lo, hi = da[1], da[1] + (sb[1] - sa[1])
            if short == 'copy':
                term = lambda kv: rd(kv - da[1] + sa[1])
            else:
                f = strip(args[3])
                while f.get('k') in ('Construct', 'Cast', 'Copy') and (f.get('args') or f.get('e')):
                    f = strip(f['args'][0]) if f.get('k') == 'Construct' else strip(f['e'])
                lv = None
                if f.get('k') == 'Lambda':
                    lv = LambdaVal(f, st.env)
                else:
                    key = self.lv_key(f) if f.get('k') == 'Ref' else None
                    if key is not None and isinstance(st.env.get(key), LambdaVal):
                        lv = st.env[key]
                if lv is None:
                    return None
                term = lambda kv: self.apply_lambda(lv, None, st, vals=[rd(kv - da[1] + sa[1])])
        key, ob = io
        arr = st.env.get(key)
        if not isinstance(arr, Arr):
            arr = Arr(self.lv_name(ob))
            st.env[key] = arr
        else:
            arr = arr.copy()
            st.env[key] = arr
        kv = sp.Dummy('k0', integer=True)
        arr.defs.append(((kv,), S.true, term(kv)))
        arr.ranges[len(arr.defs) - 1] = sp.And(sp.Ge(kv, lo), sp.Lt(kv, hi))
        return Integer(0)

    def iterator(self, e, st):
        """container iterator expression -> (container name, offset) for begin()+k / end()."""
        e = strip(e)
        if e.get('k') == 'Ref':
            key = self.lv_key(e)
            v = st.env.get(key) if key is not None else None
            if isinstance(v, tuple) and len(v) == 3 and v[0] == 'iter':
                return v[1], v[2]
            return None
        if e.get('k') == 'Call' and e.get('kind') == 'method' and e['callee']['name'] in ('begin', 'end', 'cbegin', 'cend'):
            name = self.lv_name(e['obj'])
            ob_ = strip(e['obj'])
            if ob_.get('k') == 'Member' and ob_.get('name') == 'components' and ob_.get('base') is not None and strip(ob_['base']).get('k') == 'Ref' \
                    and str(strip(ob_['base']).get('ty', '')).replace('const ', '') in ('libphysica::Vector', 'libphysica::Matrix'):
                name = self.lv_name(ob_['base'])     # the entries of a Vector/Matrix object are named like its subscript X[i]
                bk_ = self.lv_key(ob_['base'])
                bv_ = st.env.get(bk_) if bk_ is not None else None
                if isinstance(bv_, Symbol):          # a parameter of an inlined callee bound to the caller's object
                    name = bv_.name[4:] if bv_.name.startswith(('obj:', 'arr:')) else bv_.name
            if e['callee']['name'] in ('begin', 'cbegin'):
                return name, Integer(0)
            key = self.lv_key(e['obj']) if strip(e['obj'])['k'] in ('Ref', 'Member') else None
            arr = st.env.get(key) if key is not None else None
            if isinstance(arr, Arr) and arr.length is not None:
                return name, arr.length
            return name, Symbol('len(%s)' % name, integer=True, nonnegative=True)
        if e.get('k') == 'Call' and e.get('kind') == 'op' and e.get('op') in ('+', '-') and len(e['args']) == 2:
            b = self.iterator(e['args'][0], st)
            if b:
                off = self.sym(e['args'][1], st)
                return b[0], b[1] + off if e['op'] == '+' else b[1] - off
        return None

    def sym_or_name(self, x, st):
        try:
            v = self.rvalue(x, st)
            if isinstance(v, Arr):
                return Symbol('arr:' + v.name)
            if isinstance(v, LambdaVal):
                return Symbol('lambda@%s' % v.node['fn'].get('l'))
            return v
        except Undecided:
            return Symbol('expr:' + show(x))

    def havoc_mutrefs(self, c, args, st):
        for i in c.get('mutrefs', []):
            if i < len(args):
                key = self.lv_key(args[i])
                if key is not None:
                    old = st.env.get(key)
                    if isinstance(old, Arr):
                        a = Arr(old.name + "'")
                        st.env[key] = a
                    else:
                        st.env[key] = self.fresh_symbol(self.lv_name(args[i]), strip(args[i]).get('ty'))

    def method_call(self, e, st):
        c = e['callee']
        name = c.get('name')
        obj = strip(e['obj'])
        args = e.get('args', [])
        cls = c.get('cls', '')
        key = self.lv_key(obj) if obj['k'] in ('Ref', 'Member') else None
        if cls.startswith('std::vector') or cls.startswith('std::'):
            arr = st.env.get(key) if key is not None else None
            if name == 'size' or name == 'length':
                if isinstance(arr, Arr) and arr.length is not None:
                    return arr.length
                return Symbol('len(%s)' % self.lv_name(obj), integer=True, nonnegative=True)
            if name == 'push_back' and len(args) == 1:
                v = self.rvalue(args[0], st)
                v = arr_as_tuple(v)
                if isinstance(v, (Arr, LambdaVal)):
                    v = Symbol('obj:' + show(args[0]))
                if not isinstance(arr, Arr):
                    arr = Arr(self.lv_name(obj))
                    arr.length = Symbol('len(%s)' % self.lv_name(obj), integer=True, nonnegative=True)
                    if key is not None:
                        st.env[key] = arr
                kv = sp.Dummy('k', integer=True)
                n = arr.length if arr.length is not None else Symbol('len(%s)' % arr.name, integer=True)
                arr.defs.append(((kv,), sp.Eq(kv, n), v))
                arr.length = n + 1
                return Integer(0)
            if name == 'clear':
                a = Arr(self.lv_name(obj))
                a.length = Integer(0)
                if key is not None:
                    st.env[key] = a
                return Integer(0)
            if name == 'back' and not args:
                if isinstance(arr, Arr) and arr.length is not None:
                    return arr.read((arr.length - 1,))
                n = Symbol('len(%s)' % self.lv_name(obj), integer=True, nonnegative=True)
                return Function(self.lv_name(obj), real=True)(n - 1)
            if name == 'empty':
                n = arr.length if isinstance(arr, Arr) and arr.length is not None else \
                    Symbol('len(%s)' % self.lv_name(obj), integer=True, nonnegative=True)
                return sp.Eq(n, 0)
            a = [self.sym_or_name(x, st) for x in args]
            if not c.get('const') and key is not None and name in ('resize', 'assign', 'erase', 'insert', 'pop_back'):
                st.env[key] = Arr(self.lv_name(obj) + "'")
                if name in ('resize', 'assign') and a and len(a) <= 2 and isinstance(a[0], sp.Basic) and 'iterator' not in str(strip(args[0]).get('ty', '')):
                    st.env[key].length = a[0]          # the container has exactly that many elements afterwards
            return Function('m:%s.%s' % (self.lv_name(obj), name), real=True)(*a)
        if c.get('inrepo'):
            fn = self.prog.by_sig(c.get('sig'))
            # trivial accessor: body is `return <this-field>;`
            if fn is not None:
                fld = accessor_field(fn)
                if fld is not None:
                    if obj['k'] == 'Index':
                        idx = []
                        b = obj
                        while strip(b)['k'] == 'Index':
                            b = strip(b)
                            idx.insert(0, self.sym(b['idx'], st))
                            b = b['base']
                        return Function('%s.%s' % (self.lv_name(b), fld), real=True)(*idx)
                    return self.symbol('%s.%s' % (self.lv_name(obj), fld), c.get('ret'))
            if fn is not None and (c['q'] in self.inline or '*' in self.inline) and self.depth < self.inline_depth:
                return self.inline_call(fn, obj, args, st)
            summ = getattr(self, 'method_summaries', None) or {}
            if c['q'] in summ:
                # caller-supplied summary of an in-repository method (justified by an obligation the caller inherits)
                return summ[c['q']](self, obj, key, args, st)
            a = [self.sym_or_name(x, st) for x in args]
            self.havoc_mutrefs(c, args, st)
            if not c.get('const') and key is not None:
                self.havoc_object(key, obj, st)
            objsym = Symbol('obj:' + self.lv_name(obj))
            if obj['k'] == 'Index':
                try:
                    ov = self.index(obj, st)
                    if isinstance(ov, sp.Basic):
                        objsym = ov
                except Undecided:
                    pass
            elif strip(obj)['k'] == 'Call':          # method of a temporary: the receiver is the term of the call that made it
                ov = self.sym_or_name(obj, st)
                if isinstance(ov, sp.Basic) and not (isinstance(ov, Symbol) and ov.name.startswith('expr:')):
                    objsym = ov
            return Function('%s' % c['q'], real=True)(objsym, *a)
        a = [self.sym_or_name(x, st) for x in args]
        return Function('m:%s.%s' % (self.lv_name(obj), name), real=True)(*a)

    def havoc_object(self, key, obj, st):
        pref = key + '.'
        for k2 in list(st.env.keys()):
            if isinstance(k2, str) and k2.startswith(pref):
                del st.env[k2]
        # an array-valued object (libphysica::Vector, a local copy of a parameter) is itself changed by a non-const method that is
        # not inlined: its elements afterwards are unknown, not the ones before the call
        cur = st.env.get(key)
        if isinstance(cur, Arr) or (isinstance(cur, Symbol) and not str(cur.name).startswith('obj:')):
            self._havoc_n = getattr(self, '_havoc_n', 0) + 1
            a = Arr("%s'%d" % (self.lv_name(obj), self._havoc_n))
            st.env[key] = a

    def op_call(self, e, st):
        c = e.get('callee') or {}
        op = e.get('op')
        args = e['args']
        if op == '<<':
            for a in args:
                self.sym_or_name(a, st)
            return Symbol('stream')
        a = [self.sym_or_name(x, st) for x in args]
        if c.get('q', '').startswith('std::operator') and 'complex' in c.get('sig', ''):
            if len(a) == 2 and op in ('+', '-', '*', '/'):
                return {'+': a[0] + a[1], '-': a[0] - a[1], '*': a[0] * a[1], '/': a[0] / a[1]}[op]
            if len(a) == 1 and op in ('+', '-'):
                return a[0] if op == '+' else -a[0]
        if c.get('inrepo') and (c['q'] in self.inline or '*' in self.inline):
            fn = self.prog.by_sig(c.get('sig'))
            if fn is not None and self.depth < self.inline_depth:
                if c.get('cls'):
                    return self.inline_call(fn, args[0], args[1:], st)
                return self.inline_call(fn, None, args, st)
        return Function('op%s:%s' % (op, c.get('q', '')), real=True)(*a)

    def construct(self, e, st):
        q = e['q']
        args = e['args']
        if q.startswith('std::vector'):
            if e.get('stdinit') or (e.get('list') and len(args) >= 1):
                t = [self.sym_or_name(x, st) for x in args]
                if len(t) == 1 and isinstance(t[0], sp.Tuple):
                    return t[0]
                return sp.Tuple(*t)
            return Function('vector', real=True)(*[self.sym_or_name(x, st) for x in args])
        if q == 'std::complex':
            real_args = [x for x in args if x.get('k') != 'DefaultArg']
            vals = [self.sym(x, st) for x in real_args]
            if len(vals) == 1:
                return vals[0]
            if len(vals) == 2:
                return vals[0] + sp.I * vals[1]
            if not vals:
                return Integer(0)
        return Function('new:' + q, real=True)(*[self.sym_or_name(x, st) for x in args])

    # ------------------------------------------------------------------ rvalues / assignment
    def rvalue(self, e, st):
        """Like sym but returns Arr / LambdaVal objects for array-valued / lambda expressions."""
        e0 = strip(e)
        k = e0['k']
        if k == 'Lambda':
            return LambdaVal(e0, st.env)
        if k in ('Ref', 'Member'):
            key = self.lv_key(e0)
            if key is not None and isinstance(st.env.get(key), (Arr, LambdaVal)):
                v = st.env[key]
                return v.copy() if isinstance(v, Arr) else v
        if k == 'Construct' and e0['q'].startswith('std::vector'):
            return self.vector_ctor(e0, st)
        if k == 'Construct' and e0['q'] in ('libphysica::Vector', 'libphysica::Matrix'):
            v = self.lp_ctor(e0, st)
            if v is not None:
                return v
        if k == 'Construct' and e0['q'] == 'std::function' and len(e0['args']) == 1:
            return self.rvalue(e0['args'][0], st)
        if k == 'InitList' and self.is_array_ty(e0.get('ty', '')):
            a = Arr('init')
            for i, x in enumerate(e0['elems']):
                kv = sp.Dummy('k', integer=True)
                a.defs.append(((kv,), sp.Eq(kv, i), self.sym(x, st)))
            a.length = Integer(len(e0['elems']))
            return a
        return self.sym(e0, st)

    def vector_ctor(self, e, st):
        args = [x for x in e['args'] if x.get('k') != 'DefaultArg']
        a = Arr('vec')
        if e.get('stdinit') or e.get('list'):
            elems = args
            if len(args) == 1 and strip(args[0])['k'] == 'InitList':
                elems = strip(args[0])['elems']
            for i, x in enumerate(elems):
                kv = sp.Dummy('k', integer=True)
                v = self.rvalue(x, st)
                if isinstance(v, Arr):
                    for kvs2, g2, t2 in v.defs:
                        a.defs.append(((kv,) + tuple(kvs2), sp.And(sp.Eq(kv, i), g2), t2))
                    continue
                if isinstance(v, LambdaVal):
                    v = Symbol('lambda')
                a.defs.append(((kv,), sp.Eq(kv, i), v))
            a.length = Integer(len(elems))
            return a
        real_args = [x for x in args if x.get('k') != 'DefaultArg']
        if len(real_args) == 0:
            a.length = Integer(0)
            return a
        n = self.sym(real_args[0], st)
        a.length = n
        fill = Integer(0)
        kv = sp.Dummy('k', integer=True)
        if len(real_args) >= 2:
            fv = self.rvalue(real_args[1], st)
            if isinstance(fv, Arr):
                for kvs, g, t in fv.defs:
                    a.defs.append(((kv,) + tuple(kvs), g, t))
                a.dims = (n, fv.length)
                return a
            if isinstance(fv, LambdaVal):
                fv = Symbol('lambda')
            fill = fv
        a.defs.append(((kv,), S.true, fill))
        return a

    def lp_ctor(self, e, st):
        """libphysica::Vector / Matrix constructors whose result is an array value we can describe."""
        args = [x for x in e['args'] if x.get('k') != 'DefaultArg']
        if len(args) == 1:
            v = self.rvalue(args[0], st)
            if isinstance(v, Arr) and strip(args[0]).get('ty', '').startswith('std::vector<std::vector<double') \
                    and e['q'] == 'libphysica::Matrix':
                return v
            if isinstance(v, Arr) and strip(args[0]).get('ty', '').startswith('std::vector<double') and e['q'] == 'libphysica::Vector':
                return v
            return None
        tys = [strip(x).get('ty') for x in args]
        if e['q'] == 'libphysica::Matrix' and len(args) in (2, 3) and all(is_int_ty(t) or t in FLOAT_TYPES for t in tys):
            a = Arr('mat')
            a.dims = (self.sym(args[0], st), self.sym(args[1], st))
            fill = self.sym(args[2], st) if len(args) == 3 else Integer(0)
            kv = (sp.Dummy('k0', integer=True), sp.Dummy('k1', integer=True))
            a.defs.append((kv, S.true, fill))
            return a
        if e['q'] == 'libphysica::Vector' and len(args) in (1, 2) and is_int_ty(tys[0]):
            a = Arr('vecobj')
            a.length = self.sym(args[0], st)
            fill = self.sym(args[1], st) if len(args) == 2 else Integer(0)
            a.defs.append(((sp.Dummy('k0', integer=True),), S.true, fill))
            return a
        return None

    def assign(self, lhs, v, st):
        lhs = strip(lhs)
        k = lhs['k']
        if k in ('Ref', 'Member'):
            key = self.lv_key(lhs)
            if key is None:
                raise Undecided('assignment target ' + show(lhs))
            if isinstance(v, Arr):
                v = v.copy()
                v.name = self.lv_name(lhs)
                if v.name in self.opaque_arrays:
                    v.opaque = True
            st.env[key] = v
            return
        if k == 'Index':
            idx = []
            b = lhs
            while True:
                b = strip(b)
                if b['k'] == 'Index':
                    idx.insert(0, self.sym(b['idx'], st))
                    b = b['base']
                else:
                    break
            key = self.lv_key(b)
            if key is None:
                raise Undecided('assignment target ' + show(lhs))
            arr = st.env.get(key)
            if not isinstance(arr, Arr):
                arr = Arr(self.lv_name(b))
                if arr.name in self.opaque_arrays:
                    arr.opaque = True
                st.env[key] = arr
            kvs = tuple(sp.Dummy('k%d' % i, integer=True) for i in range(len(idx)))
            guard = sp.And(*[sp.Eq(kv, ix) for kv, ix in zip(kvs, idx)])
            v = arr_as_tuple(v)
            if isinstance(v, (Arr, LambdaVal)):
                v = Symbol('obj')
            arr.defs.append((kvs, guard, v))
            return
        if k == 'Un' and lhs['op'] == '*':
            return self.assign(lhs['e'], v, st)
        raise Undecided('assignment target kind %s: %s' % (k, show(lhs)))

    # ------------------------------------------------------------------ inlining
    def apply_lambda(self, lv, args, st, vals=None):
        fn = lv.node['fn']
        sub = State(dict(st.env), list(st.conds))
        if vals is not None:
            for p, v_ in zip(fn['params'], vals):
                sub.env[p['id']] = v_
        else:
            for p, a in zip(fn['params'], args):
                sub.env[p['id']] = self.rvalue(a, st)
        self.depth += 1
        try:
            outs = self.exec_body(fn['body'], sub)
        finally:
            self.depth -= 1
        rets = [o for o in outs if o.kind == 'return']
        if len(outs) == 1 and len(rets) == 1:
            return rets[0].value
        if rets and len(rets) == len(outs):
            pieces = [(o.value, sp.And(*o.state.conds[len(st.conds):])) for o in rets]
            return Piecewise(*pieces)
        raise Undecided('lambda with non-return paths')

    def inline_call(self, fn, obj, args, st):
        """Inline an in-repo function; only single-outcome (or all-return) bodies."""
        if self.depth > 0 and contradictory(st.conds):
            return Symbol('unreachable')      # this path of the enclosing inlined call cannot be taken; it is dropped by that call
        sub = State({}, list(st.conds))
        # `this` fields of callee refer to obj
        for p, a in zip(fn.params, args):
            sub.env[p['id']] = self.rvalue(a, st)
        for p in fn.params[len(args):]:
            if p.get('default') is not None:
                sub.env[p['id']] = self.rvalue(p['default'], st)
        saved_fn = self.fn
        self.depth += 1
        if obj is not None:
            oname = self.lv_name(obj)
            okey = self.lv_key(obj) if strip(obj)['k'] in ('Ref', 'Member') else None
            # bind this.<field> to caller's obj.<field>
            pref = (okey + '.') if okey else None
            for k2, v in st.env.items():
                if pref and isinstance(k2, str) and k2.startswith(pref):
                    sub.env['this.' + k2[len(pref):]] = v
            sub.this_name = oname
        try:
            self.fn = fn
            old_this = getattr(self, 'this_prefix', None)
            self.this_prefix = self.lv_name(obj) if obj is not None else None
            outs = self.exec_body(fn.body, sub)
        finally:
            self.this_prefix = old_this if 'old_this' in dir() else None
            self.fn = saved_fn
            self.depth -= 1
        live = [o for o in outs if o.kind != 'exit']
        if len(live) > 1:
            # paths of the callee whose conditions contradict what is already known at the call site cannot be taken
            live = [o for o in live if not contradictory(o.state.conds)]
        # copy back by-ref params on single path only
        if len(live) == 1:
            o = live[0]
            for p, a in zip(fn.params, args):
                if p.get('byref') and not p.get('constref'):
                    if p['id'] in o.state.env:
                        try:
                            self.assign(a, o.state.env[p['id']], st)
                        except Undecided:
                            pass
            extra = o.state.conds[len(st.conds):]
            st.conds.extend(extra)
            return o.value if o.value is not None else Integer(0)
        if live and all(o.kind == 'return' for o in live):
            for p in fn.params:
                if p.get('byref') and not p.get('constref'):
                    raise Undecided('multi-path inline with out-params: ' + fn.q)
            if any(not isinstance(o.value, sp.Basic) for o in live):
                raise Undecided('multi-path inline with a container value: ' + fn.q)
            pieces = [(o.value, sp.And(*o.state.conds[len(st.conds):])) for o in live]
            if all(isinstance(v_, sp.logic.boolalg.Boolean) for v_, c_ in pieces):
                # a predicate: 1 where some path returns true (a Piecewise of truth values would be rewritten as ITE by sympy)
                return Piecewise((Integer(1), sp.Or(*[sp.And(v_, c_) for v_, c_ in pieces])), (Integer(0), True))
            return Piecewise(*pieces)
        raise Undecided('cannot inline ' + fn.q)

    # ------------------------------------------------------------------ statements
    def run(self, fn=None, env=None):
        fn = fn or self.fn
        self.fn = fn
        st = State(env or {})
        for i in fn.inits:
            if i.get('field') and i.get('init') is not None:
                try:
                    st.env['this.' + i['field']] = self.rvalue(i['init'], st)
                except Undecided:
                    pass
        return self.exec_body(fn.body, st)

    def exec_body(self, body, st):
        live, done = self.exec(body, [st])
        for s in live:
            done.append(Outcome('end', None, s))
        return done

    def exec(self, s, states):
        """Execute statement s on each state; returns (live states, finished outcomes)."""
        if s is None or not states:
            return states, []
        k = s['k']
        done = []
        if k == 'Compound':
            live = states
            for x in s['body']:
                live, d = self.exec(x, live)
                done += d
                if not live:
                    break
            return live, done
        if k == 'Decl':
            for st in states:
                for d in s['decls']:
                    if d.get('init') is not None:
                        it = self.iterator(d['init'], st) if 'iterator' in d.get('ty', '') else None
                        if it:
                            st.env[d['id']] = ('iter', it[0], it[1])
                            continue
                        v = self.rvalue(d['init'], st)
                        if isinstance(v, Arr):
                            v.name = d['name']
                            if d['name'] in self.opaque_arrays:
                                v.opaque = True
                        st.env[d['id']] = v
                    else:
                        st.env.pop(d['id'], None)
                        if self.is_array_ty(d.get('ty', '')):
                            a = Arr(d['name'])
                            a.length = Integer(0) if d['ty'].startswith('std::vector') else None
                            st.env[d['id']] = a
            return states, []
        if k == 'Expr':
            live = []
            for st in states:
                e = strip(s['e'])
                cc0 = (e.get('callee') or {}) if e['k'] == 'Call' else {}
                if e['k'] == 'Call' and cc0.get('inrepo') and (cc0.get('q') in self.inline or self.is_helper_sig(cc0.get('sig'))) and cc0.get('ret') == 'void' \
                        and (e.get('kind') == 'func' or (e.get('kind') == 'method' and strip(e.get('obj', {})).get('k') == 'This')) \
                        and self.depth < self.inline_depth:
                    callee = self.prog.by_sig(cc0.get('sig'))
                    if callee is not None:
                        sub = State({}, list(st.conds))
                        for k_, v_ in st.env.items():
                            if isinstance(k_, str) and k_.startswith('this.'):
                                sub.env[k_] = v_
                        for p, a in zip(callee.params, e['args']):
                            sub.env[p['id']] = self.rvalue(a, st)
                        self.depth += 1
                        try:
                            outs = self.exec_body(callee.body, sub)
                        finally:
                            self.depth -= 1
                        for o in outs:
                            if o.kind == 'exit':
                                done.append(Outcome('exit', None, o.state, o.node))
                                continue
                            st2 = st.fork()
                            st2.conds = list(o.state.conds)
                            for k_, v_ in o.state.env.items():
                                if isinstance(k_, str) and k_.startswith('this.'):
                                    st2.env[k_] = v_
                            for p, a in zip(callee.params, e['args']):
                                if p.get('byref') and not p.get('constref') and p['id'] in o.state.env:
                                    self.assign(a, o.state.env[p['id']], st2)
                            live.append(st2)
                        continue
                if e['k'] == 'Call' and (e.get('callee') or {}).get('noreturn'):
                    for a in e.get('args', []):
                        self.sym_or_name(a, st)
                    done.append(Outcome('exit', None, st, e))
                    continue
                self.sym_or_name(e, st)
                st.effects.append(e)
                live.append(st)
            return live, done
        if k == 'Return':
            for st in states:
                v = None
                if s.get('e') is not None:
                    v = self.rvalue(s['e'], st)
                    if isinstance(v, Arr):
                        pass
                done.append(Outcome('return', v, st, s))
            return [], done
        if k == 'If':
            live = []
            for st in states:
                c = self.as_bool(self.sym(s['cond'], st))
                c = c if c in (S.true, S.false) else c
                if c == S.true:
                    l, d = self.exec(s['then'], [st])
                elif c == S.false:
                    l, d = self.exec(s.get('else'), [st]) if s.get('else') else ([st], [])
                else:
                    st2 = st.fork()
                    nc = len(st.conds)
                    st.conds.append(c)
                    st2.conds.append(sp.Not(c))
                    l1, d1 = self.exec(s['then'], [st])
                    if s.get('else'):
                        l2, d2 = self.exec(s['else'], [st2])
                    else:
                        l2, d2 = [st2], []
                    if not d1 and not d2 and len(l1) == 1 and len(l2) == 1 and env_equal(l1[0].env, l2[0].env):
                        # branches without observable difference (diagnostic output only): merge
                        l1[0].conds = l1[0].conds[:nc]
                        l2 = []
                    l, d = l1 + l2, d1 + d2
                live += l
                done += d
                if len(live) + len(done) > MAXPATHS:
                    raise Undecided('too many paths')
            return live, done
        if k == 'For':
            live = []
            for st in states:
                l, d = self.exec_for(s, st)
                live += l
                done += d
            return live, done
        if k == 'While':
            f = self.while_as_for(s)
            if f is not None:
                live = []
                for st in states:
                    l, d = self.exec_for(f, st)
                    live += l
                    done += d
                return live, done
        if k in ('While', 'Do'):
            for st in states:
                self.havoc_loop(s, st)
            return states, []
        if k == 'RangeFor':
            for st in states:
                self.havoc_loop(s, st)
            return states, []
        if k in ('Null',):
            return states, []
        if k in ('Break', 'Continue'):
            raise Undecided('break/continue outside summarised loop')
        if k == 'Switch':
            return self.exec_switch(s, states)
        raise Undecided('statement kind ' + k)

    def exec_switch(self, s, states):
        body = s['body']
        if body['k'] != 'Compound':
            raise Undecided('switch body')
        # group into cases: each Case/Default label followed by statements until next label
        groups = []
        cur = None
        for x in body['body']:
            if x['k'] in ('Case', 'Default'):
                lab = x
                vals = []
                while lab['k'] in ('Case', 'Default'):
                    vals.append(lab.get('val'))
                    nxt = lab['sub']
                    if nxt['k'] in ('Case', 'Default'):
                        lab = nxt
                    else:
                        break
                cur = {'vals': vals, 'stmts': [lab['sub']]}
                groups.append(cur)
            else:
                if cur is None:
                    raise Undecided('switch statement before first label')
                cur['stmts'].append(x)
        live, done = [], []
        for st in states:
            cv = self.sym(s['cond'], st)
            seen = []
            for gi, g in enumerate(groups):
                st2 = st.fork()
                conds = []
                for v in g['vals']:
                    if v is None:
                        conds.append(sp.And(*[sp.Ne(cv, x) for x in seen]) if seen else S.true)
                    else:
                        vv = self.sym(v, st2)
                        conds.append(sp.Eq(cv, vv))
                        seen.append(vv)
                c = sp.Or(*conds)
                if c == S.false:
                    continue
                st2.conds.append(c)
                # execute with fallthrough until Break
                cur_live = [st2]
                brk = False
                for g2 in groups[gi:]:
                    for x in g2['stmts']:
                        if x['k'] == 'Break':
                            brk = True
                            break
                        cur_live, d = self.exec(x, cur_live)
                        done += d
                        if not cur_live:
                            break
                    if brk or not cur_live:
                        break
                live += cur_live
        return live, done

    def assigned_in(self, s):
        """Keys of lvalues (scalars and arrays) assigned anywhere inside statement s."""
        out = {}
        for x in walk_stmts(s):
            for e in stmt_exprs(x):
                for n in walk_expr(e, into_lambdas=False):
                    tgt = None
                    if n['k'] == 'Bin' and n['op'] in ('=', '+=', '-=', '*=', '/=', '%='):
                        tgt = n['lhs']
                    elif n['k'] == 'Un' and n['op'] in ('++', '--'):
                        tgt = n['e']
                    elif n['k'] == 'Call' and n.get('kind') == 'method' and not (n.get('callee') or {}).get('const'):
                        tgt = n['obj']
                    if n['k'] == 'Call':
                        for i in (n.get('callee') or {}).get('mutrefs', []):
                            if i < len(n.get('args', [])):
                                t2 = strip(n['args'][i])
                                while t2['k'] == 'Index':
                                    t2 = strip(t2['base'])
                                k2 = self.lv_key(t2)
                                if k2 is not None:
                                    out[k2] = t2
                    if tgt is not None:
                        t2 = strip(tgt)
                        while t2['k'] == 'Index':
                            t2 = strip(t2['base'])
                        k2 = self.lv_key(t2) if t2['k'] in ('Ref', 'Member') else None
                        if k2 is not None:
                            out[k2] = t2
        return out

    def havoc_loop(self, s, st):
        for key, node in self.assigned_in(s).items():
            old = st.env.get(key)
            if isinstance(old, Arr) or self.is_array_ty(node.get('ty', '')):
                st.env[key] = Arr(self.lv_name(node) + '@loop%d' % s['l'])
            else:
                st.env[key] = self.fresh_symbol('%s@loop%d' % (self.lv_name(node), s['l']), node.get('ty'))

    def loop_step(self, s, st):
        """One symbolic iteration of loop s from state st: every lvalue assigned in the loop gets an entry symbol.
        Returns (entry: key -> symbol, paths: [State]) where each path's env holds the values after one iteration and
        its conds (beyond those of st) the branch conditions taken; the loop condition itself is returned as well."""
        assigned = self.assigned_in(s)
        body_st = st.fork()
        entry = {}
        for key, node in assigned.items():
            old = st.env.get(key)
            if isinstance(old, Arr) or self.is_array_ty(node.get('ty', '')):
                a = Arr(self.lv_name(node) + '@in')
                body_st.env[key] = a
                entry[key] = a
            else:
                sym_in = self.symbol('%s@in' % self.lv_name(node), node.get('ty'))
                entry[key] = sym_in
                body_st.env[key] = sym_in
        if s['k'] == 'For' and s.get('init') is not None and s['init']['k'] == 'Decl':
            for d in s['init']['decls']:
                sym_in = self.symbol('%s@in' % d['name'], d.get('ty'))
                entry[d['id']] = sym_in
                body_st.env[d['id']] = sym_in
        cond = None
        if s.get('cond') is not None and s['k'] != 'Do':
            cond = self.as_bool(self.sym(s['cond'], body_st))
        n0 = len(body_st.conds)
        live, done = self.exec_loop_body(s['body'], [body_st])
        if s['k'] == 'For' and s.get('inc') is not None:
            for p in live:
                self.sym_or_name(s['inc'], p)
        return entry, cond, live, done, n0

    def states_at(self, fn, target):
        """All path states with which control reaches statement `target` (which is not executed)."""
        saved = self.exec
        got = []

        def ex(s, sts):
            if s is target:
                got.extend(sts)
                return [], []
            return saved(s, sts)
        self.exec = ex
        old_rec = getattr(self, '_recorded', None)
        self._recorded = got
        try:
            st = State({})
            for i in fn.inits:
                if i.get('field') and i.get('init') is not None:
                    try:
                        st.env['this.' + i['field']] = self.rvalue(i['init'], st)
                    except Undecided:
                        pass
            saved(fn.body, [st])
        finally:
            self.exec = saved
            self._recorded = old_rec
        return got

    def exec_loop_body(self, body, states):
        """Like exec, but `break`/`continue` end the iteration (recorded as outcomes 'break'/'continue')."""
        saved = self.exec
        outer = self

        def ex(s, sts):
            if s is not None and s['k'] in ('Break', 'Continue') and sts:
                return [], [Outcome(s['k'].lower(), None, x, s) for x in sts]
            return saved(s, sts)
        self.exec = ex
        try:
            return saved(body, states)
        finally:
            self.exec = saved

    # counted loops ---------------------------------------------------------
    def counter_key(self, loop, st=None):
        """env key of the counted-loop variable of `loop` (None when the loop is not counted)."""
        f = loop
        if loop.get('k') == 'While':
            f = self.while_as_for(loop)
        if f is None or f.get('k') != 'For':
            return None
        try:
            cl = self.counted(f, st if st is not None else State({}), allow_extra_inc=True)
        except Undecided:
            return None
        return cl[0]['id'] if cl else None

    def while_as_for(self, s):
        """while(i < hi) { body; i++; }  ->  the equivalent For node (init `i = i`), when the body has
        no `continue` (which would skip the increment).  None when the shape is different."""
        cond, body = s.get('cond'), s.get('body')
        if cond is None or body is None or body['k'] != 'Compound' or not body['body']:
            return None
        c = strip(cond)
        if c.get('k') != 'Bin' or c['op'] not in ('<', '<=', '!='):
            return None
        l = strip_casts(c['lhs'])
        if l.get('k') != 'Ref' or l.get('id') is None:
            return None
        last = body['body'][-1]
        if last['k'] != 'Expr':
            return None
        inc = strip(last['e'])
        ok = False
        if inc.get('k') == 'Un' and inc['op'] == '++' and strip(inc['e']).get('id') == l['id']:
            ok = True
        if inc.get('k') == 'Bin' and inc['op'] == '+=' and strip(inc['lhs']).get('id') == l['id'] \
                and strip_casts(inc['rhs']).get('k') == 'Lit' and strip_casts(inc['rhs'])['v'] == '1':
            ok = True
        if not ok:
            return None
        rest = dict(body)
        rest['body'] = body['body'][:-1]
        for x in walk_stmts(rest):
            if x['k'] == 'Continue':
                return None
        ref = {k_: v for k_, v in l.items()}
        init = {'k': 'Expr', 'l': s.get('l'), 'e': {'k': 'Bin', 'op': '=', 'lhs': ref, 'rhs': ref, 'ty': l.get('ty'), 'l': s.get('l')}}
        f = dict(s)
        f.update({'k': 'For', 'init': init, 'cond': cond, 'inc': last['e'], 'body': rest})
        return f

    def counted(self, s, st, allow_extra_inc=False):
        """Recognise for(T i = lo; i < hi; i++) -> (decl, lo, hi_exclusive) or None."""
        init, cond, inc = s.get('init'), s.get('cond'), s.get('inc')
        if allow_extra_inc and inc is not None:
            parts = []
            cur = strip(inc)
            while cur.get('k') == 'Bin' and cur['op'] == ',':
                parts.append(strip(cur['rhs']))
                cur = strip(cur['lhs'])
            parts.append(cur)
            if len(parts) > 1 and init and init['k'] == 'Decl' and len(init['decls']) == 1:
                vid = init['decls'][0]['id']
                mine = [p_ for p_ in parts if (p_.get('k') == 'Un' and strip(p_['e']).get('id') == vid) or
                        (p_.get('k') == 'Bin' and strip(p_.get('lhs', {})).get('id') == vid)]
                if len(mine) == 1:
                    inc = mine[0]
        if not init or not cond or not inc:
            return None
        var = None
        if init['k'] == 'Decl' and len(init['decls']) == 1 and init['decls'][0].get('init') is not None:
            d = init['decls'][0]
            var = {'id': d['id'], 'name': d['name'], 'ty': d['ty']}
            lo = self.sym(d['init'], st)
        elif init['k'] == 'Expr' and strip(init['e'])['k'] == 'Bin' and strip(init['e'])['op'] == '=' \
                and strip(strip(init['e'])['lhs'])['k'] == 'Ref':
            r = strip(strip(init['e'])['lhs'])
            var = {'id': r['id'], 'name': r['name'], 'ty': r['ty']}
            lo = self.sym(strip(init['e'])['rhs'], st)
        else:
            return None
        inc = strip(inc)
        ok = False
        if inc['k'] == 'Un' and inc['op'] == '++' and strip(inc['e']).get('id') == var['id']:
            ok = True
        if inc['k'] == 'Bin' and inc['op'] == '+=' and strip(inc['lhs']).get('id') == var['id'] \
                and strip_casts(inc['rhs']).get('k') == 'Lit' and strip_casts(inc['rhs'])['v'] == '1':
            ok = True
        if not ok:
            return None
        c = strip(cond)
        if c['k'] != 'Bin' or c['op'] not in ('<', '<=', '!='):
            return None
        l = strip_casts(c['lhs'])
        if l.get('k') != 'Ref' or l.get('id') != var['id']:
            return None
        # bound must not depend on loop-assigned variables; evaluated in pre-state
        hi = self.sym(c['rhs'], st)
        if c['op'] == '<=':
            hi = hi + 1
        return var, lo, hi

    def strided(self, s, st):
        """Recognise for(T i = a; i < b; i += d) / for(T i = a; i > b; i -= d) with a loop-invariant stride d:
        -> (decl, a, signed stride, number of iterations).  The count is 0 when the range is empty and ceil(|b-a|/d)
        otherwise (a loop whose stride points away from the bound does not terminate and has no summary)."""
        init, cond, inc = s.get('init'), s.get('cond'), s.get('inc')
        if not init or not cond or not inc:
            return None
        if init['k'] == 'Decl' and len(init['decls']) == 1 and init['decls'][0].get('init') is not None:
            d = init['decls'][0]
            var = {'id': d['id'], 'name': d['name'], 'ty': d['ty']}
            lo = self.sym(d['init'], st)
        elif init['k'] == 'Expr' and strip(init['e'])['k'] == 'Bin' and strip(init['e'])['op'] == '=' \
                and strip(strip(init['e'])['lhs'])['k'] == 'Ref':
            r = strip(strip(init['e'])['lhs'])
            var = {'id': r['id'], 'name': r['name'], 'ty': r['ty']}
            lo = self.sym(strip(init['e'])['rhs'], st)
        else:
            return None
        isvar = lambda x: strip_casts(x).get('k') == 'Ref' and strip_casts(x).get('id') == var['id']
        inc = strip(inc)
        sgn, stepx = None, None
        if inc['k'] == 'Bin' and inc['op'] in ('+=', '-=') and isvar(inc['lhs']):
            sgn, stepx = (1 if inc['op'] == '+=' else -1), inc['rhs']
        elif inc['k'] == 'Bin' and inc['op'] == '=' and isvar(inc['lhs']):
            r = strip_casts(inc['rhs'])
            if r.get('k') == 'Bin' and r['op'] in ('+', '-') and isvar(r['lhs']):
                sgn, stepx = (1 if r['op'] == '+' else -1), r['rhs']
            elif r.get('k') == 'Bin' and r['op'] == '+' and isvar(r['rhs']):
                sgn, stepx = 1, r['lhs']
        if inc['k'] == 'Un' and inc['op'] in ('++', '--') and isvar(inc['e']):
            sgn, stepx = (1 if inc['op'] == '++' else -1), {'k': 'Lit', 'lk': 'int', 'v': '1', 'ty': 'int'}
        if sgn is None:
            return None
        c = strip(cond)
        if c['k'] != 'Bin' or c['op'] not in ('<', '<=', '>', '>='):
            return None
        op, bound = c['op'], None
        if isvar(c['lhs']):
            bound = c['rhs']
        elif isvar(c['rhs']):
            bound = c['lhs']
            op = {'<': '>', '<=': '>=', '>': '<', '>=': '<='}[op]
        if bound is None:
            return None
        if (sgn > 0) != (op in ('<', '<=')):
            return None
        # stride and bound must be loop-invariant
        assigned = self.assigned_in(s['body'])
        for x in (stepx, bound):
            for n in walk_expr(x):
                if n.get('k') in ('Ref', 'Member'):
                    key = self.lv_key(n)
                    if key is not None and (key in assigned or key == var['id']):
                        return None
                if n.get('k') == 'Call':
                    return None
        step = self.sym(stepx, st)
        hi = self.sym(bound, st)
        if step.is_number and step <= 0:
            return None
        dist = (hi - lo) if sgn > 0 else (lo - hi)
        if op in ('<=', '>='):
            if not ('int' in var['ty'] or 'long' in var['ty'] or 'size_t' in var['ty']):
                return None
            dist = dist + 1
        count = Piecewise((Integer(0), sp.Le(dist, 0)), (sp.ceiling(dist / step), True))
        self.assumptions_used.add('strided loop at line %s: the stride is positive whenever the range is not empty (termination)' % s.get('l')) \
            if hasattr(self, 'assumptions_used') else None
        return var, lo, sgn * step, count

    def exec_for(self, s, st):
        cl = self.counted(s, st)
        stride = None
        if cl is None:
            try:
                stride = self.strided(s, st)
            except Undecided:
                stride = None
            if stride is None:
                self.havoc_loop(s, st)
                return [st], []
            var, lo, hi = stride[0], Integer(0), stride[3]
        else:
            var, lo, hi = cl
        assigned = self.assigned_in(s['body'])
        if var['id'] in assigned:
            self.havoc_loop(s, st)
            return [st], []
        # body containing break/continue/return is not summarised
        for x in walk_stmts(s['body']):
            if x['k'] in ('Break', 'Continue', 'Return'):
                self.havoc_loop(s, st)
                return [st], []
        i = Symbol(var['name'] + '_', integer=True)
        # pre-state for the body: scalars assigned in the body get entry symbols
        body_st = st.fork()
        body_st.env[var['id']] = i if stride is None else stride[1] + stride[2] * i
        entry = {}
        arrays = {}
        for key, node in assigned.items():
            old = st.env.get(key)
            if isinstance(old, Arr) or self.is_array_ty(node.get('ty', '')):
                arrays[key] = node
                continue
            sym_in = Symbol('%s@in' % self.lv_name(node), real=True)
            entry[key] = sym_in
            body_st.env[key] = sym_in
        ncond = len(body_st.conds)
        # arrays: remember number of defs on entry
        ndefs = {}
        for key, node in arrays.items():
            a = body_st.env.get(key)
            if not isinstance(a, Arr):
                a = Arr(self.lv_name(node))
                if a.name in self.opaque_arrays:
                    a.opaque = True
                body_st.env[key] = a
            ndefs[key] = len(a.defs)
            a.saved_entry = a.entry_from
            a.entry_from = len(a.defs)
        rec0 = len(self._recorded) if getattr(self, '_recorded', None) is not None else None
        try:
            live, done = self.exec(s['body'], [body_st])
        except Undecided:
            self.havoc_loop(s, st)
            return [st], []
        if rec0 is not None and len(self._recorded) > rec0 and entry and live:
            # states recorded inside the body (states_at) see a loop-carried scalar as its entry symbol: give it the closed
            # form it has at iteration i - a running sum (pre + sum of the earlier increments) or the value stored by the
            # previous iteration
            cf = {}
            for key, sym_in in entry.items():
                vals = [p.env.get(key, sym_in) for p in live]
                if not all(isinstance(v_, sp.Basic) for v_ in vals) or any(v_ != vals[0] for v_ in vals[1:]):
                    continue
                pre_ = st.env.get(key)
                if not isinstance(pre_, sp.Basic):
                    continue
                others_ = list(entry.values())
                delta_ = sp.expand(vals[0] - sym_in)
                ii_ = sp.Dummy('r', integer=True)
                if not any(delta_.has(o_) for o_ in others_):
                    cf[sym_in] = pre_ + sp.Sum(delta_.subs(i, ii_), (ii_, lo, i - 1))
                elif not any(vals[0].has(o_) for o_ in others_):
                    cf[sym_in] = Piecewise((pre_, sp.Eq(i, lo)), (vals[0].subs(i, i - 1), True))
            if cf:
                for stt in self._recorded[rec0:]:
                    for k2_, v2_ in list(stt.env.items()):
                        if isinstance(v2_, sp.Basic) and v2_.free_symbols & set(cf):
                            stt.env[k2_] = v2_.xreplace(cf)
                    stt.conds[:] = [c_.xreplace(cf) if isinstance(c_, sp.Basic) else c_ for c_ in stt.conds]
        inrange = sp.And(sp.Ge(i, lo), sp.Lt(i, hi))
        loop_exits = []
        if done and live and all(o.kind == 'exit' for o in done):
            # an iteration may stop the program (a guard inside the loop): the summary below describes the state after the
            # loop, which is only reached when no iteration exited; each exit is reported as an outcome of its own
            for o in done:
                o.state.conds.append(inrange)
                loop_exits.append(o)
            done = []
        if done or not live:
            self.havoc_loop(s, st)
            return [st], []
        if loop_exits and len(live) == 1:
            # the state after the loop is reached only when no iteration exited: the single continuing path's conditions are
            # exactly "this iteration did not exit" and hold for every iteration
            del live[0].conds[ncond:]
        # entry placeholders of one array inside the terms of another (or of a scalar): the value at the start of the
        # iteration is the value before the loop when no earlier iteration can have written that element
        AUf = sp.core.function.AppliedUndef

        def written_indices(key2):
            res = []
            for p2 in live:
                a2 = p2.env.get(key2)
                if not isinstance(a2, Arr):
                    return None
                for kvs2, g2, _t in a2.defs[ndefs[key2]:]:
                    eqs2 = list(g2.args) if isinstance(g2, sp.And) else [g2]
                    w = {}
                    for eq2 in eqs2:
                        if isinstance(eq2, sp.Equality):
                            if eq2.lhs in kvs2:
                                w[eq2.lhs] = eq2.rhs
                            elif eq2.rhs in kvs2:
                                w[eq2.rhs] = eq2.lhs
                    if any(kv2 not in w for kv2 in kvs2):
                        return None
                    res.append(tuple(w[kv2] for kv2 in kvs2))
            return res

        def untouched_before(args, key2, neq):
            ws = written_indices(key2)
            if ws is None:
                return False
            for w in ws:
                if len(w) > len(args):
                    return False
                same = all(sp.simplify(x_ - y_) == 0 for x_, y_ in zip(args, w))
                injective = any(y_.has(i) and sp.diff(y_, i).is_number and sp.diff(y_, i) != 0 for y_ in w)
                apart = any((not y_.has(i)) and frozenset((x_, y_)) in neq for x_, y_ in zip(args, w))
                if not ((same and injective) or apart):
                    return False
            return True
        efs = {}
        for key2, node2 in arrays.items():
            b2 = st.env.get(key2)
            if not isinstance(b2, Arr):
                b2 = Arr(self.lv_name(node2))
                if b2.name in self.opaque_arrays:
                    b2.opaque = True
            a2 = body_st.env.get(key2)
            if isinstance(a2, Arr):
                efs[a2.entry_func()] = (key2, b2)
        if len(efs) > 1 or entry:
            for p in live:
                neq = known_disequalities(list(st.conds) + list(p.conds))

                def resolve(t, own_key):
                    if not isinstance(t, sp.Basic):
                        return t
                    rep = {}
                    for a_ in t.atoms(AUf):
                        if a_.func in efs and efs[a_.func][0] != own_key and untouched_before(tuple(a_.args), efs[a_.func][0], neq):
                            rep[a_] = efs[a_.func][1].read(tuple(a_.args))
                    return t.xreplace(rep) if rep else t
                for key1 in arrays:
                    a1 = p.env.get(key1)
                    if isinstance(a1, Arr):
                        for pos1 in range(ndefs[key1], len(a1.defs)):
                            kvs1, g1, t1 = a1.defs[pos1]
                            a1.defs[pos1] = (kvs1, g1, resolve(t1, key1))
                for key1 in entry:
                    if isinstance(p.env.get(key1), sp.Basic):
                        p.env[key1] = resolve(p.env[key1], None)
        # merge: arrays
        for key, node in arrays.items():
            base = st.env.get(key)
            if not isinstance(base, Arr):
                base = Arr(self.lv_name(node))
                if base.name in self.opaque_arrays:
                    base.opaque = True
            newarr = base.copy()
            len0 = base.length
            grew = False
            body_arr0 = body_st.env.get(key)
            for p in live:
                a = p.env.get(key)
                if not isinstance(a, Arr):
                    newarr = Arr(base.name + '@loop%d' % s['l'])
                    break
                ef = a.entry_func()
                pc = sp.And(*p.conds[ncond:]) if len(p.conds) > ncond else S.true
                for pos_a, (kvs, guard, term) in enumerate(a.defs[ndefs[key]:], start=ndefs[key]):
                    g, t = guard, term
                    if len0 is not None and a.length is not None and a.length != len0:
                        growth = a.length - len0
                        g = g.subs(len0, len0 + (i - lo) * growth) if len0.free_symbols else \
                            self.shift_pushback(g, kvs, len0, i, lo, growth)
                        grew = growth
                    sol = self.solve_index(kvs, g, i)
                    if sol is None:
                        # index independent of the loop variable: accumulation into a fixed element?
                        acc = self.accumulate_element(kvs, g, t, ef, base, i, lo, hi, pc)
                        if acc is None:
                            newarr = Arr(base.name + '@loop%d' % s['l'])
                            newarr.length = base.length
                            break
                        newarr.defs.append(acc)
                        continue
                    kv_guard, isub = sol
                    t2 = t.subs(isub)
                    pc2 = pc.subs(isub) if pc is not S.true else S.true
                    # placeholders for entry values: the element as it was before the loop
                    if t2.has(ef):
                        fixed = {}
                        for eq_ in ([kv_guard] if isinstance(kv_guard, sp.Equality) else list(getattr(kv_guard, 'args', ()))):
                            if isinstance(eq_, sp.Equality) and eq_.lhs in kvs:
                                fixed[eq_.lhs] = eq_.rhs
                            elif isinstance(eq_, sp.Equality) and eq_.rhs in kvs:
                                fixed[eq_.rhs] = eq_.lhs
                        own = tuple(fixed.get(kv_, kv_) for kv_ in kvs)
                        foreign = [a_ for a_ in t2.atoms(sp.core.function.AppliedUndef) if a_.func == ef
                                   and any(sp.simplify(x_ - y_) != 0 for x_, y_ in zip(a_.args[:len(kvs)], own))]
                        # an element whose fixed coordinate is known to differ from the written one (a condition i != j on the
                        # path) is never written by this loop: it keeps its value from before the loop
                        neq = known_disequalities(list(st.conds) + list(p.conds))
                        foreign = [a_ for a_ in foreign if not any(kv_ in fixed and frozenset((x_, y_)) in neq
                                                                   for kv_, x_, y_ in zip(kvs, a_.args[:len(kvs)], own))]
                        if foreign:
                            # the body reads an element that an earlier iteration of this loop may have written
                            t2 = self.prefix_recurrence(t2, ef, kvs, foreign, base, lo, isub, i)
                            if t2 is None:
                                newarr = Arr(base.name + '@loop%d' % s['l'])
                                newarr.length = base.length
                                break
                        t2 = t2.replace(ef, lambda *ix: base.read(tuple(ix)))
                    newarr.defs.append((kvs, sp.And(kv_guard, pc2), t2))
                    rng_ = inrange.subs(isub)
                    if pos_a in a.ranges:
                        # the definition is itself a comprehension of an inner loop: keep its index range as well
                        rng_ = sp.And(rng_, a.ranges[pos_a].subs(isub))
                    newarr.ranges[len(newarr.defs) - 1] = rng_
            if grew is not False and len0 is not None:
                newarr.length = len0 + (hi - lo) * grew
            newarr.entry_from = base.entry_from
            st.env[key] = newarr
        # merge: scalars
        for key, sym_in in entry.items():
            node = assigned[key]
            vals = []
            for p in live:
                pc = sp.And(*p.conds[ncond:]) if len(p.conds) > ncond else S.true
                vals.append((p.env.get(key, sym_in), pc))
            if len(vals) == 1 or all(v == vals[0][0] for v, _ in vals):
                v_out = vals[0][0]
            else:
                try:
                    v_out = Piecewise(*[(v, c) for v, c in vals])
                except Exception:
                    v_out = self.fresh_symbol('%s@loop%d' % (self.lv_name(node), s['l']), node.get('ty'))
            pre = st.env.get(key)
            if pre is None or isinstance(pre, (Arr, LambdaVal)):
                pre = self.symbol(self.lv_name(node), node.get('ty'))
            try:
                delta = sp.expand(v_out - sym_in) if not v_out.has(Piecewise) else (v_out - sym_in)
            except Exception:
                delta = None
            if delta is not None and not delta.has(sym_in):
                others = [e2 for k2, e2 in entry.items() if k2 != key]
                if any(delta.has(o) for o in others):
                    st.env[key] = self.fresh_symbol('%s@loop%d' % (self.lv_name(node), s['l']), node.get('ty'))
                else:
                    st.env[key] = pre + sp.Sum(delta, (i, lo, hi - 1))
                continue
            if isinstance(v_out, (sp.Max, sp.Min)) and sym_in in v_out.args:
                # running maximum / minimum: v = max(v, g(i))  ->  max(v0, MAXRED(g, i, lo, hi-1))
                rest_ = [a_ for a_ in v_out.args if a_ != sym_in]
                others_ = [e2 for k2, e2 in entry.items() if k2 != key]
                if rest_ and not any(r_.has(sym_in) or any(r_.has(o_) for o_ in others_) for r_ in rest_):
                    g_ = v_out.func(*rest_) if len(rest_) > 1 else rest_[0]
                    red_ = Function('MAXRED' if isinstance(v_out, sp.Max) else 'MINRED', real=True)(g_, i, lo, hi - 1)
                    st.env[key] = v_out.func(pre, red_)
                    continue
            ratio = sp.cancel(v_out / sym_in) if not v_out.has(Piecewise) else None
            if ratio is not None and not ratio.has(sym_in) and not any(ratio.has(o) for k2, o in entry.items() if k2 != key):
                st.env[key] = pre * sp.Product(ratio, (i, lo, hi - 1))
                continue
            st.env[key] = self.fresh_symbol('%s@loop%d' % (self.lv_name(node), s['l']), node.get('ty'))
        if s['init']['k'] != 'Decl':
            # the counter outlives the loop: its exit value is max(lo, hi)
            if stride is not None:
                st.env[var['id']] = stride[1] + stride[2] * hi
            else:
                st.env[var['id']] = sp.Max(lo, hi) if strip(s['cond'])['op'] != '!=' else hi
        return [st], loop_exits

    def prefix_recurrence(self, t2, ef, kvs, foreign, base, lo, isub, i):
        """A[k] = A[k-1] + c(k) written for k = i+s, i = lo.. : the element read was written by the previous iteration.
        Returns the closed form base[lo+s-1] + Sum(c(j), j=lo+s..k) (still containing entry placeholders only for the
        written element itself), or None when the dependence has another shape."""
        if len(kvs) != 1 or len(foreign) != 1 or i not in isub:
            return None
        k = kvs[0]
        f = foreign[0]
        if len(f.args) != 1 or sp.simplify(f.args[0] - (k - 1)) != 0:
            return None
        sft = sp.simplify(k - isub[i])          # k = i + sft
        if sft.has(k) or sft.has(i):
            return None
        c = sp.expand(t2 - f)
        if c.has(ef):
            return None
        j = sp.Dummy('j', integer=True)
        first = lo + sft
        total = sp.Sum(c.subs(k, j), (j, first, k))
        if not c.has(k):
            total = c * (k - first + 1)
        return base.read((first - 1,)) + total

    def accumulate_element(self, kvs, g, t, ef, base, i, lo, hi, pc):
        """A[fixed idx] = A[fixed idx] (+|*) delta(i) inside a counted loop -> Sum/Product."""
        if pc is not S.true or g.has(i):
            return None
        ents = [a for a in t.atoms(sp.core.function.AppliedUndef) if a.func == ef]
        if len(ents) != 1:
            return None
        E = ents[0]
        # the placeholder must be the element being written
        sub = {}
        eqs = [g] if isinstance(g, sp.Equality) else (list(g.args) if isinstance(g, sp.And) else [])
        for eq in eqs:
            if isinstance(eq, sp.Equality) and eq.lhs in kvs:
                sub[eq.lhs] = eq.rhs
            elif isinstance(eq, sp.Equality) and eq.rhs in kvs:
                sub[eq.rhs] = eq.lhs
        idx = tuple(sub.get(kv) for kv in kvs)
        if None in idx or tuple(E.args) != idx:
            return None
        delta = sp.expand(t - E)
        pre = base.read(idx)
        if not delta.has(E):
            return (kvs, g, pre + sp.Sum(delta, (i, lo, hi - 1)))
        ratio = sp.cancel(t / E)
        if not ratio.has(E):
            return (kvs, g, pre * sp.Product(ratio, (i, lo, hi - 1)))
        return None

    def shift_pushback(self, g, kvs, len0, i, lo, growth):
        # guard is Eq(k, len0 + j) for the j-th push_back in the body (len0 numeric)
        if isinstance(g, sp.Equality):
            return sp.Eq(g.lhs, g.rhs + (i - lo) * growth)
        return g

    def solve_index(self, kvs, guard, i):
        """guard: And(Eq(k0, f0(i)), ..., other conditions). Returns (guard on kvs not involving i, {i: expr}) or None."""
        eqs = list(guard.args) if isinstance(guard, sp.And) else ([guard] if guard not in (S.true, True) else None)
        if eqs is None:
            return S.true, {}
        isub = None
        rest = []
        for eq in eqs:
            if isub is None and isinstance(eq, sp.Equality):
                lhs, rhs = eq.lhs, eq.rhs
                if lhs not in kvs:
                    lhs, rhs = rhs, lhs
                if lhs in kvs and rhs.has(i) and not rhs.has(*[k_ for k_ in kvs]):
                    sol = sp.solve(sp.Eq(lhs, rhs), i, dict=True)
                    if len(sol) != 1:
                        return None
                    isub = {i: sol[0][i]}
                    continue
            rest.append(eq)
        if isub is None:
            # index does not depend on i: last iteration wins; not summarised
            return None
        g = S.true
        for eq in rest:
            e2 = eq.subs(isub)
            if e2.has(i):
                return None
            g = sp.And(g, e2)
        return g, isub


def terms_at(prog, fn, stmt, exprs, sx=None):
    """Values of the IR expressions `exprs` in every path state that reaches statement `stmt` of fn - inside loops the
    counters are the loop symbols `<name>_` and everything the loop writes is an entry placeholder.  Returns
    (sx, [(state, [terms])])."""
    sx = sx or Symx(prog, fn)
    res = []
    for st in sx.states_at(fn, stmt):
        res.append((st, [sx.sym_or_name(e, st) for e in exprs]))
    return sx, res


def enclosing_loops(fn, stmt):
    """The loop statements around `stmt` in fn, outermost first."""
    from .ir import stmt_children

    def rec(s, stack):
        if s is stmt:
            return stack
        for c in stmt_children(s):
            r = rec(c, stack + ([s] if s.get('k') in ('For', 'While', 'Do', 'RangeFor') else []))
            if r is not None:
                return r
        return None
    return rec(fn.body, []) or []


def call_arg_terms(prog, fn, pred):
    """[(callee name, [argument terms])] for the calls of fn selected by pred, in source order, with every argument
    evaluated symbolically in the state that reaches the end of fn (named temporaries, casts and aliases are seen
    through).  Only for functions with a single non-exit path; Undecided otherwise."""
    from .ir import calls as _calls
    sx = Symx(prog, fn)
    outs = [o for o in sx.run() if o.kind != 'exit']
    if len(outs) != 1:
        raise Undecided('%s has %d non-exit paths' % (fn.q, len(outs)))
    st = outs[0].state
    res = []
    for c in _calls(fn, into_lambdas=False):
        if pred(c):
            res.append(((c.get('callee') or {}).get('name'), [sx.sym_or_name(a, st) for a in c.get('args', []) if a.get('k') != 'DefaultArg']))
    return res


def arr_as_tuple(v):
    """A short list value with a literal length (an initializer list) as a sympy Tuple of its elements."""
    if isinstance(v, Arr) and not v.opaque and isinstance(v.length, sp.Integer) and 0 < int(v.length) <= 16 and v.entry_from is None:
        try:
            els = [v.read((Integer(i),)) for i in range(int(v.length))]
        except Exception:
            return v
        if all(isinstance(x, sp.Basic) for x in els):
            return sp.Tuple(*els)
    return v


def return_cases(outs):
    """Return outcomes as a flat list of (condition, value): a Piecewise return value (ternary, min/max written as a
    conditional) is split into one case per piece, so `if(c) return a; else return b;` and `return c ? a : b;` look alike."""
    res = []
    for o in outs:
        if o.kind != 'return':
            continue
        v = o.value
        if isinstance(v, Piecewise):
            prev = S.true
            for val, cnd in v.args:
                c2 = sp.And(o.cond, prev, cnd) if cnd not in (True, S.true) else sp.And(o.cond, prev)
                res.append((c2, val))
                if cnd not in (True, S.true):
                    prev = sp.And(prev, sp.Not(cnd))
        else:
            res.append((o.cond, v))
    return res


def cond_atoms(c):
    """The conjuncts of a condition (a non-conjunction is its own single conjunct)."""
    return list(c.args) if isinstance(c, sp.And) else [c]


def env_equal(a, b):
    if a.keys() != b.keys():
        return False
    for k, v in a.items():
        w = b[k]
        if isinstance(v, Arr) or isinstance(w, Arr):
            if not (isinstance(v, Arr) and isinstance(w, Arr)):
                return False
            if v.length != w.length or len(v.defs) != len(w.defs):
                return False
            for d1, d2 in zip(v.defs, w.defs):
                if d1[1:] != d2[1:] and (d1[1].subs(dict(zip(d1[0], d2[0]))) != d2[1] or d1[2].subs(dict(zip(d1[0], d2[0]))) != d2[2]):
                    return False
        elif isinstance(v, LambdaVal) or isinstance(w, LambdaVal):
            if v is not w and not (isinstance(v, LambdaVal) and isinstance(w, LambdaVal) and v.node is w.node):
                return False
        elif v != w:
            return False
    return True


def accessor_field(fn):
    """If fn's body is `return <this-field>;` return the field name."""
    b = fn.body
    if b and b['k'] == 'Compound' and len(b['body']) == 1 and b['body'][0]['k'] == 'Return':
        e = strip_casts(b['body'][0].get('e'))
        if e and e['k'] == 'Member' and strip(e['base'])['k'] == 'This':
            return e['name']
    return None


# ----------------------------------------------------------------------------- term comparison

def nf(t):
    return sp.cancel(sp.together(sp.expand(t)))


def is_zero(t, ideal=None, gens=None):
    """Decide t == 0 as a rational-function identity (optionally modulo a polynomial ideal)."""
    t = sp.together(sp.expand(t))
    num, _den = sp.fraction(t)
    num = sp.expand(num)
    if num == 0:
        return True
    if ideal:
        gens = gens or sorted(set().union(*[p.free_symbols for p in ideal]) | num.free_symbols, key=str)
        G = sp.groebner(ideal, *gens, order='grevlex')
        _, r = sp.reduced(num, list(G), *gens, order='grevlex')
        return sp.expand(r) == 0
    s = sp.simplify(num)
    return s == 0


def equal(a, b, ideal=None, gens=None):
    return is_zero(a - b, ideal, gens)

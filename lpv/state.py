"""E4 state: persistent objects and definite assignment before read (history-carrying state detection)."""
from .ir import (Undecided, show, strip, strip_casts, walk_stmts, stmt_exprs, walk_expr, expr_children, calls, all_exprs)
from . import guards as G


def static_locals(fn):
    out = []
    for s in walk_stmts(fn.body):
        if s['k'] == 'Decl':
            for d in s['decls']:
                if d.get('static') and not d.get('const'):
                    out.append(d)
    return out


def base_ref(e):
    e = strip_casts(e)
    while e.get('k') == 'Index':
        e = strip_casts(e['base'])
    return e


STD_WRITERS = {'std::fill': 0, 'std::fill_n': 0, 'std::iota': 0, 'std::generate': 0, 'std::copy': 2, 'std::transform': 2, 'std::copy_n': 2}


def iter_dest(a):
    """X.begin() [+ offset ...]  ->  (Ref node of X, [offset expressions]); (None, []) otherwise."""
    offs = []
    t = strip_casts(a)
    while True:
        while t.get('k') in ('Construct',) and len([x for x in t.get('args', []) if x.get('k') != 'DefaultArg']) == 1:
            t = strip_casts(t['args'][0])
        if t.get('k') == 'Call' and t.get('kind') == 'op' and t.get('op') in ('+', '-') and len(t.get('args', [])) == 2:
            offs.append(t['args'][1])
            t = strip_casts(t['args'][0])
            continue
        break
    if t.get('k') == 'Call' and t.get('kind') == 'method' and (t.get('callee') or {}).get('name') == 'begin':
        b = strip_casts(t['obj'])
        idxs = []
        while b.get('k') == 'Index':
            idxs.append(b['idx'])
            b = strip_casts(b['base'])
        if b.get('k') == 'Ref':
            return b, offs + idxs
    return None, []


class DefAssign:
    """Forward definite-assignment analysis over the statement tree for a set of tracked variable ids.

    `consts`: dict param-name/local-name -> python value used to fold branch conditions at the entry under study.
    A read of a tracked variable that is not definitely assigned on every path from function entry is recorded."""

    def __init__(self, prog, fn, tracked, consts=None, callee_summary=None, arrays=()):
        self.prog = prog
        self.fn = fn
        self.arrays = set(arrays)          # ids of tracked objects that are arrays: element writes in a loop body are
                                           # assumed to cover the indices read later (array-granularity approximation)
        self.loop_inits = []               # (array name, loop line, bound text) recorded for the evidence
        self.tracked = dict(tracked)       # id -> name
        self.consts = consts or {}
        self.early = []                    # (name, node, why)
        self.callee_summary = callee_summary or (lambda call, idx: 'R')

    # ----- expression evaluation order: reads and writes
    def expr(self, e, A):
        """Process expression e (as rvalue); returns updated assigned set."""
        e = strip(e)
        if not isinstance(e, dict):
            return A
        k = e.get('k')
        if k == 'Ref':
            if e.get('id') in self.tracked and e['id'] not in A:
                self.early.append((self.tracked[e['id']], e, 'read'))
            return A
        if k == 'Bin' and e['op'] == '=':
            A = self.expr(e['rhs'], A)
            return self.write(e['lhs'], A, reads_old=False)
        if k == 'Bin' and e['op'] in ('+=', '-=', '*=', '/=', '%='):
            A = self.expr(e['rhs'], A)
            return self.write(e['lhs'], A, reads_old=True)
        if k == 'Un' and e['op'] in ('++', '--'):
            return self.write(e['e'], A, reads_old=True)
        if k == 'Bin' and e['op'] in ('&&', '||'):
            A = self.expr(e['lhs'], A)
            self.expr(e['rhs'], set(A))
            return A
        if k == 'Cond':
            A = self.expr(e['c'], A)
            c = self.fold(e['c'])
            if c is True:
                return self.expr(e['a'], A)
            if c is False:
                return self.expr(e['b'], A)
            A1 = self.expr(e['a'], set(A))
            A2 = self.expr(e['b'], set(A))
            return A1 & A2
        if k == 'Call' and (e.get('callee') or {}).get('q') in STD_WRITERS and len(e.get('args', [])) > STD_WRITERS[(e.get('callee') or {}).get('q')]:
            # a standard algorithm writing a whole prefix of a container through an output iterator: a write of that
            # container (array granularity, like an element store in a counted loop), not a read of it
            di = STD_WRITERS[e['callee']['q']]
            ref0, _ = iter_dest(e['args'][di])
            dest = ref0['id'] if ref0 is not None and ref0.get('id') in self.tracked else None
            for i, a in enumerate(e['args']):
                ref, offs = iter_dest(a)
                if dest is not None and ref is not None and ref.get('id') == dest and (i == di or e['callee']['q'] in ('std::fill', 'std::iota', 'std::generate')):
                    # iterators delimiting the written range: only their offsets are read
                    for o_ in offs:
                        A = self.expr(o_, A)
                    continue
                A = self.expr(a, A)
            if dest is not None:
                A = A | {dest}
            return A
        if k == 'Call' and e.get('kind') == 'method' and (e.get('callee') or {}).get('name') in ('resize', 'reserve', 'shrink_to_fit') \
                and str((e.get('callee') or {}).get('cls', '')).startswith('std::vector') and strip_casts(e['obj']).get('k') == 'Ref' \
                and strip_casts(e['obj']).get('id') in self.tracked:
            # changes the length only: the elements are neither read nor (definitely) assigned by it
            for a in e.get('args', []):
                A = self.expr(a, A)
            return A
        if k == 'Call':
            cc = e.get('callee') or {}
            mut = set(cc.get('mutrefs', []))
            if e.get('obj') is not None:
                A = self.expr(e['obj'], A)
            if e.get('fn') is not None:
                A = self.expr(e['fn'], A)
            post = []
            for i, a in enumerate(e.get('args', [])):
                b = base_ref(a)
                if i in mut and b.get('k') == 'Ref' and b.get('id') in self.tracked:
                    # index sub-expressions are read
                    t = strip_casts(a)
                    while t.get('k') == 'Index':
                        A = self.expr(t['idx'], A)
                        t = strip_casts(t['base'])
                    mode = self.callee_summary(e, i)
                    if mode == 'R' and b['id'] not in A:
                        self.early.append((self.tracked[b['id']], b, 'passed by reference to %s, which reads it first' % cc.get('name')))
                    post.append(b['id'])
                else:
                    A = self.expr(a, A)
            for i_ in post:
                A = A | {i_}
            return A
        if k == 'Lambda':
            return A
        for c in expr_children(e):
            A = self.expr(c, A)
        return A

    def write(self, lhs, A, reads_old):
        t = strip_casts(lhs)
        idxs = []
        while t.get('k') == 'Index':
            idxs.append(t['idx'])
            t = strip_casts(t['base'])
        for ix in idxs:
            A = self.expr(ix, A)
        if t.get('k') == 'Ref' and t.get('id') in self.tracked:
            if reads_old and t['id'] not in A:
                self.early.append((self.tracked[t['id']], t, 'read-modify-write'))
            # element writes of arrays count at array granularity only inside counted loops over that index
            return A | {t['id']}
        if t.get('k') not in ('Ref',):
            A = self.expr(t, A)
        return A

    # ----- constant folding of conditions
    def fold(self, cond):
        try:
            row = dict(self.consts)
            return bool(G.CEval(self.prog, row).ev(cond))
        except (Undecided, KeyError, TypeError):
            return None

    # ----- statements
    def stmt(self, s, A):
        """Returns the assigned set after s (None if s does not complete normally)."""
        if s is None:
            return A
        k = s['k']
        if k == 'Compound':
            for x in s['body']:
                A = self.stmt(x, A)
                if A is None:
                    return None
            return A
        if k == 'Decl':
            for d in s['decls']:
                if d.get('static'):
                    continue          # initialised once per process, not per call
                if d.get('init') is not None:
                    A = self.expr(d['init'], A)
            return A
        if k == 'Expr':
            e = strip(s['e'])
            if e.get('k') == 'Call' and (e.get('callee') or {}).get('noreturn'):
                self.expr(e, A)
                return None
            return self.expr(e, A)
        if k == 'Return':
            if s.get('e') is not None:
                self.expr(s['e'], A)
            return None
        if k in ('Break', 'Continue'):
            return None
        if k == 'If':
            A = self.expr(s['cond'], A)
            c = self.fold(s['cond'])
            if c is True:
                return self.stmt(s['then'], A)
            if c is False:
                return self.stmt(s.get('else'), A) if s.get('else') else A
            A1 = self.stmt(s['then'], set(A))
            A2 = self.stmt(s.get('else'), set(A)) if s.get('else') else set(A)
            if A1 is None:
                return A2
            if A2 is None:
                return A1
            return A1 & A2
        if k == 'For':
            if s.get('init') is not None:
                A = self.stmt(s['init'], A)
            if s.get('cond') is not None:
                A = self.expr(s['cond'], A)
            B = self.stmt(s['body'], set(A))
            if B is not None and s.get('inc') is not None:
                self.expr(s['inc'], B)
            elif s.get('inc') is not None:
                self.expr(s['inc'], set(A))
            if s.get('cond') is None and B is not None:
                return B          # for(;;): the body runs at least once before any exit
            if B is not None:
                new = (B - A) & self.arrays
                for i_ in new:
                    self.loop_inits.append((self.tracked[i_], s['l'], show(s['cond']) if s.get('cond') else 'for(;;)'))
                return A | new
            return A
        if k == 'While':
            A = self.expr(s['cond'], A)
            self.stmt(s['body'], set(A))
            return A
        if k == 'Do':
            B = self.stmt(s['body'], set(A))
            B = B if B is not None else set(A)
            return self.expr(s['cond'], B)
        if k == 'RangeFor':
            A = self.expr(s['range'], A)
            self.stmt(s['body'], set(A))
            return A
        if k == 'Switch':
            A = self.expr(s['cond'], A)
            self.stmt(s['body'], set(A))
            return A
        if k in ('Case', 'Default'):
            return self.stmt(s['sub'], A)
        if k == 'Try':
            B = self.stmt(s['body'], set(A))
            for h in s.get('handlers', []):
                self.stmt(h, set(A))
            return A if B is None else (A & B) | A
        return A

    def run(self):
        self.stmt(self.fn.body, set())
        return self.early


def byref_first_access(prog, fn, param_index):
    """'W' if the function writes (elements of) by-reference parameter #i before reading it on every path, else 'R'."""
    p = fn.params[param_index]
    arrays = [p['id']] if (p['ty'].startswith('std::vector') or p['ty'].startswith('libphysica::')) else []
    da = DefAssign(prog, fn, {p['id']: p['name']}, arrays=arrays)
    early = da.run()
    return 'R' if early else 'W'


# ----------------------------------------------------------------------------- function-local persistent state
def _exact_key_test(fn, statics, cond):
    """cond (an IR expression) is a conjunction/disjunction of exact (in)equality tests `param ==/!= static`, possibly
    negated, and nothing else.  Returns the set of parameter ids compared, or None."""
    sid = set(d['id'] for d in statics)
    pids = set(p['id'] for p in fn.params)
    seen = set()

    def rec(e):
        e = strip_casts(e)
        k = e.get('k')
        if k == 'Un' and e.get('op') == '!':
            return rec(e['e'])
        if k == 'Bin' and e.get('op') in ('&&', '||'):
            return rec(e['lhs']) and rec(e['rhs'])
        if k == 'Bin' and e.get('op') in ('==', '!='):
            a, b = strip_casts(e['lhs']), strip_casts(e['rhs'])
            for x, y in ((a, b), (b, a)):
                if x.get('k') == 'Ref' and x.get('id') in pids and y.get('k') == 'Ref' and y.get('id') in sid:
                    seen.add(x['id'])
                    return True
            return False
        return False
    return seen if rec(cond) else None


def history_dependence(prog, fn):
    """Verdicts for the persistent locals of fn: [(name, 'holds'|'violated', detail)].
      * a static initialised from the arguments of the first call: violated (the first call decides for all later ones);
      * a mutable static that every call assigns before reading it: holds (scratch storage);
      * a mutable static that can be read before this call assigned it carries history.  It is admissible only as an
        exact cache: the one test that decides between reuse and recomputation compares every parameter that the
        recomputation uses with `==`/`!=` against a static, and nothing else; a tolerance test or a partial key makes the result depend on the
        previous call: violated."""
    res = []
    st_all = []
    for s in walk_stmts(fn.body):
        if s['k'] == 'Decl':
            for d in s['decls']:
                if d.get('static'):
                    st_all.append(d)
    for d in st_all:
        if d.get('init') is not None:
            deps = sorted(set(n['name'] for n in walk_expr(d['init']) if n.get('k') == 'Ref' and n.get('rk') in ('param', 'local')))
            if deps:
                res.append((d['name'], 'violated', 'static `%s` is initialised from %s of the first call and keeps that value for every later call' % (d['name'], deps)))
    for e in all_exprs(fn, into_lambdas=False):
        if e.get('k') == 'Lambda':
            for s in walk_stmts(e['fn']['body']):
                if s['k'] == 'Decl':
                    for d in s['decls']:
                        if d.get('static'):
                            res.append((d['name'], 'violated', 'static `%s` inside a lambda keeps state between calls' % d['name']))
    mut = [d for d in st_all if not d.get('const')]
    if not mut:
        return res
    tracked = {d['id']: d['name'] for d in mut}
    arrays = [d['id'] for d in mut if d['ty'].startswith('std::vector') or d['ty'].endswith(']')]
    da = DefAssign(prog, fn, tracked, {}, None, arrays)
    early = da.run()
    by = {}
    for name, node, why in early:
        by.setdefault(name, []).append(node)
    carrying = [d for d in mut if d['name'] in by]
    for d in mut:
        if d['name'] not in by:
            res.append((d['name'], 'holds', 'static `%s` is assigned by every call before it is read' % d['name']))
    if not carrying:
        return res
    # the reuse test: if-conditions that mention a history-carrying static
    cid = set(d['id'] for d in carrying)
    tests = [s for s in walk_stmts(fn.body) if s['k'] == 'If' and any(n.get('k') == 'Ref' and n.get('id') in cid for n in walk_expr(s['cond']))]
    names = ', '.join('`%s`' % d['name'] for d in carrying)
    if len(tests) != 1:
        for d in carrying:
            res.append((d['name'], 'violated', 'static %s can be read (line %s) before this call assigned it and %d tests decide about reusing it: '
                        'the value an earlier call left behind enters the result' % (names, by[d['name']][0].get('l'), len(tests))))
        return res
    keyed = _exact_key_test(fn, mut, tests[0]['cond'])
    # the arguments the remembered value is computed from: every parameter used in the recomputation branch(es) of the test
    allp = set()
    pid_ = set(p['id'] for p in fn.params)
    for br in (tests[0].get('then'), tests[0].get('else')):
        if br is None:
            continue
        writes_static = any(n.get('k') == 'Ref' and n.get('id') in tracked for st_ in walk_stmts(br) for e_ in stmt_exprs(st_) for n in walk_expr(e_)
                            if True)
        if writes_static:
            for st_ in walk_stmts(br):
                for e_ in stmt_exprs(st_):
                    for n in walk_expr(e_):
                        if n.get('k') == 'Ref' and n.get('id') in pid_:
                            allp.add(n['id'])
    if keyed is not None and allp and allp <= keyed:
        for d in carrying:
            res.append((d['name'], 'holds', 'exact cache: reused only when every argument equals the remembered one'))
    else:
        why = 'the reuse test `%s` is not an exact comparison of every argument with the remembered one' % show(tests[0]['cond'])
        if keyed is not None:
            missing = [p['name'] for p in fn.params if p['id'] in allp and p['id'] not in keyed]
            why = 'the reuse test `%s` ignores the argument(s) %s' % (show(tests[0]['cond']), missing)
        for d in carrying:
            res.append((d['name'], 'violated', 'static `%s` carries a value from an earlier call into this one: %s' % (d['name'], why)))
    return res


def member_cache_protocol(prog, cls, query, field_reads, field_writes):
    """A query member `query` of class `cls` that writes fields of its own object keeps a cache in the object.  Returns None
    when it writes none; otherwise (cache fields, problems): every member function (constructors apart) that can change a
    field the query reads - by writing it, or by returning a mutable reference or pointer into it - must also write a cache
    field (reset it); one that does not leaves a stale value behind."""
    cache = sorted(field_writes(query))
    if not cache:
        return None
    inputs = sorted(set(field_reads(query)) - set(cache))
    problems = []
    for f in prog.all_functions():
        if f.cls != cls or f is query or f.d.get('ctor') or f.sig == query.sig:
            continue
        w = set(field_writes(f))
        touched = sorted(w & set(inputs))
        how = None
        if '*this' in w:
            touched, how = ['*this'], 'assigns the whole object'
        elif touched:
            how = 'writes %s' % ', '.join(touched)
        elif f.d.get('retmut') and not f.d.get('const'):
            # which field does the returned reference point into?
            for s_ in walk_stmts(f.body) if f.body else []:
                if s_['k'] == 'Return' and s_.get('e') is not None:
                    t = strip(s_['e'])
                    while t.get('k') == 'Index':
                        t = strip(t['base'])
                    if t.get('k') == 'Member' and strip(t['base']).get('k') == 'This' and t['name'] in inputs:
                        how = 'hands out a mutable reference into %s' % t['name']
        if how is None:
            continue
        if not (w & set(cache)) and '*this' not in w:
            problems.append('%s %s without resetting the cached %s' % (f.sig.replace('libphysica::', ''), how, '/'.join(cache)))
    return cache, problems

"""E2 guards: exit sites, reach formulas, diagnostic-exit shape, truth tables with C integer semantics."""
import itertools, math
import sympy as sp
from .ir import (Undecided, AnalysisBroken, show, strip, strip_casts, walk_stmts, stmt_exprs, walk_expr,
                 stmt_children, expr_children)
from .symx import accessor_field

# ----------------------------------------------------------------------------- formulas over IR atoms
# ('atom', expr) | ('not', f) | ('and', [f...]) | ('or', [f...]) | ('true',) | ('false',)
# | ('loop', loopstmt, f)   -- f holds in some iteration of the loop (existential over iterations)
TRUE = ('true',)
FALSE = ('false',)


def f_and(*fs):
    out = []
    for f in fs:
        if f == TRUE:
            continue
        if f == FALSE:
            return FALSE
        if f[0] == 'and':
            out += f[1]
        else:
            out.append(f)
    if not out:
        return TRUE
    return out[0] if len(out) == 1 else ('and', out)


def f_or(*fs):
    out = []
    for f in fs:
        if f == FALSE:
            continue
        if f == TRUE:
            return TRUE
        if f[0] == 'or':
            out += f[1]
        else:
            out.append(f)
    if not out:
        return FALSE
    return out[0] if len(out) == 1 else ('or', out)


def f_not(f):
    if f == TRUE:
        return FALSE
    if f == FALSE:
        return TRUE
    if f[0] == 'not':
        return f[1]
    return ('not', f)


def from_cond(e):
    """IR boolean expression -> formula (splits && || !)."""
    e = strip(e)
    if e['k'] == 'Bin' and e['op'] == '&&':
        return f_and(from_cond(e['lhs']), from_cond(e['rhs']))
    if e['k'] == 'Bin' and e['op'] == '||':
        return f_or(from_cond(e['lhs']), from_cond(e['rhs']))
    if e['k'] == 'Un' and e['op'] == '!':
        return f_not(from_cond(e['e']))
    if e['k'] == 'Cast' and e['ck'] in ('IntegralToBoolean',) and strip(e['e']).get('ty') == 'bool':
        return from_cond(e['e'])
    if e['k'] == 'Lit' and e['lk'] == 'bool':
        return TRUE if e['v'] == 'true' else FALSE
    return ('atom', e)


def f_show(f):
    k = f[0]
    if k == 'atom':
        return show(f[1])
    if k == 'not':
        return '!(' + f_show(f[1]) + ')'
    if k == 'and':
        return ' && '.join('(' + f_show(x) + ')' for x in f[1])
    if k == 'or':
        return ' || '.join('(' + f_show(x) + ')' for x in f[1])
    if k == 'loop':
        return 'EXISTS iteration of loop@%d: %s' % (f[1]['l'], f_show(f[2]))
    return k


def f_atoms(f):
    k = f[0]
    if k == 'atom':
        yield f[1]
    elif k == 'not':
        yield from f_atoms(f[1])
    elif k in ('and', 'or'):
        for x in f[1]:
            yield from f_atoms(x)
    elif k == 'loop':
        yield from f_atoms(f[2])


def f_has_loop(f):
    k = f[0]
    if k == 'loop':
        return True
    if k == 'not':
        return f_has_loop(f[1])
    if k in ('and', 'or'):
        return any(f_has_loop(x) for x in f[1])
    return False


# ----------------------------------------------------------------------------- exit sites

class ExitSite:
    def __init__(self, fn, call, reach, region, via=None):
        self.fn = fn
        self.call = call          # the noreturn Call node (or the wrapper call)
        self.reach = reach        # formula under which the site is reached
        self.region = region      # list of statements of the exit region (for diagnostic-shape test)
        self.via = via            # wrapper summary name if the exit is inherited
        self.line = call.get('l')

    def __repr__(self):
        return '<Exit %s:%s when %s>' % (self.fn.name, self.line, f_show(self.reach))


def is_noreturn_call(e):
    e = strip(e)
    return e.get('k') == 'Call' and (e.get('callee') or {}).get('noreturn')


class GuardScan:
    """Walk a function's statement tree; collect exit sites with reach formulas.

    Local variables with a single definition that is not loop-carried are inlined into atoms."""

    def __init__(self, prog, fn, wrappers=None):
        self.prog = prog
        self.fn = fn
        self.wrappers = wrappers or {}
        self.sites = []
        self.uses = []
        self.returns = []
        self.use_pred = None
        self.defs = self.single_defs(fn)

    # locals defined exactly once (decl init, never reassigned): id -> init expr
    def single_defs(self, fn):
        decl = {}
        assigned = {}
        for s in walk_stmts(fn.body):
            if s['k'] == 'Decl':
                for d in s['decls']:
                    decl[d['id']] = d
            for e in stmt_exprs(s):
                for n in walk_expr(e, into_lambdas=True):
                    tgt = None
                    if n['k'] == 'Bin' and n['op'] in ('=', '+=', '-=', '*=', '/=', '%='):
                        tgt = strip(n['lhs'])
                    elif n['k'] == 'Un' and n['op'] in ('++', '--'):
                        tgt = strip(n['e'])
                    elif n['k'] == 'Call':
                        for i in (n.get('callee') or {}).get('mutrefs', []):
                            if i < len(n.get('args', [])):
                                t2 = strip(n['args'][i])
                                if t2['k'] == 'Ref':
                                    assigned[t2['id']] = assigned.get(t2['id'], 0) + 1
                    if tgt is not None and tgt['k'] == 'Ref':
                        assigned[tgt['id']] = assigned.get(tgt['id'], 0) + 1
        out = {}
        for i, d in decl.items():
            if d.get('init') is not None and not assigned.get(i) and not d.get('static') \
                    and d['ty'] in ('int', 'unsigned int', 'double', 'bool', 'unsigned long', 'long', 'const int'):
                out[i] = d['init']
        return out

    def always_exits(self, s):
        """Every path through s ends in a noreturn call."""
        if s is None:
            return False
        k = s['k']
        if k == 'Compound':
            return any(self.always_exits(x) for x in s['body'])
        if k == 'Expr':
            if is_noreturn_call(s['e']):
                return True
            e = strip(s['e'])
            if e['k'] == 'Call' and (e.get('callee') or {}).get('sig') in self.wrappers:
                w = self.wrappers[e['callee']['sig']]
                c = strip_casts(e['args'][w['param']])
                return c['k'] == 'Lit' and c['v'] == 'true'
            return False
        if k == 'If':
            return s.get('else') is not None and self.always_exits(s['then']) and self.always_exits(s['else'])
        return False

    def scan(self, s, reach, loops=()):
        """Returns the formula under which control falls through s (relative to entry `reach` already included)."""
        if s is None:
            return reach
        k = s['k']
        if self.use_pred is not None and reach != FALSE:
            for e in stmt_exprs(s):
                for n in walk_expr(e, into_lambdas=True):
                    if self.use_pred(n):
                        self.uses.append([n, reach, loops])
        if k == 'Compound':
            r = reach
            for x in s['body']:
                r = self.scan(x, r, loops)
                if r == FALSE:
                    break
            return r
        if k == 'Expr':
            e = strip(s['e'])
            if is_noreturn_call(e):
                self.add_site(e, reach, [s], loops)
                return FALSE
            if e['k'] == 'Call' and (e.get('callee') or {}).get('sig') in self.wrappers:
                w = self.wrappers[e['callee']['sig']]
                cond = from_cond(e['args'][w['param']])
                self.add_site(e, f_and(reach, cond), [s], loops, via=e['callee']['q'])
                return f_and(reach, f_not(cond))
            return reach
        if k == 'If':
            c = from_cond(self.subst(s['cond']))
            rt = self.scan(s['then'], f_and(reach, c), loops)
            re_ = self.scan(s.get('else'), f_and(reach, f_not(c)), loops) if s.get('else') else f_and(reach, f_not(c))
            # fallthrough: either branch falls through
            if rt == FALSE:
                return re_
            if re_ == FALSE:
                return rt
            # both fall through: reach is unchanged if neither contained exits/returns
            return reach if (self.pure_fallthrough(s['then']) and (not s.get('else') or self.pure_fallthrough(s['else']))) \
                else f_or(rt, re_)
        if k in ('For', 'While', 'Do', 'RangeFor'):
            n0 = len(self.sites)
            nr = len(self.returns)
            if s['k'] == 'For' and s.get('init'):
                self.scan(s['init'], reach, loops)
            nu = len(self.uses)
            self.scan(s.get('body'), TRUE, loops + (s,))
            for u in self.uses[nu:]:
                u[1] = f_and(reach, ('loop', s, u[1]))
            for st in self.sites[n0:]:
                st.reach = f_and(reach, ('loop', s, st.reach)) if st.reach[0] != 'loop' else f_and(reach, st.reach)
            left = FALSE
            for i_ in range(nr, len(self.returns)):
                r_, rr = self.returns[i_]
                lf = ('loop', s, rr) if rr[0] != 'loop' else rr
                self.returns[i_] = (r_, f_and(reach, lf))
                left = f_or(left, lf)
            # control continues after the loop only if no iteration returned
            return f_and(reach, f_not(left)) if left != FALSE else reach
        if k == 'Return':
            self.returns.append((s, reach))
            return FALSE
        if k == 'Switch':
            body = s['body']
            stmts = body['body'] if body['k'] == 'Compound' else [body]
            cond = self.subst(s['cond'])
            vals = []
            for x in walk_stmts(body):
                if x['k'] == 'Case' and x.get('val') is not None:
                    vals.append(x['val'])

            def eq(v):
                return ('atom', {'k': 'Bin', 'op': '==', 'lhs': cond, 'rhs': v, 'ty': 'bool', 'l': s['l']})
            cur = FALSE
            for x in stmts:
                labels = []
                y = x
                while y['k'] in ('Case', 'Default'):
                    labels.append(y)
                    y = y['sub']
                if labels:
                    lab = FALSE
                    for lb in labels:
                        if lb['k'] == 'Case':
                            lab = f_or(lab, eq(lb['val']))
                        else:
                            lab = f_or(lab, f_and(*[f_not(eq(v)) for v in vals]))
                    cur = f_or(cur, f_and(reach, lab))
                if y['k'] == 'Break':
                    cur = FALSE
                    continue
                cur = self.scan(y, cur, loops)
            return reach
        if k in ('Case', 'Default'):
            return self.scan(s['sub'], reach, loops)
        if k == 'Try':
            self.scan(s['body'], reach, loops)
            for h in s.get('handlers', []):
                n0 = len(self.sites)
                self.scan(h, TRUE, loops)
                for st in self.sites[n0:]:
                    st.reach = f_and(reach, ('atom', {'k': 'Caught', 'l': h['l']}))
            return reach
        return reach

    def pure_fallthrough(self, s):
        for x in walk_stmts(s):
            if x['k'] in ('Return', 'Break', 'Continue'):
                return False
            if x['k'] == 'Expr' and (is_noreturn_call(x['e'])):
                return False
        return True

    def subst(self, e):
        """Inline single-definition locals into expression e (IR level, copy-on-write)."""
        if not isinstance(e, dict):
            return e
        if e.get('k') == 'Ref' and e.get('rk') == 'local' and e['id'] in self.defs:
            return self.subst(self.defs[e['id']])
        out = None
        for key, v in e.items():
            if isinstance(v, dict) and key != 'fn':
                nv = self.subst(v)
                if nv is not v:
                    out = out or dict(e)
                    out[key] = nv
            elif isinstance(v, list) and key in ('args', 'elems', 'sub'):
                nl = [self.subst(x) for x in v]
                if any(a is not b for a, b in zip(nl, v)):
                    out = out or dict(e)
                    out[key] = nl
        return out or e

    def add_site(self, call, reach, region, loops, via=None):
        self.sites.append(ExitSite(self.fn, call, reach, region, via))

    def run(self):
        self.scan(self.fn.body, TRUE)
        return self.sites


def find_wrappers(prog):
    """Functions whose body is `if(<bool param>) <diagnostic exit>`: summarised as exits-iff(param)."""
    out = {}
    for fn in prog.all_functions():
        b = fn.body
        if not b or b['k'] != 'Compound' or len(b['body']) != 1 or b['body'][0]['k'] != 'If':
            continue
        i = b['body'][0]
        if i.get('else'):
            continue
        c = strip_casts(i['cond'])
        if c['k'] != 'Ref' or c.get('rk') != 'param':
            continue
        g = GuardScan(prog, fn)
        if g.always_exits(i['then']):
            out[fn.sig] = {'param': c['idx'], 'fn': fn, 'region': i['then']}
    return out


def exit_sites(prog, fn, wrappers=None):
    return GuardScan(prog, fn, wrappers if wrappers is not None else find_wrappers(prog)).run()


# ----------------------------------------------------------------------------- diagnostic-exit shape

def region_statements(site):
    """Statements of the exit region: the noreturn call statement and the output statements preceding it in
    the same compound statement."""
    return site.region


def diagnostic_shape(prog, fn, site, wrappers):
    """(has_output_with_nonempty_literal, status_is_failure, problems)"""
    problems = []
    call = site.call
    if site.via:
        w = [w for w in wrappers.values() if w['fn'].q == site.via][0]
        inner = exit_sites(prog, w['fn'], {})
        if not inner:
            return ['wrapper has no exit']
        return diagnostic_shape_region(w['fn'], inner[0].call, w['fn'].body)
    return diagnostic_shape_region(fn, call, fn.body)


def enclosing_compound(body, call):
    """The innermost Compound (or single statement) whose direct children include the statement holding `call`."""
    best = None
    for s in walk_stmts(body):
        if s['k'] == 'Compound':
            for idx, x in enumerate(s['body']):
                if x['k'] == 'Expr' and strip(x['e']) is call:
                    best = (s, idx)
    return best


def diagnostic_shape_region(fn, call, body):
    problems = []
    # status
    args = call.get('args', [])
    q = (call.get('callee') or {}).get('q', '')
    if q in ('exit', 'std::exit', '_Exit', 'std::_Exit', 'quick_exit', 'std::quick_exit'):
        a = strip_casts(args[0]) if args else None
        ok = a is not None and a['k'] == 'Lit' and (a.get('macro') == 'EXIT_FAILURE' or (a['lk'] == 'int' and int(a['v']) != 0))
        if not ok:
            problems.append('exit status is not a failure status: %s' % (show(a) if a else '?'))
    elif q in ('abort', 'std::abort', 'std::terminate'):
        pass
    else:
        problems.append('noreturn callee %s is not a process exit' % q)
    enc = enclosing_compound(body, call)
    out_ok = False
    if enc:
        comp, idx = enc
        prev = []
        for x in comp['body'][:idx]:
            while x['k'] in ('Case', 'Default'):
                prev = []
                x = x['sub']
            prev.append(x)
        for x in prev:
            if x['k'] != 'Expr':
                continue
            for n in walk_expr(x['e']):
                if n['k'] == 'Call' and n.get('kind') == 'op' and n.get('op') == '<<':
                    # stream chain rooted at cerr/cout with a string literal operand
                    root = n
                    lits = []
                    while root.get('k') == 'Call' and root.get('op') == '<<':
                        a1 = strip(root['args'][1])
                        for m in walk_expr(a1):
                            if m['k'] == 'Lit' and m['lk'] == 'str' and len(m['v']) > 0:
                                lits.append(m['v'])
                        root = strip(root['args'][0])
                    if root.get('k') == 'Ref' and root.get('q') in ('std::cerr', 'std::cout', 'std::clog') and lits:
                        out_ok = True
                if n['k'] == 'Call' and (n.get('callee') or {}).get('q') in ('printf', 'fprintf', 'std::printf', 'puts'):
                    for m in walk_expr(n):
                        if m['k'] == 'Lit' and m['lk'] == 'str' and len(m['v'].strip()) > 0:
                            out_ok = True
    if not out_ok:
        problems.append('no output of a non-empty literal to cerr/cout precedes the exit in its block')
    return problems


# ----------------------------------------------------------------------------- concrete predicate evaluation

MASK = {'unsigned int': (1 << 32) - 1, 'unsigned long': (1 << 64) - 1, 'unsigned short': (1 << 16) - 1,
        'unsigned char': 255, 'unsigned long long': (1 << 64) - 1}
SIGNED_W = {'int': 32, 'long': 64, 'short': 16, 'long long': 64}
FLOATS = {'double', 'float', 'long double'}


def wrap(v, ty):
    if ty in MASK and isinstance(v, int):
        return v & MASK[ty]
    if ty in SIGNED_W and isinstance(v, int):
        w = SIGNED_W[ty]
        v &= (1 << w) - 1
        if v >= 1 << (w - 1):
            v -= 1 << w
        return v
    return v


class TermKey:
    """Canonical naming of input terms that occur in guard atoms."""

    def __init__(self, prog):
        self.prog = prog

    def key(self, e):
        e = strip(e)
        k = e['k']
        if k == 'Ref':
            if e.get('rk') in ('param', 'local', 'slocal'):
                return e['name']
            if e.get('rk') == 'global':
                return e.get('q', e['name'])
            return e['name']
        if k == 'Member':
            b = strip(e['base'])
            if b['k'] == 'This':
                return 'this.' + e['name']
            bk = self.key(b)
            return None if bk is None else bk + '.' + e['name']
        if k == 'Call' and e.get('kind') == 'method' and not e.get('args'):
            c = e['callee']
            ok = self.key(e['obj']) if strip(e['obj'])['k'] != 'This' else 'this'
            if ok is None:
                return None
            if c.get('inrepo'):
                fn = self.prog.by_sig(c['sig'])
                fld = accessor_field(fn) if fn else None
                if fld:
                    return ok + '.' + fld
                return None
            if c['name'] in ('size', 'length'):
                return 'len(%s)' % ok
            if c['name'] == 'empty':
                return 'empty(%s)' % ok
            return None
        if k == 'Index':
            bk = self.key(e['base'])
            i = strip_casts(e['idx'])
            if bk is not None and i['k'] == 'Lit':
                return '%s[%s]' % (bk, i['v'])
            if bk is not None:
                return '%s[%s]' % (bk, show(i))
            return None
        if k == 'This':
            return 'this'
        if k == 'Un' and e['op'] == '*':
            return self.key(e['e'])
        if k == 'Call' and e.get('kind') in ('stdfn', 'lambda', 'functor'):
            return show(e)
        return None


_BOOL_SUMMARY = {}


def bool_summary(prog, fn):
    """Formula under which a bool-returning in-repo function returns true (all returns must be boolean terms)."""
    # cached per program object (never by id(): ids are reused after a program of another variant was freed)
    _BOOL_SUMMARY = prog.__dict__.setdefault('_bool_summary_cache', {})
    key = fn.sig
    if key not in _BOOL_SUMMARY:
        g = GuardScan(prog, fn, {})
        g.scan(fn.body, TRUE)
        f = FALSE
        for r, reach in g.returns:
            e = r.get('e')
            if e is None:
                raise Undecided('return without value in ' + fn.q)
            f = f_or(f, f_and(reach, from_cond(g.subst(e))))
        _BOOL_SUMMARY[key] = f
    return _BOOL_SUMMARY[key]


class PrefixRow(dict):
    def __init__(self, row, prefix):
        self.row = row
        self.prefix = prefix

    def __contains__(self, k):
        return self._m(k) in self.row

    def __getitem__(self, k):
        return self.row[self._m(k)]

    def _m(self, k):
        if k.startswith('this.'):
            return self.prefix + k[4:]
        if k.startswith('len(this.'):
            return 'len(' + self.prefix + k[8:]
        return k


class CEval:
    """Evaluate guard expressions on one row of the truth table (C integer semantics, IEEE doubles)."""

    def __init__(self, prog, row, extra=None, aliases=None):
        self.prog = prog
        self.tk = TermKey(prog)
        self.row = row
        self.extra = extra or {}
        self.aliases = aliases or {}

    def ev(self, e):
        e = strip(e)
        k = e['k']
        key = self.tk.key(e) if k in ('Ref', 'Member', 'Call', 'Index') else None
        if key is not None and key in self.row:
            return self.row[key]
        if key is not None and key in self.aliases and self.aliases[key] in self.row:
            return self.row[self.aliases[key]]
        if key is not None and key.startswith('empty(') and 'len(' + key[6:] in self.row:
            return self.row['len(' + key[6:]] == 0
        if k == 'Lit':
            if e['lk'] in ('int', 'char'):
                return int(e['v'])
            if e['lk'] == 'float':
                return float(e['val'])
            if e['lk'] == 'bool':
                return e['v'] == 'true'
            if e['lk'] == 'str':
                return e['v']
            raise Undecided('literal ' + e['lk'])
        if k == 'Cast':
            v = self.ev(e['e'])
            ck = e['ck']
            if ck == 'IntegralCast':
                return wrap(int(v), e['ty'])
            if ck == 'IntegralToFloating':
                return float(v)
            if ck == 'FloatingToIntegral':
                if math.isnan(v) or math.isinf(v):
                    raise Undecided('float->int of non-finite')
                return wrap(int(v), e['ty'])
            if ck in ('IntegralToBoolean', 'FloatingToBoolean'):
                return v != 0
            if ck == 'FloatingCast':
                return float(v)
            return v
        if k == 'Un':
            v = self.ev(e['e'])
            if e['op'] == '-':
                return wrap(-v, e['ty'])
            if e['op'] == '!':
                return not v
            if e['op'] == '+':
                return v
            raise Undecided('unary ' + e['op'])
        if k == 'Bin':
            op = e['op']
            if op == '&&':
                return bool(self.ev(e['lhs'])) and bool(self.ev(e['rhs']))
            if op == '||':
                return bool(self.ev(e['lhs'])) or bool(self.ev(e['rhs']))
            l = self.ev(e['lhs'])
            r = self.ev(e['rhs'])
            if op in ('<', '>', '<=', '>=', '==', '!='):
                return {'<': l < r, '>': l > r, '<=': l <= r, '>=': l >= r, '==': l == r, '!=': l != r}[op]
            ty = e['ty']
            if op == '+':
                return wrap(l + r, ty)
            if op == '-':
                return wrap(l - r, ty)
            if op == '*':
                return wrap(l * r, ty)
            if op == '/':
                if ty in FLOATS:
                    if r == 0:
                        return math.nan if l == 0 or math.isnan(l) else math.copysign(math.inf, l) * (math.copysign(1, r))
                    return l / r
                if r == 0:
                    raise Undecided('integer division by zero in guard')
                q = abs(l) // abs(r)
                return wrap(q if (l >= 0) == (r >= 0) else -q, ty)
            if op == '%':
                if r == 0:
                    raise Undecided('modulo zero in guard')
                return wrap(int(math.fmod(l, r)), ty)
            raise Undecided('operator ' + op)
        if k == 'Cond':
            return self.ev(e['a']) if self.ev(e['c']) else self.ev(e['b'])
        if k == 'Call':
            q = (e.get('callee') or {}).get('q', '')
            short = q.split('::')[-1]
            a = e.get('args', [])
            if short in ('fabs', 'abs') and len(a) == 1:
                return abs(self.ev(a[0]))
            if short in ('max', 'min') and len(a) == 2 and q.startswith('std::'):
                l_, r_ = self.ev(a[0]), self.ev(a[1])
                return max(l_, r_) if short == 'max' else min(l_, r_)
            if short == 'isnan' and len(a) == 1:
                v = self.ev(a[0])
                return isinstance(v, float) and math.isnan(v)
            if short == 'isinf' and len(a) == 1:
                v = self.ev(a[0])
                return isinstance(v, float) and math.isinf(v)
            if q in self.extra:
                return self.extra[q](self, e)
            if e.get('kind') == 'op' and e.get('op') in ('==', '!=') and len(a) == 2:
                l, r = self.ev(a[0]), self.ev(a[1])
                return (l == r) if e['op'] == '==' else (l != r)
            c = e.get('callee') or {}
            if e.get('kind') == 'method' and c.get('inrepo') and c.get('ret') == 'bool' and not a:
                fn = self.prog.by_sig(c['sig'])
                if fn is not None:
                    f = bool_summary(self.prog, fn)
                    o = strip(e['obj'])
                    if o['k'] == 'This':
                        return self.formula(f)
                    ok = self.tk.key(o)
                    if ok is not None:
                        return CEval(self.prog, PrefixRow(self.row, ok), self.extra, self.aliases).formula(f)
            v_ = self.pure_call(e)
            if v_ is not None:
                return v_
            raise Undecided('call in guard: %s' % show(e))
        raise Undecided('guard term %s: %s' % (k, show(e)))

    _PURE = {}

    def pure_call(self, e):
        """A call of a small in-repo free function with scalar arguments (Sign, StepFunction, ...): evaluated through the
        path summary of the callee (conditions and returned terms), not by running it."""
        c = e.get('callee') or {}
        if not c.get('inrepo') or e.get('kind') != 'func' or c.get('mutrefs'):
            return None
        fn = self.prog.by_sig(c.get('sig'))
        if fn is None or fn.body is None or len(fn.params) != len([a_ for a_ in e.get('args', [])]):
            return None
        key = fn.sig
        _PURE = self.prog.__dict__.setdefault('_pure_call_cache', {})
        if key not in _PURE:
            try:
                from .symx import Symx
                sx = Symx(self.prog, fn)
                outs = sx.run()
                syms = [sx.symbol(p_['name'], p_['ty']) for p_ in fn.params]
                ok = all(o.kind == 'return' and isinstance(o.value, sp.Basic) for o in outs)
                _PURE[key] = (outs, syms) if ok else None
            except Exception:
                _PURE[key] = None
        ent = _PURE[key]
        if ent is None:
            return None
        outs, syms = ent
        try:
            vals = [self.ev(a_) for a_ in e['args']]
        except Undecided:
            return None
        if any(isinstance(v_, float) and (math.isnan(v_) or math.isinf(v_)) for v_ in vals):
            return None
        sub = dict(zip(syms, vals))
        for o in outs:
            cnd = o.cond.subs(sub)
            if cnd == sp.true:
                r = o.value.subs(sub)
                if r.free_symbols or r.atoms(sp.core.function.AppliedUndef):
                    return None
                return float(r) if not r.is_Integer else int(r)
        return None

    def formula(self, f):
        k = f[0]
        if k == 'true':
            return True
        if k == 'false':
            return False
        if k == 'atom':
            return bool(self.ev(f[1]))
        if k == 'not':
            return not self.formula(f[1])
        if k == 'and':
            return all(self.formula(x) for x in f[1])
        if k == 'or':
            return any(self.formula(x) for x in f[1])
        if k == 'loop':
            # existential over iterations; only decidable here when the inner formula is loop-invariant
            return self.formula(f[2])
        raise Undecided('formula kind ' + k)


def product_rows(**domains):
    keys = list(domains)
    for vals in itertools.product(*[domains[k] for k in keys]):
        yield dict(zip(keys, vals))


def truth_table(prog, formula, rows_iter, spec, extra=None, aliases=None, limit=200000):
    """Compare formula with spec(row)->True/False/None on every row.

    Returns (rows_checked, disagreements[list of (row, code, spec)])."""
    rows = 0
    bad = []
    for row in rows_iter:
        want = spec(row)
        if want is None:
            continue
        got = CEval(prog, row, extra, aliases).formula(formula)
        rows += 1
        if bool(got) != bool(want):
            if len(bad) < 5:
                bad.append((row, got, want))
        if rows > limit:
            raise Undecided('truth table too large')
    return rows, bad


# ----------------------------------------------------------------------------- dominance on the tree

def stmt_index_path(body, target_pred):
    """Yield paths (list of (stmt, child)) from body to statements containing an expr node satisfying target_pred."""
    res = []

    def rec(s, path):
        for e in stmt_exprs(s):
            for n in walk_expr(e, into_lambdas=False):
                if target_pred(n):
                    res.append((path + [s], n))
        for c in stmt_children(s):
            rec(c, path + [s])
    rec(body, [])
    return res


# ----------------------------------------------------------------------------- finite-table evaluation of an index prologue

class RowExec:
    """Evaluates the integer prologue of a small function on one row of a finite table (C semantics): the statements
    understood are if/else, assignments to integer parameters/locals, declarations, return and process exit.  It stops at
    the first statement for which `stop(stmt)` is true and hands the current row (with reassigned variables) back.
    Used for clamp logic such as Sub_List, where the guard is a sequence of reassignments rather than one predicate."""

    def __init__(self, prog, fn, row, stop):
        self.prog = prog
        self.fn = fn
        self.row = dict(row)
        self.stop = stop
        self.tk = TermKey(prog)

    def run(self):
        return self.block(self.fn.body)

    def block(self, s):
        k = s['k']
        if self.stop(s):
            return ('stop', s)
        if k == 'Compound':
            for x in s['body']:
                r = self.block(x)
                if r is not None:
                    return r
            return None
        if k == 'If':
            c = CEval(self.prog, self.row).ev(s['cond'])
            if c:
                return self.block(s['then'])
            if s.get('else'):
                return self.block(s['else'])
            return None
        if k == 'Expr':
            e = strip(s['e'])
            if is_noreturn_call(e):
                return ('exit', s)
            if e.get('k') == 'Bin' and e['op'] == '=' and strip(e['lhs']).get('k') == 'Ref':
                key = self.tk.key(e['lhs'])
                v = CEval(self.prog, self.row).ev(e['rhs'])
                self.row[key] = wrap(v, strip(e['lhs']).get('ty'))
                return None
            raise Undecided('prologue statement: ' + show(e))
        if k == 'Decl':
            for d in s['decls']:
                if d.get('init') is not None and d['ty'] in ('int', 'unsigned int', 'unsigned long', 'long', 'bool', 'double'):
                    self.row[d['name']] = wrap(CEval(self.prog, self.row).ev(d['init']), d['ty'])
                elif d.get('init') is not None:
                    raise Undecided('declaration of %s in prologue' % d['name'])
            return None
        if k == 'Return':
            return ('return', s)
        raise Undecided('statement kind %s in prologue' % k)

"""Thorough-tier self-test: run a property's rules against its committed corpus of hand-made variants.

Each variant is a unified diff under /verif/selftest/<Cnn>/<name>.patch whose first lines are
    # expect: fire <rule> [<instance-substring>]     (armed: one instance broken, still compiles)
    # expect: silent                                  (neutral: behaviour-preserving rewrite)
The variant is applied to a scratch copy of /repo's src+include (outside /repo and /verif), analysed
(never compiled to an executable, never run) and removed.
"""
import os, shutil, subprocess, tempfile, glob, time, json

from . import ir, report

SELF = os.path.join(ir.VERIF, 'selftest')


def scratch_copy(root):
    d = tempfile.mkdtemp(prefix='lpv-var-', dir=os.environ.get('TMPDIR', '/var/tmp'))
    for sub in ('src', 'include'):
        shutil.copytree(os.path.join(root, sub), os.path.join(d, sub))
    return d


def parse_expect(path):
    exp = []
    for line in open(path):
        if not line.startswith('#'):
            break
        line = line[1:].strip()
        if line.startswith('expect:'):
            exp.append(line[len('expect:'):].strip().split())
    return exp


class _Ob:
    def __init__(self, rule, instance, status):
        self.rule, self.instance, self.status = rule, instance, status


class _Ctx:
    def __init__(self, obs):
        self.obs = obs


def run_variant(args):
    prop, root, patch = args
    from .driver import run_property
    d = scratch_copy(root)
    try:
        r = subprocess.run(['patch', '-p1', '-s', '-F3', '-d', d, '-i', patch], capture_output=True, text=True)
        if r.returncode != 0:
            return 'inapplicable', [r.stdout + r.stderr], None
        prog = ir.extract(d)
        lines = []
        code, ctx = run_property(prop, prog, 'quick', write=False, out=lines.append)
        return code, [str(l) for l in lines], [(o.rule, o.instance, o.status) for o in ctx.obs]
    except ir.AnalysisBroken as e:
        return 2, [str(e)], None
    finally:
        shutil.rmtree(d, ignore_errors=True)


def run(prop, root='/repo', out=print):
    props = [prop] if prop != 'all' else sorted(os.path.basename(p) for p in glob.glob(os.path.join(SELF, 'C*')))
    bad = 0
    total = 0
    jobs = [(p, root, patch) for p in props for patch in sorted(glob.glob(os.path.join(SELF, p, '*.patch')))]
    from concurrent.futures import ProcessPoolExecutor
    with ProcessPoolExecutor(max_workers=min(8, max(1, len(jobs)))) as ex:
        results = list(ex.map(run_variant, jobs))
    for (p, _r, patch), (code, lines, obs) in zip(jobs, results):
        if True:
            total += 1
            exp = parse_expect(patch)
            ctx = _Ctx([_Ob(*o) for o in obs]) if obs is not None else None
            name = os.path.basename(patch)
            if code == 'inapplicable':
                out('selftest %s/%s: SKIPPED (patch does not apply to the current tree)' % (p, name))
                continue
            known = [k for k in report.load_known() if k['property'] == p and k.get('status') == 'known']
            viol = [o for o in ctx.obs if o.status == report.VIOLATED
                    and not any(k['rule'] == o.rule and k['instance'] == o.instance for k in known)] if ctx else []
            und = [o for o in ctx.obs if o.status == report.UNDECIDED] if ctx else []
            ok = True
            for e in exp:
                if e[0] == 'silent':
                    if viol or code != 0:
                        ok = False
                elif e[0] == 'fire':
                    rule = e[1]
                    sub = e[2] if len(e) > 2 else ''
                    if not any(o.rule == rule and sub in o.instance for o in viol):
                        ok = False
                elif e[0] == 'undecided':
                    if code != 2:
                        ok = False
            if not exp:
                ok = False
            out('selftest %s/%s: %s (exit %s; fired: %s%s)' % (p, name, 'ok' if ok else 'FAILED', code,
                ', '.join(sorted(set('%s %s' % (o.rule, o.instance) for o in viol))) or '-',
                ('; undecided: ' + ', '.join('%s %s' % (o.rule, o.instance) for o in und)) if und else ''))
            if not ok:
                bad += 1
                for l in lines[-12:]:
                    out('      | ' + str(l))
    out('selftest: %d variants, %d failed' % (total, bad))
    return 2 if bad else 0


def thorough(prop, root, ctx, out=print):
    """Extra work of the thorough tier after a clean quick pass. Returns an exit code."""
    from .driver import run_property
    code = 0
    # (a) the same rules on a -std=gnu++17 parse (the default dialect of the installed g++)
    try:
        prog17 = ir.extract(root, std='gnu++17')
        lines = []
        c17, ctx17 = run_property(prop, prog17, 'thorough', write=False, out=lines.append)
        out('thorough: gnu++17 parse: exit %d, %d obligations' % (c17, len(ctx17.obs)))
        if c17 != 0:
            for l in lines:
                out(l)
        code = max(code, c17)
    except ir.AnalysisBroken as e:
        out('ANALYSIS-BROKEN property=%s gnu++17 parse: %s' % (prop, e))
        code = 2
    # (b) self-test corpus
    c = run(prop, root, out)
    if c:
        out('ANALYSIS-BROKEN property=%s self-test corpus failed (a rule is vacuous or brittle)' % prop)
    code = max(code, c)
    # tier marker in evidence
    p = os.path.join(ir.VERIF, 'evidence', prop + '.json')
    if os.path.exists(p):
        ev = json.load(open(p))
        ev['tier'] = 'thorough'
        ev['coverage']['thorough'] = {'gnu++17_parse_exit': code, 'selftest_exit': c,
                                      'selftest_variants': len(glob.glob(os.path.join(SELF, prop, '*.patch')))}
        json.dump(ev, open(p, 'w'), indent=1)
    return code

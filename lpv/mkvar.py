#!/usr/bin/env python3
"""Create a self-test variant patch: mkvar.py <Cnn> <name> '<expect...>' <relative file> '<old>' '<new>' [more file old new]"""
import sys, os, subprocess, tempfile, shutil
prop, name, expect = sys.argv[1:4]
edits = sys.argv[4:]
root = os.environ.get('LPV_ROOT', '/repo')
d = tempfile.mkdtemp(dir='/var/tmp')
try:
    for sub in ('a', 'b'):
        for s in ('src', 'include'):
            shutil.copytree(os.path.join(root, s), os.path.join(d, sub, s))
    for i in range(0, len(edits), 3):
        f, old, new = edits[i:i + 3]
        p = os.path.join(d, 'b', f)
        t = open(p).read()
        if t.count(old) != 1:
            sys.exit('pattern occurs %d times in %s: %r' % (t.count(old), f, old))
        open(p, 'w').write(t.replace(old, new))
    r = subprocess.run(['diff', '-ruN', 'a', 'b'], cwd=d, capture_output=True, text=True)
    out = os.path.join(os.path.dirname(os.path.dirname(os.path.abspath(__file__))), 'selftest', prop)
    os.makedirs(out, exist_ok=True)
    with open(os.path.join(out, name + '.patch'), 'w') as fh:
        for e in expect.split(';'):
            fh.write('# expect: %s\n' % e.strip())
        fh.write(r.stdout)
    print('wrote', os.path.join(out, name + '.patch'))
finally:
    shutil.rmtree(d)

"""Table of guarded entry points (C10; the shape subset is shared with C04.a).

Each instance: the entry point (public API name), the rows of the truth table (assignments to the input terms
that occur in comparisons) and the spec predicate "this request is meaningless" (True: must stop with a
diagnostic; False: must not stop at a shape-decidable guard; None: the statement is silent).
Input terms are named canonically (guards.TermKey): parameters by name, fields as this.<f>/<obj>.<f> (trivial
accessors M.Rows() are resolved to the field they return), container sizes as len(<obj>).
The table is frozen: it was written from the property statement and the public headers; its size is the floor.
"""
import math
from .guards import product_rows

L = 'libphysica::'
UMAX = 4294967295
U = [0, 1, 2, 3, 4, UMAX]          # unsigned index / dimension values
D = [0, 1, 2, 3, 4]                # dimensions
R = [-2.0, -1.0, -0.5, 0.0, 0.25, 0.5, 1.0, 1.5, 2.0, 101.0]
NAN = float('nan')


def unchecked_subscript(n):
    return n.get('k') == 'Index' and (n.get('q') or '').startswith('std::vector') and not n.get('inrepo')


def iterator_arith(n):
    return n.get('k') == 'Call' and n.get('kind') == 'op' and n.get('op') in ('+', '-') and \
        'iterator' in ((n.get('callee') or {}).get('q') or '')


def subscript_or_iter(n):
    return unchecked_subscript(n) or iterator_arith(n)


def call_to(*names):
    def p(n):
        return n.get('k') == 'Call' and (n.get('callee') or {}).get('name') in names
    return p


def any_of(*preds):
    return lambda n: any(p(n) for p in preds)


METHODS_1D = ["Trapezoidal", "Gauss-Legendre", "Gauss-Kronrod", "Tanh-Sinh", "Gauss-Legendre_2", "Adaptive-Simpson"]
METHODS_MC = ["Monte-Carlo", "Vegas", "Miser"]
NAMES = METHODS_1D + METHODS_MC + ["", "gauss-legendre", "Simpson", "Vegas ", "Boole"]


def shapes(**keys):
    return list(product_rows(**keys))


INSTANCES = [
    # ---- indices
    dict(id='Vector::operator[]', fn=L + 'Vector::operator[]', n=2, c04=False,
         rows=shapes(**{'i': U, 'this.dimension': U}), spec=lambda r: r['i'] >= r['this.dimension'],
         uses=unchecked_subscript, what='vector index outside the object'),
    dict(id='Matrix::operator[]', fn=L + 'Matrix::operator[]', n=2,
         rows=shapes(**{'i': U, 'this.rows': U}), spec=lambda r: r['i'] >= r['this.rows'],
         uses=unchecked_subscript, what='matrix row index outside the object'),
    dict(id='Matrix::Delete_Row', fn=L + 'Matrix::Delete_Row',
         rows=shapes(**{'row': U, 'this.rows': U}), spec=lambda r: r['row'] >= r['this.rows'], uses=subscript_or_iter),
    dict(id='Matrix::Delete_Column', fn=L + 'Matrix::Delete_Column',
         rows=shapes(**{'column': U, 'this.columns': U}), spec=lambda r: r['column'] >= r['this.columns'], uses=subscript_or_iter),
    dict(id='Matrix::Return_Row', fn=L + 'Matrix::Return_Row',
         rows=shapes(**{'row': U, 'this.rows': U}), spec=lambda r: r['row'] >= r['this.rows'], uses=subscript_or_iter),
    dict(id='Matrix::Return_Column', fn=L + 'Matrix::Return_Column',
         rows=shapes(**{'column': U, 'this.columns': U}), spec=lambda r: r['column'] >= r['this.columns'],
         uses=any_of(subscript_or_iter, call_to('Return_Row'))),
    # ---- shapes (C04.a)
    dict(id='Vector::Dot', fn=L + 'Vector::Dot', c04=True,
         rows=shapes(**{'this.dimension': D, 'rhs.dimension': D}), spec=lambda r: r['this.dimension'] != r['rhs.dimension'],
         uses=unchecked_subscript),
    dict(id='Vector::Cross', fn=L + 'Vector::Cross', c04=True,
         rows=shapes(**{'this.dimension': D, 'rhs.dimension': D}),
         spec=lambda r: r['this.dimension'] != 3 or r['rhs.dimension'] != 3, uses=unchecked_subscript,
         what='Cross on non-3-vectors (either operand)'),
    dict(id='Vector::operator+', fn=L + 'Vector::operator+', c04=True,
         rows=shapes(**{'this.dimension': D, 'v.dimension': D}), spec=lambda r: r['this.dimension'] != r['v.dimension'],
         uses=unchecked_subscript),
    dict(id='Vector::operator-', fn=L + 'Vector::operator-', c04=True,
         rows=shapes(**{'this.dimension': D, 'v.dimension': D}), spec=lambda r: r['this.dimension'] != r['v.dimension'],
         uses=unchecked_subscript),
    dict(id='Vector::operator+=', fn=L + 'Vector::operator+=', c04=True,
         rows=shapes(**{'this.dimension': D, 'v.dimension': D}), spec=lambda r: r['this.dimension'] != r['v.dimension'],
         uses=unchecked_subscript, what='non-conformable compound assignment'),
    dict(id='Vector::operator-=', fn=L + 'Vector::operator-=', c04=True,
         rows=shapes(**{'this.dimension': D, 'v.dimension': D}), spec=lambda r: r['this.dimension'] != r['v.dimension'],
         uses=unchecked_subscript, what='non-conformable compound assignment'),
] + [
    dict(id='Matrix::' + nm, fn=L + 'Matrix::' + nm, c04=True,
         rows=shapes(**{'this.rows': D[:4], 'this.columns': D[:4], 'M.rows': D[:4], 'M.columns': D[:4]}),
         spec=lambda r: r['this.rows'] != r['M.rows'] or r['this.columns'] != r['M.columns'],
         uses=unchecked_subscript, what='sum/difference defined iff shapes equal')
    for nm in ('Plus', 'Minus', 'operator+=', 'operator-=')
] + [
    dict(id='Matrix::Product(Matrix)', fn=L + 'Matrix::Product', sel=lambda f: 'Matrix' in f.params[0]['ty'], c04=True,
         rows=shapes(**{'this.rows': D[:4], 'this.columns': D[:4], 'M.rows': D[:4], 'M.columns': D[:4]}),
         spec=lambda r: r['this.columns'] != r['M.rows'], uses=unchecked_subscript),
    dict(id='Matrix::Product(Vector)', fn=L + 'Matrix::Product', sel=lambda f: 'Vector' in f.params[0]['ty'], c04=True,
         rows=shapes(**{'this.rows': D[:4], 'this.columns': D, 'v_rhs.dimension': D}),
         spec=lambda r: r['this.columns'] != r['v_rhs.dimension'], uses=unchecked_subscript),
    dict(id='operator*(Vector,Matrix)', fn=L + 'operator*', sel=lambda f: len(f.params) == 2 and 'Vector' in f.params[0]['ty'] and 'Matrix' in f.params[1]['ty'],
         c04=True, rows=shapes(**{'v_left.dimension': D, 'M.rows': D, 'M.columns': D[:4]}),
         spec=lambda r: r['v_left.dimension'] != r['M.rows'], uses=unchecked_subscript),
    dict(id='Matrix::Trace', fn=L + 'Matrix::Trace', c04=True,
         rows=shapes(**{'this.rows': D, 'this.columns': D}), spec=lambda r: r['this.rows'] != r['this.columns'],
         uses=unchecked_subscript),
    dict(id='Matrix::Determinant', fn=L + 'Matrix::Determinant',
         rows=shapes(**{'this.rows': D, 'this.columns': D}), spec=lambda r: r['this.rows'] != r['this.columns'],
         uses=unchecked_subscript),
    dict(id='Matrix::Inverse', fn=L + 'Matrix::Inverse',
         rows=shapes(**{'this.rows': D, 'this.columns': D}), spec=lambda r: r['this.rows'] != r['this.columns'],
         uses=unchecked_subscript,
         other=[('Invertible()', 'data-guard: singular matrix (C05.c)'), ('== 0', 'give-up: zero pivot (C05.a)')]),
    dict(id='Rotation_Matrix', fn=L + 'Rotation_Matrix',
         rows=shapes(**{'dim': [-1, 0, 1, 2, 3, 4, 5], 'axis.dimension': D}),
         spec=lambda r: r['dim'] not in (2, 3) or (r['dim'] == 3 and r['axis.dimension'] != 3), uses=None),
    # ---- interpolation
    dict(id='Interpolation::Interpolation(lists)', fn=L + 'Interpolation::Interpolation', n=4,
         rows=shapes(**{'len(arg_values)': D, 'len(func_values)': D}),
         spec=lambda r: r['len(arg_values)'] != r['len(func_values)'] or r['len(arg_values)'] < 3,
         uses=any_of(unchecked_subscript, call_to('Compute_Steffen_Coefficients')), ctor=True,
         other=[('loop', 'loop-guard: strictly increasing abscissae')], what='tables that are too short or of unequal length'),
    dict(id='Interpolation::Local_Minimum', fn=L + 'Interpolation::Local_Minimum',
         rows=shapes(**{'x_1': R, 'x_2': R}), spec=lambda r: r['x_2'] < r['x_1'], uses=iterator_arith),
    dict(id='Interpolation::Local_Maximum', fn=L + 'Interpolation::Local_Maximum',
         rows=shapes(**{'x_1': R, 'x_2': R}), spec=lambda r: r['x_2'] < r['x_1'], uses=iterator_arith),
    dict(id='Interpolation_2D::Interpolation_2D(lists)', fn=L + 'Interpolation_2D::Interpolation_2D', n=6,
         rows=shapes(**{'len(x_val)': D, 'len(y_val)': D, 'len(func_values)': D}),
         spec=lambda r: r['len(func_values)'] != r['len(x_val)'], uses=unchecked_subscript, ctor=True,
         other=[('loop', 'loop-guard: every grid row has len(y) entries')], what='ragged / mis-shaped 2D grid'),
    # ---- root finding
    dict(id='Find_Root', fn=L + 'Find_Root',
         rows=shapes(**{'func(xLeft)': [-1.0, 0.0, 2.0, NAN], 'func(xRight)': [-3.0, 0.0, 1.0, NAN]}),
         spec=lambda r: (math.isnan(r['func(xLeft)']) or math.isnan(r['func(xRight)'])) or
         (r['func(xLeft)'] * r['func(xRight)'] > 0), uses=None,
         other=[('loop', 'give-up: Ridder iteration lost the bracket')], what='bracket without sign change / NaN ends'),
    # ---- integration
    dict(id='Integrate(method)', fn=L + 'Integrate', sel=lambda f: any('method' == p['name'] for p in f.params),
         rows=[dict(method=m, a=0.0, b=1.0) for m in NAMES] + [dict(method=m, a=1.0, b=1.0) for m in NAMES],
         spec=lambda r: r['method'] not in METHODS_1D, uses=None),
    dict(id='Integrate_2D', fn=L + 'Integrate_2D',
         rows=[dict(method=m) for m in NAMES], spec=lambda r: r['method'] not in METHODS_1D + METHODS_MC, uses=None),
    dict(id='Integrate_3D', fn=L + 'Integrate_3D', sel=lambda f: len(f.params) == 9 and 'Vector' not in f.params[0]['ty'],
         rows=[dict(method=m) for m in NAMES], spec=lambda r: r['method'] not in METHODS_1D + METHODS_MC, uses=None),
    dict(id='Integrate_MC', fn=L + 'Integrate_MC',
         rows=[dict(method=m) for m in NAMES], spec=lambda r: r['method'] not in METHODS_MC, uses=None),
    dict(id='Integrate_Gauss_Legendre(values)', fn=L + 'Integrate_Gauss_Legendre',
         sel=lambda f: f.params[0]['ty'].startswith('std::vector'),
         rows=shapes(**{'len(function_values)': D, 'len(roots_and_weights)': D}),
         spec=lambda r: r['len(function_values)'] != r['len(roots_and_weights)'], uses=unchecked_subscript,
         other=[('loop', 'loop-guard: every row of the rule table holds a root and a weight')]),
    # ---- distributions, samplers, likelihoods
    dict(id='PMF_Binomial', fn=L + 'PMF_Binomial', rows=shapes(p=R), spec=lambda r: r['p'] < 0 or r['p'] > 1, uses=None),
    dict(id='CDF_Binomial', fn=L + 'CDF_Binomial', rows=shapes(p=R), spec=lambda r: r['p'] < 0 or r['p'] > 1, uses=None),
    dict(id='PMF_Poisson', fn=L + 'PMF_Poisson', rows=shapes(expected_events=R, events=U), spec=lambda r: r['expected_events'] < 0, uses=None),
    dict(id='CDF_Poisson', fn=L + 'CDF_Poisson', rows=shapes(expectation_value=R, observed_events=U), spec=lambda r: r['expectation_value'] < 0, uses=None),
    dict(id='Inv_CDF_Poisson', fn=L + 'Inv_CDF_Poisson', rows=shapes(cdf=R, observed_events=U), spec=lambda r: r['cdf'] < 0 or r['cdf'] > 1, uses=None),
    dict(id='PDF_Exponential', fn=L + 'PDF_Exponential', rows=shapes(mean=R, x=R), spec=lambda r: r['mean'] <= 0, uses=None),
    dict(id='CDF_Exponential', fn=L + 'CDF_Exponential', rows=shapes(mean=R, x=R), spec=lambda r: r['mean'] <= 0, uses=None),
    dict(id='PDF_Maxwell_Boltzmann', fn=L + 'PDF_Maxwell_Boltzmann', rows=shapes(a=R, x=R), spec=lambda r: r['a'] <= 0, uses=None),
    dict(id='CDF_Maxwell_Boltzmann', fn=L + 'CDF_Maxwell_Boltzmann', rows=shapes(a=R, x=R), spec=lambda r: r['a'] <= 0, uses=None),
    dict(id='Log_Likelihood_Poisson_Binned', fn=L + 'Log_Likelihood_Poisson_Binned',
         rows=shapes(**{'len(N_prediction_binned)': D, 'len(N_observed_binned)': D, 'len(expected_background_binned)': [1, 2, 3, 4]}),
         spec=lambda r: not (r['len(N_prediction_binned)'] == r['len(N_observed_binned)'] == r['len(expected_background_binned)']),
         uses=unchecked_subscript, what='mismatched list lengths'),
    dict(id='Sample_Metropolis', fn=L + 'Sample_Metropolis', rows=shapes(**{'len(domain)': D + [5]}),
         spec=lambda r: r['len(domain)'] not in (0, 2), uses=unchecked_subscript),
    dict(id='Sample_Metropolis_2D', fn=L + 'Sample_Metropolis_2D', rows=shapes(**{'len(domain)': D + [5]}),
         spec=lambda r: r['len(domain)'] not in (0, 4), uses=unchecked_subscript),
    # ---- special functions
    dict(id='Factorial', fn=L + 'Factorial', rows=shapes(n=[0, 1, 169, 170, 171, 172, UMAX]), spec=lambda r: r['n'] > 170,
         uses=unchecked_subscript, what='Factorial beyond 170'),
    dict(id='Binomial_Coefficient', fn=L + 'Binomial_Coefficient', rows=shapes(n=[-2, -1, 0, 1, 5, 171], k=[-2, -1, 0, 1, 5, 171]),
         spec=lambda r: r['n'] < 0 or r['k'] < 0, uses=None),
    dict(id='GammaLn', fn=L + 'GammaLn', rows=shapes(x=R), spec=lambda r: r['x'] <= 0, uses=None),
    dict(id='GammaQ', fn=L + 'GammaQ', rows=shapes(x=R, a=R), spec=lambda r: r['x'] < 0 or r['a'] <= 0, uses=None),
    dict(id='Inv_GammaP', fn=L + 'Inv_GammaP', rows=shapes(p=R, a=R), spec=lambda r: r['a'] <= 0, uses=None),
    dict(id='Inv_Erf', fn=L + 'Inv_Erf', rows=shapes(p=[-2.0, -1.0, -0.999, 0.0, 0.5, 0.999, 1.0, 1.5]),
         spec=lambda r: None if r['p'] == 1.0 else abs(r['p']) >= 1, uses=None),
    dict(id='Round', fn=L + 'Round', sel=lambda f: f.params[0]['ty'] == 'double',
         rows=shapes(N=[-1.5, 0.0, 2.0], digits=[0, 1, 7, 8, UMAX]),
         spec=lambda r: None if r['N'] == 0 else r['digits'] > 7, uses=None),
    dict(id='VSH_Y_Component', fn=L + 'VSH_Y_Component', switch=True,
         rows=shapes(component=[-1, 0, 1, 2, 3, 7]), spec=lambda r: r['component'] not in (0, 1, 2), uses=None),
    dict(id='VSH_Psi_Component', fn=L + 'VSH_Psi_Component', switch=True,
         rows=shapes(component=[-1, 0, 1, 2, 3, 7]), spec=lambda r: r['component'] not in (0, 1, 2), uses=None),
]

# Exit sites outside the truth tables: (function, substring of the rendered reach condition) -> class.
# 'loop-guard' = guard of a meaningless request evaluated per element; 'give-up' = algorithmic failure on a
# request that may be meaningful; 'environment' = depends on the file system; 'data-guard' = depends on values.
CLASSIFIED = [
    (L + 'Transpose_Lists', 'size()', 'loop-guard: ragged list of lists'),
    (L + 'Integrate_Gauss_Legendre', 'roots_and_weights[i].size()', 'loop-guard: every row of the rule table holds a root and a weight'),
    (L + 'Minimization::minimize', 'nfunc', 'give-up: Nelder-Mead evaluation cap'),
    (L + 'Minimization::minimize', 'EXISTS iteration', 'loop-guard: the points of the simplex have one dimension (ragged table)'),
    (L + 'Minimization::minimize', 'deltas.size()', 'data-guard: one step size per coordinate of the starting point (mismatched list lengths)'),
    (L + 'Minimization::minimize', 'deltas.empty()', 'data-guard: one step size per coordinate of the starting point (mismatched list lengths)'),
    (L + 'Minimization::minimize', 'pp.size()', 'data-guard: a simplex needs two points (tables that are too short)'),
    (L + 'Minimization::minimize', 'empty()', 'data-guard: a simplex without points (tables of length 0)'),
    (L + 'Integrate_MC_Vegas', 'isnan', 'give-up: integral became NaN'),
    (L + 'Matrix::Matrix', 'size() != columns', 'loop-guard: ragged matrix entries'),
    (L + 'Matrix::Matrix', 'valid_dimension', 'loop-guard: block dimensions'),
    (L + 'Eigenvalues', 'true', 'give-up: QR iteration cap'),
    (L + 'Eigenvalues', '!(EXISTS iteration', 'give-up: QR iteration cap'),
    (L + 'natural_units::In_Units', 'size()', 'loop-guard: row length vs number of units'),
    (L + 'Interpolation::Locate', 'domain', 'data-guard: argument outside the domain by more than the edge tolerance (own rule C10.e)'),
    (L + 'Interpolation::Interpolation', 'size() != 2', 'loop-guard: two-column table'),
    (L + 'Interpolation_2D::Interpolation_2D', 'size() != 3', 'loop-guard: three-column table'),
    (L + 'Interpolation_2D::Interpolation_2D', 'x.size() * y.size()', 'data-guard: grid is a full product'),
    (L + 'Interpolation_2D::Interpolation_2D', 'data_table[i]', 'loop-guard: table order'),
    (L + 'Brent::Minimize', 'true', 'give-up: Brent iteration cap'),
    (L + 'Brent::Minimize', '!(EXISTS iteration', 'give-up: Brent iteration cap'),
    (L + 'Rejection_Sampling', 'count % 1000', 'give-up: rejection sampling too inefficient'),
    (L + 'Rejection_Sampling', 'PDF(x) < 0.0', 'data-guard: PDF not a non-negative number'),
    (L + 'Rejection_Sampling', 'yMax', 'data-guard: PDF exceeds the envelope'),
    (L + 'Rejection_Sampling_2D', 'counter % 1000', 'give-up: rejection sampling too inefficient'),
    (L + 'Rejection_Sampling_2D', 'zMax', 'data-guard: PDF exceeds the envelope'),
    (L + 'Import_List', 'good()', 'environment: file missing'),
    (L + 'Import_Table', 'good()', 'environment: file missing'),
    (L + 'Export_Table', 'dimensions', 'loop-guard: row length vs number of units'),
    (L + 'Configuration::Read_Config_File', 'Caught', 'environment: configuration file'),
    (L + 'Configuration::Initialize_Result_Folder', 'Caught', 'environment: configuration file'),
    (L + 'Locate_Closest_Location', 'is_sorted', 'data-guard: list must be sorted'),
    (L + 'Check_For_Error', 'error_condition', 'wrapper: exits iff its condition parameter'),
]

"""C20 - exported data read back unchanged; units convert consistently in every build (structural clauses)."""
import os, re, struct, subprocess, tempfile, shutil
import sympy as sp
from sympy import Symbol, Function, S, Rational
from ..ir import (AnalysisBroken, Undecided, show, strip, strip_casts, walk_stmts, stmt_exprs, walk_expr, calls,
                  all_exprs, local_decls, make_generated, loop_container)
from ..symx import Symx, State, Arr, is_zero, return_cases, cond_atoms, strict_ranges, terms_at, enclosing_loops

L = 'libphysica::'
NU = L + 'natural_units::'
MANGLED = '_ZN10libphysica13natural_units'


# ----------------------------------------------------------------------------- C20.a exact values

class Units:
    def __init__(self, prog):
        self.prog = prog
        self.g = {g['name']: g for g in prog.globals if g['q'].startswith(NU) and g['file'].endswith('Natural_Units.cpp')}
        self.val = {}
        self.sx = Symx(prog, None)
        self.order = [g['name'] for g in prog.globals if g['q'].startswith(NU) and g['file'].endswith('Natural_Units.cpp')]

    def value(self, name, stack=()):
        if name in self.val:
            return self.val[name]
        if name in stack:
            raise Undecided('cyclic unit definition: %s' % (stack + (name,),))
        g = self.g.get(name)
        if g is None or g.get('init') is None:
            raise Undecided('unit constant %s has no initialiser' % name)
        units = self

        class SX(Symx):
            def global_value(self2, e):
                q = e.get('q', '')
                if q.startswith(NU):
                    return units.value(q[len(NU):], stack + (name,))
                return Symx.global_value(self2, e)
        sx = SX(self.prog, None)
        v = sx.sym(g['init'], State({}))
        self.val[name] = v
        return self.val[name]

    def deps(self, name):
        g = self.g[name]
        return [n['q'][len(NU):] for n in walk_expr(g['init']) if n.get('k') == 'Ref' and n.get('rk') == 'global' and n.get('q', '').startswith(NU)]


IDENTITIES = [
    ('Joule', lambda u: u('kg') * u('meter') ** 2 / u('sec') ** 2), ('Newton', lambda u: u('kg') * u('meter') / u('sec') ** 2),
    ('Watt', lambda u: u('Joule') / u('sec')), ('Pa', lambda u: u('Newton') / u('meter') ** 2),
    ('erg', lambda u: u('gram') * u('cm') ** 2 / u('sec') ** 2), ('erg', lambda u: Rational(1, 10 ** 7) * u('Joule')),
    ('dyne', lambda u: u('gram') * u('cm') / u('sec') ** 2), ('dyne', lambda u: Rational(1, 10 ** 5) * u('Newton')),
    ('barye', lambda u: Rational(1, 10) * u('Pa')), ('Joule', lambda u: u('Volt') * u('Coulomb')), ('Ohm', lambda u: u('Volt') / u('Ampere')),
    ('Siemens', lambda u: 1 / u('Ohm')), ('Farad', lambda u: u('Coulomb') / u('Volt')), ('Ampere', lambda u: u('Coulomb') / u('sec')),
    ('Tesla', lambda u: u('Newton') * u('sec') / (u('Coulomb') * u('meter'))), ('Gauss', lambda u: Rational(1, 10 ** 4) * u('Tesla')),
    ('Weber', lambda u: u('Tesla') * u('meter') ** 2), ('Hz', lambda u: 1 / u('sec')),
    ('ms', lambda u: u('sec') / 1000), ('ns', lambda u: u('sec') / 10 ** 9), ('minute', lambda u: 60 * u('sec')), ('hr', lambda u: 3600 * u('sec')),
    ('day', lambda u: 86400 * u('sec')), ('week', lambda u: 7 * 86400 * u('sec')), ('year', lambda u: Rational('365.25') * 86400 * u('sec')),
    ('mm', lambda u: u('meter') / 1000), ('cm', lambda u: u('meter') / 100), ('km', lambda u: 1000 * u('meter')), ('fm', lambda u: u('meter') / 10 ** 15),
    ('inch', lambda u: Rational('2.54') * u('cm')), ('foot', lambda u: 12 * u('inch')), ('yard', lambda u: 3 * u('foot')),
    ('mile', lambda u: Rational('1609.344') * u('meter')), ('Angstrom', lambda u: u('meter') / 10 ** 10),
    ('kg', lambda u: 1000 * u('gram')), ('tonne', lambda u: 1000 * u('kg')),
    ('meV', lambda u: u('GeV') / 10 ** 12), ('eV', lambda u: u('GeV') / 10 ** 9), ('keV', lambda u: u('GeV') / 10 ** 6), ('MeV', lambda u: u('GeV') / 1000),
    ('TeV', lambda u: 1000 * u('GeV')), ('PeV', lambda u: 10 ** 6 * u('GeV')),
    ('hPa', lambda u: 100 * u('Pa')), ('kPa', lambda u: 1000 * u('Pa')), ('bar', lambda u: 10 ** 5 * u('Pa')), ('cal', lambda u: Rational('4.184') * u('Joule')),
    ('arcmin', lambda u: u('deg') / 60), ('arcsec', lambda u: u('deg') / 3600), ('deg', lambda u: sp.pi / 180),
]
PREFIXES = {'yotta': 24, 'zetta': 21, 'exa': 18, 'peta': 15, 'tera': 12, 'giga': 9, 'mega': 6, 'kilo': 3, 'hecto': 2, 'deca': 1, 'deci': -1,
            'centi': -2, 'milli': -3, 'micro': -6, 'nano': -9, 'pico': -12, 'femto': -15, 'atto': -18, 'zepto': -21, 'yocto': -24}


def check(prog, ctx):
    ctx.rule('C20.a', 'defining identities by exact constant propagation over the initialiser DAG of Natural_Units.cpp (literals as exact decimals): '
             'Joule=kg m^2/s^2, Newton, Watt, Pa, erg, dyne, barye, Volt*Coulomb=Joule, Ohm, Siemens, Farad, Ampere, Tesla, Gauss, Weber, Hz, time/length/'
             'mass/energy ladders, SI prefixes', 60)
    ctx.rule('C20.b', 'start-up order in every configured build (g++ and clang++; -O0 quick, also -O2 thorough): in the compiled start-up sequence every '
             'unit symbol loaded by a dynamic initialiser is constant-initialised or stored earlier; constant-initialised symbols carry the exact value '
             '(to a few ulps); no other TU initialises a namespace-scope object from a unit constant', 3)
    ctx.rule('C20.c', 'In_Units: scalar form is quantity/dimension (Round(.,digits) when asked); every container overload applies the scalar form '
             'element-wise with the matching dimension and forwards round and digits', 6)
    ctx.rule('C20.d', 'writer and reader agree: Export_Table streams In_Units(data[l][c], dim(c)) as a double, Import_Table returns token*dim(j) with the same '
             'column<->unit map (1 when no units are given); Export_List/Import_List likewise; one header line iff the header is non-empty; the reader skips '
             'exactly ignored_initial_lines lines; Export_Function is Export_Table of {x, f(x)} rows', 6)
    ctx.sub('units', units, prog, ctx)
    ctx.sub('startup', startup, prog, ctx)
    ctx.sub('in_units', in_units, prog, ctx)
    ctx.sub('io', io, prog, ctx)


def units(prog, ctx):
    U = Units(prog)
    if len(U.g) < 100:
        raise AnalysisBroken('expected more than 100 unit constants in Natural_Units.cpp, found %d' % len(U.g))
    anchor = prog.globals and [g for g in prog.globals if g['name'] == 'GeV'][0]

    class W:
        file = anchor['file']
        line = anchor['l']
        sig = 'Natural_Units.cpp:constants'
    fnobj = W()
    u = lambda n: U.value(n)
    for name, rhs in IDENTITIES:
        try:
            lhs = u(name)
            want = rhs(u)
            ok = sp.simplify(lhs - want) == 0
            ctx.decide('C20.a', 'identity:%s#%d' % (name, [i for i, (n, _r) in enumerate(IDENTITIES) if n == name].index(IDENTITIES.index((name, rhs)))), fnobj, ok,
                       '%s equals its defining product exactly' % name,
                       '%s = %s differs from its defining product %s (ratio %s)' % (name, sp.N(lhs, 12), sp.N(want, 12), sp.N(lhs / want, 15)),
                       witness={'value': str(lhs), 'expected': str(want)} if not ok else None, line=U.g[name]['l'])
        except (Undecided, KeyError) as e:
            ctx.undecided('C20.a', 'identity:%s' % name, fnobj, str(e))
    for name, exp in PREFIXES.items():
        try:
            ok = u(name) == Rational(10) ** exp
            ctx.decide('C20.a', 'prefix:' + name, fnobj, ok, '%s = 1e%d' % (name, exp), '%s = %s' % (name, u(name)), line=U.g[name]['l'])
        except (Undecided, KeyError) as e:
            ctx.undecided('C20.a', 'prefix:' + name, fnobj, str(e))
    ctx.units = U


# ----------------------------------------------------------------------------- C20.b start-up sequences

def demangle_unit(sym):
    m = re.match(MANGLED + r'(\d+)(\w+?)E$', sym)
    if not m:
        return None
    n = int(m.group(1))
    return m.group(2)[:n]


def compile_artefact(root, scratch, compiler, opt):
    gen = make_generated(root, scratch)
    src = os.path.join(root, 'src', 'Natural_Units.cpp')
    out = os.path.join(scratch, 'nu_%s_%s' % (os.path.basename(compiler), opt.strip('-')))
    flags = ['-std=c++14', '-I' + os.path.join(root, 'include'), '-I' + gen, '-I' + os.path.join(root, 'src'), opt, '-w']
    if 'clang' in compiler:
        cmd = [compiler] + flags + ['-S', '-emit-llvm', src, '-o', out + '.ll']
        out += '.ll'
    else:
        cmd = [compiler] + flags + ['-S', src, '-o', out + '.s']
        out += '.s'
    r = subprocess.run(cmd, capture_output=True, text=True)
    if r.returncode != 0:
        raise AnalysisBroken('%s failed: %s' % (' '.join(cmd), r.stderr[-500:]))
    return open(out).read()


def parse_llvm(text):
    """-> (static values {unit: float or None}, sequence [(op, unit)])"""
    static = {}
    for m in re.finditer(r'^@(' + MANGLED + r'\w+) = (?:[\w()]+ )*?(constant|global) double ([^,]+),', text, re.M):
        nm = demangle_unit(m.group(1))
        v = m.group(3).strip()
        if v.startswith('0x'):
            val = struct.unpack('>d', bytes.fromhex(v[2:].rjust(16, '0')))[0]
        else:
            val = float(v)
        static[nm] = (m.group(2), val)
    funcs = {}
    for m in re.finditer(r'^define [^@]*@([\w.$]+)\([^)]*\)[^{]*\{\n(.*?)^\}', text, re.M | re.S):
        funcs[m.group(1)] = m.group(2)
    seq = []

    def walk(fname, depth=0):
        body = funcs.get(fname)
        if body is None or depth > 4:
            return
        for line in body.splitlines():
            c = re.search(r'call void @(__cxx_global_var_init[\w.]*)\(\)', line)
            if c:
                walk(c.group(1), depth + 1)
                continue
            ld = re.search(r'load double, double\* @(' + MANGLED + r'\w+)', line) or re.search(r'load double, ptr @(' + MANGLED + r'\w+)', line)
            if ld:
                seq.append(('load', demangle_unit(ld.group(1))))
            sd = re.search(r'store double [^,]+, double\* @(' + MANGLED + r'\w+)', line) or re.search(r'store double [^,]+, ptr @(' + MANGLED + r'\w+)', line)
            if sd:
                seq.append(('store', demangle_unit(sd.group(1))))
    entry = [f for f in funcs if f.startswith('_GLOBAL__sub_I_')]
    for e in entry:
        walk(e)
    return static, seq, bool(entry)


def parse_gas(text):
    static = {}
    lines = text.splitlines()
    i = 0
    cur = None
    section = ''
    while i < len(lines):
        ln = lines[i].strip()
        if ln.startswith('.section') or ln in ('.data', '.bss', '.text') or ln.startswith('.text'):
            section = ln
        m = re.match(r'(' + MANGLED + r'\w+):$', ln)
        if m:
            nm = demangle_unit(m.group(1))
            nxt = [x.strip() for x in lines[i + 1:i + 3]]
            if nxt and nxt[0].startswith('.long') and len(nxt) > 1 and nxt[1].startswith('.long'):
                lo = int(nxt[0].split()[1]) & 0xffffffff
                hi = int(nxt[1].split()[1]) & 0xffffffff
                static[nm] = ('constant', struct.unpack('<d', struct.pack('<II', lo, hi))[0])
            elif nxt and nxt[0].startswith('.zero'):
                static[nm] = ('global', 0.0)
            elif nxt and nxt[0].startswith('.quad'):
                static[nm] = ('constant', struct.unpack('<d', struct.pack('<Q', int(nxt[0].split()[1]) & (2 ** 64 - 1)))[0])
        i += 1
    # start-up functions
    funcs = {}
    cur = None
    for ln in lines:
        m = re.match(r'^([\w.$]+):', ln)
        if m and not ln.startswith('.L'):
            cur = m.group(1)
            funcs[cur] = []
        elif cur is not None:
            funcs[cur].append(ln.strip())
    seq = []

    def walk(fname, depth=0):
        for ins in funcs.get(fname, []):
            c = re.match(r'(?:call|jmp)\s+([\w.$]+)', ins)
            if c and c.group(1).startswith('_Z41__static_initialization_and_destruction_0') and depth < 3:
                walk(c.group(1), depth + 1)
                continue
            m = re.search(r'(' + MANGLED + r'\w+)\(%rip\)', ins)
            if not m:
                continue
            unit = demangle_unit(m.group(1))
            ops = ins.split(None, 1)[1] if len(ins.split(None, 1)) > 1 else ''
            parts = [p.strip() for p in ops.split(',')]
            if parts and MANGLED in parts[-1] and len(parts) >= 2:
                seq.append(('store', unit))
            else:
                seq.append(('load', unit))
    entry = [f for f in funcs if f.startswith('_GLOBAL__sub_I_')]
    for e in entry:
        walk(e)
    return static, seq, bool(entry)


def startup(prog, ctx):
    R = 'C20.b'
    U = getattr(ctx, 'units', None) or Units(prog)
    configs = [('g++', '-O0'), ('clang++', '-O0')]
    if ctx.tier == 'thorough':
        configs += [('g++', '-O2'), ('clang++', '-O2')]
    scratch = tempfile.mkdtemp(prefix='lpv-c20-', dir=os.environ.get('TMPDIR', '/var/tmp'))

    class W:
        file = os.path.join(prog.root, 'src', 'Natural_Units.cpp')
        line = 1
        sig = 'Natural_Units.cpp:startup'
    fnobj = W()
    try:
        for comp, opt in configs:
            inst = 'startup:%s%s' % (comp, opt)
            try:
                text = compile_artefact(prog.root, scratch, comp, opt)
            except AnalysisBroken as e:
                ctx.undecided(R, inst, fnobj, str(e))
                continue
            static, seq, has_entry = (parse_llvm if 'clang' in comp else parse_gas)(text)
            dyn = [u for op, u in seq if op == 'store']
            if len(static) < 100:
                ctx.undecided(R, inst, fnobj, 'only %d unit symbols found in the artefact' % len(static))
                continue
            stored = set()
            bad = []
            for op, u in seq:
                if op == 'store':
                    stored.add(u)
                elif u in dyn and u not in stored:
                    # which initialiser reads it: the next store
                    idx = seq.index((op, u))
                    nxt = next((x for o_, x in seq[idx:] if o_ == 'store'), '?')
                    bad.append('%s is read (for %s) before its own dynamic initialisation has run' % (u, nxt))
            # zero-valued "constants" that are never stored would be uninitialised reads as well
            zero_unstored = [u for u, (kind, val) in static.items() if val == 0.0 and u not in dyn]
            for u in zero_unstored:
                bad.append('%s is emitted as 0 and never initialised at start-up' % u)
            # exact values of the constant-initialised symbols
            wrong = []
            for u, (kind, val) in static.items():
                if u in dyn or u not in U.g:
                    continue
                try:
                    exact = float(sp.N(U.value(u), 30))
                except (Undecided, TypeError):
                    continue
                if exact != 0 and abs(val - exact) > 4e-15 * abs(exact):   # a few ulps: the compiler folds a chain of rounded operations
                    wrong.append('%s = %r, exact %r' % (u, val, exact))
            ok = not bad and not wrong
            ctx.decide(R, inst, fnobj, ok,
                       '%d constants: %d constant-initialised with exact values, %d dynamically initialised %s in an order that only reads initialised symbols'
                       % (len(static), len(static) - len(set(dyn)), len(set(dyn)), sorted(set(dyn))),
                       '; '.join((bad + wrong)[:4]), witness={'order_violations': bad[:6], 'wrong_values': wrong[:6], 'dynamic': sorted(set(dyn))} if not ok else None)
    finally:
        shutil.rmtree(scratch, ignore_errors=True)
    # other TUs must not initialise namespace-scope objects from unit constants
    cross = []
    for g in prog.globals:
        if g['file'].endswith('Natural_Units.cpp') or g.get('init') is None:
            continue
        for n in walk_expr(g['init']):
            if n.get('k') == 'Ref' and n.get('rk') == 'global' and n.get('q', '').startswith(NU):
                cross.append('%s (in %s) is initialised from %s' % (g['q'], os.path.basename(g['file']), n['q']))
    ctx.decide(R, 'no-cross-TU-initialisers', fnobj, not cross, 'no namespace-scope object of another translation unit is initialised from a unit constant',
               '; '.join(cross))


# ----------------------------------------------------------------------------- C20.c In_Units

def in_units(prog, ctx):
    R = 'C20.c'
    fns = prog.fns(NU + 'In_Units')
    if len(fns) != 6:
        raise AnalysisBroken('expected six In_Units overloads, found %d' % len(fns))
    scalar = [f for f in fns if f.params[0]['ty'] == 'double'][0]
    sx = Symx(prog, scalar)
    outs = sx.run()
    q, d = sx.symbol(scalar.params[0]['name'], 'double'), sx.symbol(scalar.params[1]['name'], 'double')
    rnd = sx.symbol(scalar.params[2]['name'], 'bool')
    dg = sx.symbol(scalar.params[3]['name'], 'int')
    rets = return_cases(outs)
    plain = [(c_, v_) for c_, v_ in rets if is_zero(v_ - q / d)]
    rounded = [(c_, v_) for c_, v_ in rets if isinstance(v_, sp.core.function.AppliedUndef) and v_.func.__name__ == L + 'Round'
               and is_zero(v_.args[0] - q / d) and v_.args[1] == dg]
    # rounding happens exactly when it is requested
    on = (sp.Ne(rnd, 0), sp.Eq(rnd, 1), rnd)
    ok = len(rets) == 2 and len(plain) == 1 and len(rounded) == 1 and any(a_ in on for a_ in cond_atoms(rounded[0][0])) \
        and not any(a_ in on for a_ in cond_atoms(plain[0][0]))
    ctx.decide(R, 'In_Units(scalar)', scalar, ok, 'quantity/dimension, or Round(quantity/dimension, digits) when rounding is requested',
               'scalar In_Units returns %s' % [(str(c_), str(v_)) for c_, v_ in rets])
    IU = Function(NU + 'In_Units', real=True)
    k_, l_ = sp.symbols('k l', integer=True)
    for f in fns:
        if f is scalar:
            continue
        ps = [p['name'] for p in f.params]
        ty = f.params[0]['ty']
        listdim = f.params[1]['ty'].startswith('std::vector')
        label = 'In_Units(%s,%s)' % (ty.replace('std::vector', 'vec').replace('libphysica::', '').replace('<double>', ''), 'list' if listdim else 'scalar')
        sxf = Symx(prog, f)
        qn, dn = ps[0], ps[1]
        rnd_f, dg_f = sxf.symbol(ps[2], 'bool'), sxf.symbol(ps[3], 'int')
        Qf = Function(qn, real=True)
        two = listdim or ty == L + 'Matrix'
        try:
            with strict_ranges():
                fouts = sxf.run()
                frets = [o for o in fouts if o.kind == 'return']
                if len(frets) > 1:
                    # shortcuts that hand the input back unchanged: right only where the conversion is the identity, i.e. the
                    # unit factor is 1 AND no rounding is requested
                    built = [o for o in frets if isinstance(o.value, Arr) and o.value.defs]
                    short = [o for o in frets if o not in built]
                    same_in = lambda v_: (isinstance(v_, sp.Symbol) and v_.name in (qn, 'arr:' + qn, 'obj:' + qn)) or (isinstance(v_, Arr) and v_.name == qn and not v_.defs)
                    if len(built) == 1 and short and all(same_in(o.value) for o in short):
                        dsym = sxf.symbol(dn, 'double')
                        badsc = []
                        for o in short:
                            ats_ = cond_atoms(o.cond)
                            unit_one = any(isinstance(a_, sp.Equality) and {a_.lhs, a_.rhs} == {dsym, sp.Integer(1)} or
                                           isinstance(a_, sp.Equality) and {a_.lhs, a_.rhs} == {dsym, sp.Float(1.0)} for a_ in ats_)
                            no_round = any(a_ in (sp.Eq(rnd_f, 0), sp.Not(rnd_f), sp.Ne(rnd_f, 1)) for a_ in ats_) or \
                                any(isinstance(a_, sp.Not) and a_.args[0] in (rnd_f, sp.Ne(rnd_f, 0)) for a_ in ([o.cond] + list(o.cond.args) if isinstance(o.cond, sp.And) else [o.cond]))
                            if not listdim and unit_one and not no_round:
                                badsc.append('under [%s] the input is returned as it is, also when rounding is requested' % str(o.cond)[:80])
                            elif not (unit_one and no_round):
                                raise Undecided('a path returns the input container under %s' % str(o.cond)[:80])
                        if badsc:
                            ctx.violated(R, label, f, 'the overloads disagree: ' + '; '.join(badsc) + ' (the scalar overload rounds Round(q/1, digits))',
                                         witness={'reproducer': 'In_Units(list, 1.0 /* GeV */, true, 3) returns unrounded values'})
                            continue
                        frets = built
                if len(frets) != 1 or not isinstance(frets[0].value, Arr):
                    raise Undecided('not a single path returning a container built element by element')
                res = frets[0].value
                got = res.read((k_, l_)) if two else res.read((k_,))
        except Undecided as ex_:
            ctx.undecided(R, label, f, 'conversion loop outside the understood fragment: %s' % ex_)
            continue
        dim_t = Function(dn, real=True)(l_) if listdim else sxf.symbol(dn, 'double')
        want = IU(Qf(k_, l_) if two else Qf(k_), dim_t, rnd_f, dg_f)
        probs = []
        piece = got.args[0] if isinstance(got, sp.Piecewise) else (got, sp.true)
        val, cnd = piece
        if val != want:
            inner_ = [a_ for a_ in (val.atoms(sp.core.function.AppliedUndef) if isinstance(val, sp.Basic) else []) if a_.func == IU]
            if len(inner_) == 1 and val == inner_[0]:
                ia = inner_[0].args
                if ia[0] != want.args[0]:
                    probs.append('element argument is %s, expected %s' % (ia[0], want.args[0]))
                if len(ia) > 1 and ia[1] != want.args[1]:
                    probs.append('dimension argument is %s, expected %s' % (ia[1], want.args[1]))
                if tuple(ia[2:]) != (rnd_f, dg_f):
                    probs.append('round/digits are not forwarded: %s' % [str(x_) for x_ in ia[2:]])
            else:
                probs.append('element (%s) of the result is %s, expected %s' % ('k,l' if two else 'k', val, want))
        # every element of the input is converted: the index ranges start at 0 and end at the container's own size
        ats = cond_atoms(cnd) if cnd not in (True, sp.true) else []
        sizes = {str(sp.Symbol('len(%s)' % qn)), qn + '.dimension', qn + '.rows', qn + '.columns', 'len(%s[i])' % qn, 'len(%s)' % dn}
        for var_ in ((k_, l_) if two else (k_,)):
            lo_ok = sp.Ge(var_, 0) in ats
            hi = [a_ for a_ in ats if isinstance(a_, sp.StrictLessThan) and a_.lhs == var_]
            if not lo_ok or len(hi) != 1 or str(hi[0].rhs) not in sizes:
                probs.append('index %s runs over %s, not over the whole container' % (var_, [str(a_) for a_ in ats if a_.has(var_)]))
        ctx.decide(R, label, f, not probs, 'element-wise: result[k%s] = In_Units(%s[k%s], %s, round, digits) for every element' % (',l' if two else '', qn, ',l' if two else '', dim_t),
                   '; '.join(probs), witness={'element': str(val)[:300]} if probs else None, form=str(got)[:300])


# ----------------------------------------------------------------------------- C20.d writer / reader

def stream_operands(prog, fn, stream_name):
    """Operands streamed into `stream_name` with operator<<, in order: list of IR nodes."""
    out = []
    for s in walk_stmts(fn.body):
        if s['k'] != 'Expr':
            continue
        e = strip(s['e'])
        chain = []
        cur = e
        while cur.get('k') == 'Call' and cur.get('kind') == 'op' and cur.get('op') == '<<':
            chain.insert(0, cur['args'][1])
            cur = strip(cur['args'][0])
        if cur.get('k') == 'Ref' and cur.get('name') == stream_name and chain:
            out.append((s, chain))
    return out


def io(prog, ctx):
    R = 'C20.d'
    et = prog.fn(L + 'Export_Table')
    ps = [p['name'] for p in et.params]          # filepath, data, dimensions, header
    streams = [d['name'] for d in local_decls(et) if 'ofstream' in d['ty']]
    probs = []
    if len(streams) != 1:
        ctx.undecided(R, 'Export_Table', et, 'output stream not found')
    else:
        ops = stream_operands(prog, et, streams[0])
        vals = []
        for s, chain in ops:
            for o in chain:
                o = strip_casts(o)
                if o.get('k') == 'Call' and (o.get('callee') or {}).get('q') == NU + 'In_Units':
                    vals.append(o)
        allu = [c for c in calls(et) if (c.get('callee') or {}).get('q') == NU + 'In_Units']
        if len(allu) != 1 or len(vals) != 1:
            probs.append('the converted value is not streamed directly as a double (In_Units calls: %d, streamed: %d): formatting through another '
                         'conversion changes the number of significant digits' % (len(allu), len(vals)))
        else:
            # the streamed element and its unit, as terms in the state inside the two loops
            stm_ = [s_ for s_, chain in ops if any(strip_casts(o) is vals[0] for o in chain)][0]
            try:
                sxe, res = terms_at(prog, et, stm_, vals[0]['args'][:2])
                loops = enclosing_loops(et, stm_)
                if len(res) != 1 or len(loops) != 2:
                    raise Undecided('%d states reach the output statement inside %d loops' % (len(res), len(loops)))
                st_, (elem, unit) = res[0]
                cls_ = [sxe.counted(l_, st_) for l_ in loops]
                if not all(cls_):
                    raise Undecided('output loops are not counted loops')
                lsym, csym = [sp.Symbol(c_[0]['name'] + '_', integer=True) for c_ in cls_]
                D, U = Function(ps[1], real=True), Function(ps[2], real=True)
                nU = sp.Symbol('len(%s)' % ps[2], integer=True, nonnegative=True)
                if elem != D(lsym, csym):
                    probs.append('streamed element is %s' % elem)
                want_u = (sp.Piecewise((1, sp.Eq(nU, 0)), (U(csym), True)), sp.Piecewise((U(csym), sp.Ne(nU, 0)), (1, True)))
                if not any(unit == w_ or sp.simplify(unit - w_) == 0 for w_ in want_u):
                    probs.append('unit of column c is %s, expected dimensions.empty() ? 1 : dimensions[c]' % unit)
                if not (cls_[0][1] == 0 and str(cls_[0][2]) == 'len(%s)' % ps[1] and cls_[1][1] == 0 and str(cls_[1][2]) in ('len(%s[%s])' % (ps[1], cls_[0][0]['name']),)):
                    probs.append('the output loops run over [%s,%s) x [%s,%s), not over every element of the table' % (cls_[0][1], cls_[0][2], cls_[1][1], cls_[1][2]))
            except Undecided as ex_:
                probs.append('?' + str(ex_))
        hdr = [s for s in walk_stmts(et.body) if s['k'] == 'If' and show(s['cond']).replace(' ', '') in ('%s.length()>0' % ps[3], '!%s.empty()' % ps[3], '%s.size()>0' % ps[3])]
        if len(hdr) != 1:
            probs.append('header line is not written exactly when the header is non-empty')
        if probs and all(p_.startswith('?') for p_ in probs):
            ctx.undecided(R, 'Export_Table', et, 'output loops outside the understood fragment: ' + '; '.join(p_[1:] for p_ in probs))
        else:
            ctx.decide(R, 'Export_Table', et, not probs, 'streams In_Units(data[l][c], dim(c)) as doubles; one header line iff header non-empty', '; '.join(p_.lstrip('?') for p_ in probs),
                       witness={'reproducer': 'values below 0.1 in the export unit lose digits (0.00123456 -> 0.001235, 1e-10 -> 0)'} if probs else None)
    it = prog.fn(L + 'Import_Table')
    ps = [p['name'] for p in it.params]          # filepath, dimensions, ignored_initial_lines
    probs = []
    asg = []
    for s_ in walk_stmts(it.body):
        if s_['k'] == 'Expr':
            e = strip(s_['e'])
            if e.get('k') == 'Bin' and e['op'] == '=' and strip_casts(e['lhs']).get('k') == 'Index' and strip_casts(strip_casts(e['lhs'])['base']).get('k') == 'Index':
                asg.append((s_, e))
    okv = False
    for s_, e in asg:
        try:
            inner = strip_casts(e['lhs'])
            outer = strip_casts(inner['base'])
            sxi, res = terms_at(prog, it, s_, [e['rhs'], outer['idx'], inner['idx']])
            if len(res) != 1:
                raise Undecided('%d states reach the element assignment' % len(res))
            rhs, ri, ci = res[0][1]
            U = Function(ps[1], real=True)
            nU = sp.Symbol('len(%s)' % ps[1], integer=True, nonnegative=True)
            unit = sp.Piecewise((1, sp.Eq(nU, 0)), (U(ci), True))
            toks = [a_ for a_ in rhs.atoms(sp.core.function.AppliedUndef) if a_.func != U]
            okv = len(toks) == 1 and len(toks[0].args) == 1 and (sp.simplify(rhs - unit * toks[0]) == 0 or rhs == unit * toks[0])
            if not okv:
                probs.append('imported element (%s,%s) is %s' % (ri, ci, rhs))
        except Undecided as ex_:
            probs.append('imported element not understood: %s' % ex_)
    if not asg:
        probs.append('element assignment not found')
    ign = [s for s in walk_stmts(it.body) if s['k'] == 'For' and show(s['cond']).replace(' ', '') == 'i<%s' % ps[2]
           and any((c.get('callee') or {}).get('name') == 'ignore' for c in calls(s))]
    if len(ign) != 1:
        probs.append('the reader does not skip exactly ignored_initial_lines lines')
    rows = [d for d in local_decls(it) if d['name'] == 'rows']
    cols = [d for d in local_decls(it) if d['name'] == 'columns']
    if not rows or show(rows[0]['init']).replace(' ', '') != 'Count_Lines(%s)-%s' % (ps[0], ps[2]):
        probs.append('row count is %s' % (show(rows[0]['init']) if rows else None))
    if not cols or show(cols[0]['init']).replace(' ', '') != 'data_aux.size()/rows':
        probs.append('column count is %s' % (show(cols[0]['init']) if cols else None))
    ctx.decide(R, 'Import_Table', it, not probs and okv, 'returns token*dim(j) with dim(j)=dimensions[j] or 1; rows = lines - skipped; columns = tokens/rows', '; '.join(probs))
    # the row count of the reader: Count_Lines counts every line that getline delivers (the writer emits exactly one per row)
    cl_ = prog.fn(L + 'Count_Lines')
    gl = [s_ for s_ in walk_stmts(cl_.body) if s_['k'] in ('While', 'For', 'Do') and s_.get('cond') is not None and
          any(n_.get('k') == 'Call' and (n_.get('callee') or {}).get('name') == 'getline' for n_ in walk_expr(s_['cond']))]
    okc = False
    detail = 'no getline loop found'
    if len(gl) == 1:
        rets_ = [s_ for s_ in walk_stmts(cl_.body) if s_['k'] == 'Return' and s_.get('e') is not None]
        cid = strip_casts(rets_[-1]['e']).get('id') if rets_ else None
        incs = []
        for s_ in walk_stmts(gl[0]['body']):
            for e_ in stmt_exprs(s_):
                for n_ in walk_expr(e_):
                    if (n_.get('k') == 'Un' and n_.get('op') == '++' and strip(n_['e']).get('id') == cid) or \
                            (n_.get('k') == 'Bin' and n_.get('op') == '+=' and strip(n_['lhs']).get('id') == cid and strip_casts(n_['rhs']).get('v') == '1'):
                        incs.append(s_)
        cond_stmts = [s_ for s_ in walk_stmts(gl[0]['body']) if s_['k'] in ('If', 'Switch', 'For', 'While', 'Do')]
        okc = cid is not None and len(incs) == 1 and not cond_stmts and all(strip_casts(r_['e']).get('id') == cid for r_ in rets_)
        detail = 'counter increments: %d, conditional statements in the loop body: %d' % (len(incs), len(cond_stmts))
    ctx.decide(R, 'Count_Lines', cl_, okc, 'every line delivered by getline is counted once, unconditionally',
               'Count_Lines does not count every line (%s): the row count of Import_Table disagrees with the lines written by Export_Table' % detail)
    el = prog.fn(L + 'Export_List')
    ps = [p['name'] for p in el.params]
    streams = [d['name'] for d in local_decls(el) if 'ofstream' in d['ty']]
    okl = False
    if len(streams) == 1:
        vals = [strip_casts(o) for s, chain in stream_operands(prog, el, streams[0]) for o in chain
                if strip_casts(o).get('k') == 'Call' and (strip_casts(o).get('callee') or {}).get('q') == NU + 'In_Units']
        if len(vals) == 1:
            stm_ = [s_ for s_, chain in stream_operands(prog, el, streams[0]) if any(strip_casts(o) is vals[0] for o in chain)][0]
            try:
                sxl, res = terms_at(prog, el, stm_, vals[0]['args'][:2])
                loops = enclosing_loops(el, stm_)
                if len(res) == 1 and len(loops) == 1 and sxl.counted(loops[0], res[0][0]):
                    cl_ = sxl.counted(loops[0], res[0][0])
                    isym = sp.Symbol(cl_[0]['name'] + '_', integer=True)
                    okl = res[0][1][0] == Function(ps[1], real=True)(isym) and res[0][1][1] == sxl.symbol(ps[2], 'double') \
                        and cl_[1] == 0 and str(cl_[2]) == 'len(%s)' % ps[1]
            except Undecided:
                okl = False
    ctx.decide(R, 'Export_List', el, okl, 'streams In_Units(data[i], dimension) line by line', 'Export_List does not stream In_Units(data[i], dimension)')
    il = prog.fn(L + 'Import_List')
    ps = [p['name'] for p in il.params]
    pb = [c for c in calls(il) if c.get('kind') == 'method' and c['callee']['name'] == 'push_back']
    oki = len(pb) == 1 and show(strip_casts(pb[0]['args'][0])).replace(' ', '') in ('x*%s' % ps[1], '%s*x' % ps[1])
    ign = [s for s in walk_stmts(il.body) if s['k'] == 'For' and show(s['cond']).replace(' ', '') == 'i<%s' % ps[2]]
    ctx.decide(R, 'Import_List', il, oki and len(ign) == 1, 'returns token*dimension after skipping ignored_initial_lines lines', 'Import_List not recognised')
    # a header line is skipped as a whole only by an unbounded ignore(max, '\n') or by std::getline
    for rd in (il, prog.fn(L + 'Import_Table')):
        igs = [c for c in calls(rd) if c.get('kind') == 'method' and (c.get('callee') or {}).get('name') == 'ignore']
        gls = [c for c in calls(rd) if (c.get('callee') or {}).get('q') == 'std::getline']
        inst = rd.name + ':line-skip'
        if not igs and gls:
            ctx.holds(R, inst, rd, 'header lines are consumed with std::getline')
            continue
        if not igs:
            ctx.undecided(R, inst, rd, 'no ignore(...)/getline call found: how header lines are skipped is not understood')
            continue
        bounded = []
        for c in igs:
            a0 = strip_casts(c['args'][0]) if c.get('args') else None
            if a0 is not None and a0.get('k') == 'Lit' and a0.get('lk') == 'int':
                bounded.append(int(a0['v']))
            elif a0 is None or not (a0.get('k') == 'Call' and 'numeric_limits' in (a0.get('callee') or {}).get('q', '') and (a0.get('callee') or {}).get('name') == 'max'):
                bounded.append(None)
        if None in bounded:
            ctx.undecided(R, inst, rd, 'ignore() count is neither a literal nor numeric_limits<streamsize>::max()')
        else:
            ctx.decide(R, inst, rd, not bounded, 'header lines are skipped with an unbounded ignore(max, newline)',
                       'ignore(%s, newline) stops after %s characters even when no newline was seen: the rest of a longer header line is read as data '
                       '(a line of exactly that length makes the following header line data)' % (bounded[0] if bounded else '', bounded[0] if bounded else ''),
                       witness={'reproducer': 'Export_Table with a header line of 10001 characters, Import_Table with 1 ignored line: shape 2 x 0 instead of 2 x 2'} if bounded else None)
    efs = prog.fns(L + 'Export_Function')
    for f in efs:
        ps = [p['name'] for p in f.params]
        if f.params[2]['ty'].startswith('std::vector'):
            # the table handed to Export_Table, from the loop summary: row k = {x_list[k], func(x_list[k])}, one row per list element
            tab = [c for c in calls(f) if (c.get('callee') or {}).get('q') == L + 'Export_Table']
            okf = len(tab) == 1
            if okf:
                try:
                    sxf = Symx(prog, f)
                    fouts = sxf.run()
                except Undecided:
                    fouts = []
                okf = len(fouts) == 1
                if okf:
                    targs = [strip_casts(a) for a in tab[0]['args']]
                    dkey = sxf.lv_key(targs[1]) if targs[1].get('k') == 'Ref' else None
                    darr = fouts[0].state.env.get(dkey) if dkey is not None else None
                    kk_ = sp.Symbol('k', integer=True)
                    Xl = Function(ps[2], real=True)
                    okf = isinstance(darr, Arr) and darr.length == sp.Symbol('len(%s)' % ps[2], integer=True, nonnegative=True) \
                        and darr.read((kk_,)) == sp.Tuple(Xl(kk_), Function('F:' + ps[1], real=True)(Xl(kk_))) \
                        and [show(a).replace(' ', '') for a in (targs[0], targs[2], targs[3])] == [ps[0], ps[3], ps[4]]
            ctx.decide(R, 'Export_Function(list)', f, okf, 'Export_Table of the rows {x, f(x)} for every x of the list', 'Export_Function(list) not recognised')
        else:
            # one delegation to the list overload with the grid Log_Space/Linear_Space(xMin, xMax, steps) selected by `logarithmic`
            dl = [c for c in calls(f) if (c.get('callee') or {}).get('q') == L + 'Export_Function']
            okf = len(dl) == 1
            if okf:
                try:
                    sxr = Symx(prog, f)
                    routs = sxr.run()
                except Undecided:
                    routs = []
                okf = len(routs) in (1, 2) and all(o_.kind == 'end' or o_.kind == 'return' for o_ in routs)
                if okf:
                    a_ = dl[0]['args']
                    lo_, hi_, n_ = sxr.symbol(ps[2], 'double'), sxr.symbol(ps[3], 'double'), sxr.symbol(ps[4], 'unsigned int')
                    lg = sxr.symbol(ps[6], 'bool')
                    LS, LIN = Function(L + 'Log_Space', real=True)(lo_, hi_, n_), Function(L + 'Linear_Space', real=True)(lo_, hi_, n_)
                    cases = []
                    for o_ in routs:
                        g_ = sxr.sym_or_name(a_[2], o_.state)
                        if isinstance(g_, sp.Piecewise):
                            prev = sp.true
                            for val_, cnd_ in g_.args:
                                cases.append((sp.And(o_.cond, prev, cnd_) if cnd_ not in (True, sp.true) else sp.And(o_.cond, prev), val_))
                                if cnd_ not in (True, sp.true):
                                    prev = sp.And(prev, sp.Not(cnd_))
                        else:
                            cases.append((o_.cond, g_))
                    on = (sp.Ne(lg, 0), sp.Eq(lg, 1), lg)
                    off = (sp.Eq(lg, 0), sp.Not(lg))
                    okf = len(cases) == 2 and any(v_ == LS and any(x_ in on for x_ in cond_atoms(c_)) for c_, v_ in cases) \
                        and any(v_ == LIN and any(x_ in off for x_ in cond_atoms(c_)) for c_, v_ in cases) and \
                        [show(strip_casts(x_)).replace(' ', '') for x_ in (a_[0], a_[1], a_[3], a_[4])] == [ps[0], ps[1], ps[5], ps[7]]
            ctx.decide(R, 'Export_Function(range)', f, okf, 'tabulates on Linear_Space/Log_Space(xMin,xMax,steps) and delegates', 'Export_Function(range) not recognised')

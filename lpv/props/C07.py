"""C07 - density, CDF, quantile and likelihood are mutually coherent (symbolic wiring clauses)."""
import itertools
import sympy as sp
from sympy import Symbol, Function, S, Sum, oo
from ..ir import (AnalysisBroken, Undecided, show, strip, strip_casts, walk_stmts, stmt_exprs, walk_expr, calls,
                  all_exprs, local_decls)
from ..symx import Symx, State, Arr, is_zero, return_cases, cond_atoms

L = 'libphysica::'


def FN(n):
    return Function(L + n, real=True)


def paths(prog, name, nparams=None, **kw):
    fn = prog.fn(L + name, nparams)
    sx = Symx(prog, fn, **kw)
    return fn, sx, sx.run()


def mathify(t):
    """Replace the library's special functions by their mathematical meaning (wiring checked in C06.b/f)."""
    t = t.replace(FN('Gamma'), lambda z: sp.gamma(z))
    t = t.replace(FN('Lower_Incomplete_Gamma'), lambda x, s: sp.lowergamma(s, x))
    t = t.replace(FN('Upper_Incomplete_Gamma'), lambda x, s: sp.uppergamma(s, x))
    return t


def select(outs, sub):
    r = []
    for o in outs:
        try:
            c = o.cond.subs(sub)
            if c == S.true or sp.simplify(c) == S.true:
                r.append(o)
        except Exception:
            pass
    return r


def check(prog, ctx):
    ctx.rule('C07.a', 'continuous families: on the support d/dx CDF == PDF identically; the PDF vanishes exactly on the branches where the CDF is '
             'constant; the CDF tends to 0 and 1 at the ends of the support (uniform, normal, exponential, Maxwell-Boltzmann, chi-square)', 10)
    ctx.rule('C07.b', 'discrete wiring: CDF_Binomial is the sum of PMF_Binomial(trials,p,i), i=0..x; CDF_Poisson(mu,n) = max(GammaQ(mu,n+1),0); '
             'Inv_CDF_Poisson(n,c) = Inv_GammaQ(c,n+1) (n=0: -log c); PMF_Poisson = exp(n log mu - mu - sum_{i=2..n} log i)', 4)
    ctx.rule('C07.c', 'likelihoods: Log_Likelihood_Poisson(s,n,b) = n log(s+b) - sum_{j<=n} log j - (s+b); Likelihood = exp(Log_Likelihood); binned forms '
             'sum the single-bin form over bins with the three lists indexed by the same bin', 4)
    ctx.rule('C07.d', 'Quantile_Gauss inverts CDF_Gauss symbolically (erf(Inv_Erf(t)) = t)', 1)
    ctx.rule('C07.e', 'chi-bar mixtures: PDF and CDF sum weights[k]*{PDF,CDF}_Chi_Square(x,k) with the same index<->dof identification; the PDF may '
             'omit k=0 only because PDF_Chi_Square(x,0)=0', 2)
    ctx.rule('C07.f', 'KDE: the returned interpolant is multiplied by the reciprocal of its own integral over [xMin,xMax]', 1)
    ctx.rule('C07.g', 'dependency: the incomplete-gamma evaluator reached from CDF_Poisson/CDF_Chi_Square passes C06.a (Lentz term index) and its '
             'quadrature window never evaluates the integrand at negative abscissae and is clamped to [0,1] (C06.i, C06.l); PMF_Binomial inherits the form of '
             'Binomial_Coefficient (C06.e)', 2)
    ctx.sub('continuous', continuous, prog, ctx)
    ctx.sub('discrete', discrete, prog, ctx)
    ctx.sub('likelihoods', likelihoods, prog, ctx)
    ctx.sub('quantile', quantile, prog, ctx)
    ctx.sub('chibar', chibar, prog, ctx)
    ctx.sub('kde', kde, prog, ctx)
    ctx.sub('kde_scale', kde_scale, prog, ctx)
    ctx.sub('dependency', dependency, prog, ctx)


def continuous(prog, ctx):
    R = 'C07.a'
    fams = [
        ('Uniform', ['x', 'x_min', 'x_max'], {'x_min': 1, 'x_max': 4}, [0, 2.5, 5], ('x_min', 'x_max')),
        ('Gauss', ['x', 'mu', 'sigma'], {'mu': 1, 'sigma': 2}, [-3, 1, 6], (-oo, oo)),
        ('Exponential', ['x', 'mean'], {'mean': 2}, [-1, 0.5, 7], (0, oo)),
        ('Maxwell_Boltzmann', ['x', 'a'], {'a': 2}, [-1, 0.5, 7], (0, oo)),
        ('Chi_Square', ['x', 'dof'], {'dof': 3}, [-1, 0.5, 7], (0, oo)),
    ]
    for name, params, vals, xs, support in fams:
        fp, sxp, op = paths(prog, 'PDF_' + name)
        fc, sxc, oc = paths(prog, 'CDF_' + name)
        # parameters by position (the names in the family table are only labels)
        x = sxp.symbol(fp.params[0]['name'], 'double')
        syms = {n: sxp.symbol(fp.params[1 + i_]['name'], 'double') for i_, n in enumerate(params[1:])}
        sub0 = {syms[n]: v for n, v in vals.items()}
        # main branch: the path taken in the middle of the support
        mid = dict(sub0)
        mid[x] = xs[1]
        mp = [o for o in select(op, mid) if o.kind == 'return']
        mc = [o for o in select(oc, mid) if o.kind == 'return']
        if len(mp) != 1 or len(mc) != 1:
            ctx.undecided(R, name + ':derivative', fc, 'main branches not unique (%d, %d)' % (len(mp), len(mc)))
            continue
        pdf = mathify(mp[0].value)
        cdf = mathify(mc[0].value)
        resid = sp.simplify(sp.diff(cdf, x) - pdf)
        if resid != 0:
            resid = sp.simplify(sp.expand_func(resid).rewrite(sp.exp))
        posd = {syms[n]: Symbol(n, positive=True) for n in syms}
        if resid != 0:
            xp = Symbol('x', positive=True)
            r2 = sp.simplify(sp.powsimp(sp.expand((sp.diff(cdf, x) - pdf).subs(posd).subs(x, xp)), force=True))
            resid = r2
        ok = resid == 0
        ctx.decide(R, name + ':derivative', fc, ok, 'd/dx CDF_%s == PDF_%s on the support' % (name, name),
                   'd/dx CDF_%s - PDF_%s = %s' % (name, name, str(resid)[:200]), witness={'residual': str(resid)[:300]} if not ok else None,
                   form='pdf=%s; cdf=%s' % (str(pdf)[:150], str(cdf)[:150]))
        # branch consistency: PDF is 0 exactly where the CDF is constant
        bad = []
        for xv in xs:
            s2 = dict(sub0)
            s2[x] = xv
            a = [o for o in select(op, s2) if o.kind == 'return']
            b = [o for o in select(oc, s2) if o.kind == 'return']
            if len(a) != 1 or len(b) != 1:
                bad.append('x=%s: %d/%d paths' % (xv, len(a), len(b)))
                continue
            pv, cv = a[0].value, b[0].value
            const_c = cv in (0, 1)
            if (pv == 0) != const_c:
                bad.append('x=%s: PDF branch %s, CDF branch %s' % (xv, str(pv)[:40], str(cv)[:40]))
            if const_c and cv != (0 if xv == xs[0] else 1):
                bad.append('x=%s: CDF is %s' % (xv, cv))
        # limits at the support ends
        lo, hi = support
        lo = syms[lo] if isinstance(lo, str) else lo
        hi = syms[hi] if isinstance(hi, str) else hi
        try:
            # limits are taken at sample parameter values (sympy mis-evaluates erf limits with symbolic parameters)
            cpos = cdf.subs(sub0)
            xr = Symbol('xr', real=True)
            cpos = cpos.subs(x, xr)
            posd = sub0

            def lim(expr, pt):
                # lowergamma(s, g)/gamma(s): regularised P(s, g) -> 0 at g=0 and -> 1 at g=oo
                lg = [t for t in expr.atoms(sp.lowergamma)]
                if lg:
                    s_, g_ = lg[0].args
                    gl = sp.limit(g_, xr, pt)
                    val = sp.gamma(s_) if gl == oo else (0 if gl == 0 else None)
                    if val is not None:
                        return sp.simplify(expr.subs(lg[0], val))
                if pt in (oo, -oo):
                    v_ = expr.subs(xr, pt)
                    if v_.is_number and v_ != sp.nan:
                        return v_
                return sp.limit(expr, xr, pt)
            lo_pt = lo.subs(posd) if hasattr(lo, 'subs') else lo
            hi_pt = hi.subs(posd) if hasattr(hi, 'subs') else hi
            l0 = lim(cpos, lo_pt)
            l1 = lim(cpos, hi_pt)
            if sp.simplify(l0) != 0 or sp.simplify(l1 - 1) != 0:
                bad.append('CDF limits at the support ends are %s and %s' % (l0, l1))
        except Exception as e:
            bad.append('limits not computable: %s' % e)
        ctx.decide(R, name + ':branches-and-limits', fc, not bad, 'PDF vanishes exactly where the CDF is constant; CDF runs from 0 to 1 over the support', '; '.join(bad))


def discrete(prog, ctx):
    R = 'C07.b'
    fn, sx, outs = paths(prog, 'CDF_Binomial')
    tr, p, xx = sx.symbol(fn.params[0]['name'], 'unsigned int'), sx.symbol(fn.params[1]['name'], 'double'), sx.symbol(fn.params[2]['name'], 'unsigned int')
    rets = [o for o in outs if o.kind == 'return']
    ok = False
    v = None
    if len(rets) == 1:
        v = rets[0].value
        sums = list(v.atoms(sp.Sum)) if isinstance(v, sp.Basic) else []
        if len(sums) == 1 and is_zero(v - sums[0]):
            iv, lo, hi = sums[0].limits[0]
            ok = is_zero(sums[0].function - FN('PMF_Binomial')(tr, p, iv)) and lo == 0 and sp.simplify(hi - xx) == 0
    ctx.decide(R, 'CDF_Binomial', fn, ok, 'sum_{i=0}^{x} PMF_Binomial(trials,p,i)', 'CDF_Binomial returns %s' % v, form=str(v))
    fn, sx, outs = paths(prog, 'CDF_Poisson')
    mu, n = sx.symbol(fn.params[0]['name'], 'double'), sx.symbol(fn.params[1]['name'], 'unsigned int')
    gq = FN('GammaQ')(mu, n + 1)
    rets = return_cases(outs)
    pos = (sp.Ge(gq, 0), sp.Le(0, gq), sp.Gt(gq, 0), sp.Lt(0, gq))
    neg = (sp.Lt(gq, 0), sp.Gt(0, gq), sp.Le(gq, 0), sp.Ge(0, gq))
    ok = (len(rets) == 2 and any(v_ == gq and any(a_ in pos for a_ in cond_atoms(c_)) for c_, v_ in rets)
          and any(v_ == 0 and any(a_ in neg for a_ in cond_atoms(c_)) for c_, v_ in rets)) or \
         (len(rets) == 1 and rets[0][1] == sp.Max(0, gq))
    ctx.decide(R, 'CDF_Poisson', fn, ok, 'max(GammaQ(mu, n+1), 0)', 'CDF_Poisson returns %s' % [(str(c_)[-60:], str(v_)) for c_, v_ in rets])
    fn, sx, outs = paths(prog, 'Inv_CDF_Poisson')
    nn, c = sx.symbol(fn.params[0]['name'], 'unsigned int'), sx.symbol(fn.params[1]['name'], 'double')
    rets = [o for o in outs if o.kind == 'return']
    z = [o for o in rets if sp.Eq(nn, 0) in o.state.conds]
    g = [o for o in rets if sp.Ne(nn, 0) in o.state.conds]
    ok = len(z) == 1 and is_zero(z[0].value + sp.log(c)) and len(g) == 1 and g[0].value == FN('Inv_GammaQ')(c, nn + 1)
    ctx.decide(R, 'Inv_CDF_Poisson', fn, ok, 'Inv_GammaQ(cdf, n+1), and -log(cdf) for n=0', 'Inv_CDF_Poisson returns %s' % [str(o.value) for o in rets])
    fn, sx, outs = paths(prog, 'PMF_Poisson')
    mu, n = sx.symbol(fn.params[0]['name'], 'double'), sx.symbol(fn.params[1]['name'], 'unsigned int')
    main = [o for o in outs if o.kind == 'return' and o.value not in (0, 1)]
    ok = False
    v = None
    if len(main) == 1:
        v = main[0].value
        if isinstance(v, sp.exp):
            e = v.args[0]
            sums = list(e.atoms(sp.Sum))
            if len(sums) == 1:
                iv, lo, hi = sums[0].limits[0]
                rest = sp.expand(e - sums[0])
                ok = is_zero(rest - (n * sp.log(mu) - mu)) and is_zero(sums[0].function + sp.log(iv)) and lo == 2 and sp.simplify(hi - n) == 0
    ctx.decide(R, 'PMF_Poisson', fn, ok, 'exp(n log mu - mu - sum_{i=2}^{n} log i)', 'PMF_Poisson main branch is %s' % v, form=str(v))


def likelihoods(prog, ctx):
    R = 'C07.c'
    fn, sx, outs = paths(prog, 'Log_Likelihood_Poisson')
    s_, n_, b_ = sx.symbol(fn.params[0]['name'], 'double'), sx.symbol(fn.params[1]['name'], 'unsigned long'), sx.symbol(fn.params[2]['name'], 'double')
    rets = [o for o in outs if o.kind == 'return']
    ok = False
    v = None
    if len(rets) == 1:
        v = rets[0].value
        sums = list(v.atoms(sp.Sum))
        if len(sums) == 1:
            iv, lo, hi = sums[0].limits[0]
            coef = sp.Wild('coef')
            sgn = v.coeff(sums[0])
            rest = sp.expand(v - sgn * sums[0])
            ok = is_zero(rest - (n_ * sp.log(s_ + b_) - (s_ + b_))) and is_zero(sgn * sums[0].function + sp.log(iv)) and lo in (1, 2) and sp.simplify(hi - n_) == 0
    ctx.decide(R, 'Log_Likelihood_Poisson', fn, ok, 'n log(s+b) - sum_{j<=n} log j - (s+b) = log PMF_Poisson(s+b, n)', 'Log_Likelihood_Poisson returns %s' % v, form=str(v))
    fn, sx, outs = paths(prog, 'Likelihood_Poisson')
    rets = [o for o in outs if o.kind == 'return']
    a = [sx.symbol(p['name'], p['ty']) for p in fn.params]
    ok = len(rets) == 1 and rets[0].value == sp.exp(FN('Log_Likelihood_Poisson')(*a))
    ctx.decide(R, 'Likelihood_Poisson', fn, ok, 'exp(Log_Likelihood_Poisson(s,n,b))', 'Likelihood_Poisson returns %s' % [str(o.value) for o in rets])
    fn, sx, outs = paths(prog, 'Log_Likelihood_Poisson_Binned')
    rets = [o for o in outs if o.kind == 'return']
    ok = bool(rets)
    detail = ''
    pn = [p['name'] for p in fn.params]
    for o in rets:
        v = o.value
        sums = list(v.atoms(sp.Sum)) if isinstance(v, sp.Basic) else []
        if len(sums) != 1 or not is_zero(v - sums[0]):
            # loop not summarised as a plain sum (e.g. it skips bins): analyse one iteration
            r = binned_step(prog, fn, sx, pn)
            if r is None:
                ctx.undecided(R, 'Log_Likelihood_Poisson_Binned', fn, 'bin loop outside the understood fragment: %s' % str(v)[:100])
                return_after = True
                ok = None
                break
            good_, detail_ = r
            if not good_:
                ok = False
                detail = detail_
            continue
        iv, lo, hi = sums[0].limits[0]
        t = sums[0].function
        apps = [x for x in t.atoms(sp.core.function.AppliedUndef) if x.func.__name__ == L + 'Log_Likelihood_Poisson']
        good = len(apps) == 1 and is_zero(t - apps[0])
        if good:
            args = apps[0].args
            good = is_zero(args[0] - Function(pn[0], real=True)(iv)) and is_zero(args[1] - Function(pn[1], real=True)(iv))
            third = args[2]
            good = good and (is_zero(third - Function(pn[2], real=True)(iv)) or third == 0 or (isinstance(third, sp.core.function.AppliedUndef) and third.args == (iv,)))
            good = good and lo == 0 and str(hi) in ('len(%s) - 1' % pn[0],)
        if not good:
            ok = False
            detail = 'bin term %s over [%s,%s]' % (t, lo, hi)
    if ok is not None:
        ctx.decide(R, 'Log_Likelihood_Poisson_Binned', fn, ok, 'sum over all bins of Log_Likelihood_Poisson(pred[i], obs[i], bkg[i])',
                   'binned log-likelihood is wrong: ' + detail, witness={'term': detail} if detail else None)
    fn, sx, outs = paths(prog, 'Likelihood_Poisson_Binned')
    rets = [o for o in outs if o.kind == 'return']
    v = rets[0].value if len(rets) == 1 else None
    ok = isinstance(v, sp.exp) and isinstance(v.args[0], sp.core.function.AppliedUndef) and v.args[0].func.__name__ == L + 'Log_Likelihood_Poisson_Binned' and \
        [str(a_).replace('arr:', '') for a_ in v.args[0].args] == [p['name'] for p in fn.params]
    ctx.decide(R, 'Likelihood_Poisson_Binned', fn, ok, 'exp(Log_Likelihood_Poisson_Binned(pred, obs, bkg))', 'Likelihood_Poisson_Binned returns %s' % v)


def quantile(prog, ctx):
    fq, sxq, oq = paths(prog, 'Quantile_Gauss')
    fc, sxc, oc = paths(prog, 'CDF_Gauss')
    p, mu, sg = [sxq.symbol(n['name'], 'double') for n in fq.params]
    x = sxc.symbol(fc.params[0]['name'], 'double')
    q = [o for o in oq if o.kind == 'return']
    c = [o for o in oc if o.kind == 'return']
    ok = False
    comp = None
    if len(q) == 1 and len(c) == 1:
        comp = c[0].value.subs({sxc.symbol(fc.params[1]['name'], 'double'): mu, sxc.symbol(fc.params[2]['name'], 'double'): sg}).subs(x, q[0].value)
        IE = FN('Inv_Erf')
        comp = sp.simplify(comp)
        comp = comp.replace(lambda t: isinstance(t, sp.erf) and isinstance(t.args[0], sp.core.function.AppliedUndef) and t.args[0].func == IE, lambda t: t.args[0].args[0])
        sgp = Symbol('sigma_pos', positive=True)
        comp2 = sp.simplify(c[0].value.subs({sxc.symbol(fc.params[1]['name'], 'double'): mu, sxc.symbol(fc.params[2]['name'], 'double'): sgp}).subs(x, q[0].value.subs(sg, sgp)))
        comp2 = comp2.replace(lambda t: isinstance(t, sp.erf) and isinstance(t.args[0], sp.core.function.AppliedUndef) and t.args[0].func == IE, lambda t: t.args[0].args[0])
        ok = sp.simplify(comp2 - p) == 0
        comp = comp2
    ctx.decide('C07.d', 'Quantile_Gauss', fq, ok, 'CDF_Gauss(Quantile_Gauss(p,mu,sigma),mu,sigma) == p with erf(Inv_Erf(t)) = t', 'composition gives %s' % comp, form=str(comp))


def chibar(prog, ctx):
    R = 'C07.e'
    res = {}
    for name, lo_allowed in (('PDF_Chi_Bar_Square', (0, 1)), ('CDF_Chi_Bar_Square', (0,))):
        fn, sx, outs = paths(prog, name)
        x = sx.symbol(fn.params[0]['name'], 'double')
        W = Function(fn.params[1]['name'], real=True)
        main = [o for o in outs if o.kind == 'return' and isinstance(o.value, sp.Basic) and o.value.atoms(sp.Sum)]
        ok = False
        detail = ''
        which = name.split('_')[0]
        for o in main:
            sums = list(o.value.atoms(sp.Sum))
            if len(sums) == 1 and is_zero(o.value - sums[0]):
                iv, lo, hi = sums[0].limits[0]
                term = sums[0].function
                ok = is_zero(term - W(iv) * FN(which + '_Chi_Square')(x, iv)) and lo in lo_allowed and str(hi) == 'len(weights) - 1'
                detail = 'sum_{k=%s}^{%s} %s' % (lo, hi, term)
                res[name] = lo
        ctx.decide(R, name, fn, ok, detail or 'mixture', 'mixture sum not recognised: %s' % (detail or [str(o.value)[:100] for o in outs if o.kind == 'return']))
    # omission of k=0 in the PDF is legitimate only because PDF_Chi_Square(x, 0) = 0
    if res.get('PDF_Chi_Bar_Square') == 1:
        fn, sx, outs = paths(prog, 'PDF_Chi_Square')
        x, d = sx.symbol(fn.params[0]['name'], 'double'), sx.symbol(fn.params[1]['name'], 'double')
        z = [o for o in select(outs, {x: 2.0, d: 0}) if o.kind == 'return']
        ok = len(z) == 1 and z[0].value == 0
        ctx.decide(R, 'PDF_Chi_Square:dof0', fn, ok, 'PDF_Chi_Square(x,0) = 0, so omitting k=0 from the PDF mixture is consistent', 'PDF_Chi_Square(x,0) is not 0 but the mixture omits k=0')


def kde(prog, ctx):
    fn = prog.fn(L + 'Perform_KDE')
    mult = [c for c in calls(fn) if c.get('kind') == 'method' and c['callee']['name'] == 'Multiply']
    rets = [s for s in fn.body['body'] if s['k'] == 'Return']
    ok = False
    approx = None
    detail = 'no Multiply call'
    if len(mult) == 1 and len(rets) == 1:
        obj = show(mult[0]['obj'])
        g = __import__('lpv.guards', fromlist=['GuardScan']).GuardScan(prog, fn, {})
        a = strip_casts(g.subst(mult[0]['args'][0]))
        detail = 'result.Multiply(%s)' % show(a)
        ps = [p['name'] for p in fn.params]
        if a.get('k') == 'Bin' and a['op'] == '/' and strip_casts(a['lhs']).get('val') in ('1.0', '1'):
            den = strip_casts(a['rhs'])
            cc = (den.get('callee') or {}) if den.get('k') == 'Call' else {}
            if den.get('k') == 'Call' and den.get('kind') == 'method' and cc.get('q') == L + 'Interpolation::Integrate':
                # the interpolant's own (exact) integral
                args = den['args']
                ok = show(strip(den['obj'])) == obj and show(strip_casts(args[0])) == ps[1] and show(strip_casts(args[1])) == ps[2] and \
                    show(strip(rets[0]['e'])) == obj
            elif den.get('k') == 'Call' and cc.get('q') == L + 'Integrate':
                args = den['args']
                first = args[0]
                while strip(first).get('k') in ('Construct', 'Copy') and (strip(first).get('args') or strip(first).get('e')):
                    first = strip(first)['args'][0] if strip(first).get('k') == 'Construct' else strip(first)['e']
                if show(strip_casts(first)) == obj and show(strip_casts(args[1])) == ps[1] and show(strip_casts(args[2])) == ps[2]:
                    approx = 'the adaptive Simpson routine Integrate(result, xMin, xMax, %s)' % show(strip_casts(args[3])) if len(args) > 3 else 'Integrate(result, ...)'
    if approx:
        ctx.violated('C07.f', 'Perform_KDE:normalisation', fn, 'the estimate is divided by %s instead of the exact integral of the tabulated curve: the adaptive rule accepts the '
                     'whole window when its first five probes miss the kernels (a window much wider than the data), and the "norm" is then ~0, 0 or negative' % approx,
                     witness={'reproducer': 'Perform_KDE({DataPoint(0.375,1)}, 0, 1, 0.02) integrates to 3.1e7; one sample at 0.895 with bandwidth 0.003 gives a density that is negative everywhere'})
    else:
        ctx.decide('C07.f', 'Perform_KDE:normalisation', fn, ok, 'the estimate is divided by its own exact integral over [xMin,xMax]: ' + detail,
                   'the estimate is not normalised by the integral of the returned curve: ' + detail,
                   witness={'reproducer': 'data piling up at a window edge: a rectangle-sum normalisation integrates to 0.98-0.996'} if not ok else None)


def kde_scale(prog, ctx):
    """The tabulated estimate is the kernel sum divided by bandwidth * total weight (the definition of a weighted KDE) before
    the final renormalisation: without it the curve scales with the weights and the absolute tolerance of the
    normalising integral is no longer adequate."""
    from ..symx import arr_as_tuple
    fn = prog.fn(L + 'Perform_KDE')
    pbs = []
    for s_ in walk_stmts(fn.body):
        if s_['k'] == 'Expr':
            c_ = strip(s_['e'])
            if c_.get('k') == 'Call' and c_.get('kind') == 'method' and (c_.get('callee') or {}).get('name') == 'push_back' \
                    and 'std::vector<std::vector<double' in str(strip(c_['obj']).get('ty', '')):
                pbs.append((s_, c_))
    inst = 'Perform_KDE:scale'
    if len(pbs) != 1:
        ctx.undecided('C07.f', inst, fn, 'tabulation statement not found (%d candidates)' % len(pbs))
        return
    try:
        sx = Symx(prog, fn)
        dn = fn.params[0]['name']
        bwp = fn.params[3]
        probs = []
        n = 0
        for st_ in sx.states_at(fn, pbs[0][0]):
            row = arr_as_tuple(sx.rvalue(pbs[0][1]['args'][0], st_))
            if not isinstance(row, sp.Tuple) or len(row) != 2:
                raise Undecided('tabulated row is not {x, estimate}')
            n += 1
            val = row[1]
            bwv = st_.env.get(bwp['id'], sx.symbol(bwp['name'], 'double'))
            wsum = [y_ for y_ in val.atoms(sp.Sum) if len(y_.limits) == 1 and str(y_.function) == '%s.weight(%s)' % (dn, y_.limits[0][0])]
            W = None
            for y_ in wsum:
                iv_, lo_, hi_ = y_.limits[0]
                if lo_ == 0 and str(sp.simplify(hi_ + 1)) in ('len(%s)' % dn,):
                    W = y_
            if W is None:
                probs.append('the tabulated value %s is not divided by the total weight sum over all data points' % str(val)[:100])
                continue
            core = sp.simplify(val * W * bwv)
            if not (isinstance(core, Symbol) and '@loop' in str(core)) and (core.has(W) or (isinstance(bwv, sp.Basic) and bwv.free_symbols and core.has(*bwv.free_symbols))):
                probs.append('the tabulated value is %s, not kernel-sum/(bandwidth*total weight)' % str(val)[:120])
        if n == 0:
            raise Undecided('no path reaches the tabulation')
        ctx.decide('C07.f', inst, fn, not probs, 'tabulated value = kernel sum / (bandwidth * sum of all weights) on %d paths' % n, '; '.join(probs[:2]),
                   witness={'reproducer': 'weights of overall scale 1e-10: the curve integrates to 1.69 instead of 1'} if probs else None)
    except Undecided as ex_:
        ctx.undecided('C07.f', inst, fn, 'tabulation outside the understood fragment: %s' % ex_)


def dependency(prog, ctx):
    from . import C06
    gq = prog.fn(L + 'GammaQ')
    # reuse C06's identification of the helpers through a private context
    from ..report import Ctx
    sub = Ctx('C06', ctx.tier, prog)
    try:
        C06.check(prog, sub)
    except Exception as e:
        ctx.undecided('C07.g', 'dependency:C06', gq, 'C06 rules could not be evaluated: %s' % e)
        return
    for o in sub.obs:
        if o.rule in ('C06.a', 'C06.i', 'C06.l') or (o.rule == 'C06.e' and 'Binomial' in o.instance):
            if o.status == 'violated':
                ctx.obs.append(type(o)('C07.g', 'dependency:' + o.instance, 'violated', o.where, 'CDF_Poisson/CDF_Chi_Square/PMF_Binomial inherit: ' + o.detail, o.witness))
            elif o.status == 'undecided':
                ctx.obs.append(type(o)('C07.g', 'dependency:' + o.instance, 'undecided', o.where, o.detail))
            else:
                ctx.obs.append(type(o)('C07.g', 'dependency:' + o.instance, 'holds', o.where, o.detail))
    ctx.touch(gq)


def binned_step(prog, fn, sx, pn):
    """One iteration of the bin loop: every path must add Log_Likelihood_Poisson(pred[i], obs[i], bkg[i]) (or nothing)."""
    loops = [s for s in walk_stmts(fn.body) if s['k'] == 'For']
    if len(loops) != 1:
        return None
    sts = sx.states_at(fn, loops[0])
    if not sts:
        return None
    bad = []
    for st_ in sts:
      entry, cond, live, done, n0 = sx.loop_step(loops[0], st_)
      ents = {k: v for k, v in entry.items() if isinstance(v, Symbol)}
      ck_ = sx.counter_key(loops[0], st_)
      iv = [v for k_, v in ents.items() if k_ == ck_]
      if len(iv) != 1:
        return None
      i = iv[0]
      want_args = (Function(pn[0], real=True)(i), Function(pn[1], real=True)(i))
      for env in [p.env for p in live] + [o.state.env for o in done if o.kind == 'continue']:
          for k, v in ents.items():
              if v is i or env.get(k) is None:
                  continue
              d = sp.expand(env[k] - v)
              if d == 0:
                  continue
              apps = [a for a in d.atoms(sp.core.function.AppliedUndef) if a.func.__name__ == L + 'Log_Likelihood_Poisson']
              if len(apps) != 1 or not is_zero(d - apps[0]):
                  bad.append('a bin adds %s' % d)
                  continue
              a0, a1, a2 = apps[0].args
              if not (is_zero(a0 - want_args[0]) and is_zero(a1 - want_args[1]) and (isinstance(a2, sp.core.function.AppliedUndef) and a2.args == (i,) or a2 == 0)):
                  bad.append('a bin adds Log_Likelihood_Poisson(%s, %s, %s): the prediction argument must be the signal prediction of that bin alone' % (a0, a1, a2))
    return (not bad, '; '.join(sorted(set(bad))))

"""C04 - vector and matrix algebra obeys the algebraic laws for every shape (structural clauses)."""
import sympy as sp
from sympy import Symbol, Function, S, Sum, sqrt
from ..ir import AnalysisBroken, Undecided, show, strip, strip_casts, walk_stmts, stmt_exprs, walk_expr, calls, all_exprs
from ..symx import Symx, Arr, is_zero
from .. import guards as G
from ..guardtable import INSTANCES, L
from .C10 import run_instance, select

a, b = sp.symbols('a b', integer=True)
AC = Function('this.components', real=True)
rows = Symbol('this.rows', integer=True)
cols = Symbol('this.columns', integer=True)
dim = Symbol('this.dimension', integer=True)


def canon(t):
    """Rename summation variables canonically so that Sums compare structurally."""
    n = [0]

    def ren(expr):
        if isinstance(expr, (sp.Sum, sp.Product)):
            f = ren(expr.function)
            lims = []
            for (v, lo, hi) in expr.limits:
                nv = Symbol('_s%d' % n[0], integer=True)
                n[0] += 1
                f = f.xreplace({v: nv})
                lims.append((nv, ren(lo), ren(hi)))
            return expr.func(sp.expand(f), *lims)
        if expr.args:
            return expr.func(*[ren(x) for x in expr.args])
        return expr
    return ren(t)


# filled by vector_size_invariant(): len(X.components) -> X.dimension for Vector objects, once the class invariant is established
SIZE_SUBST = {}


def same(x, y):
    if x == y:
        return True
    try:
        if SIZE_SUBST:
            x = x.xreplace(SIZE_SUBST) if isinstance(x, sp.Basic) else x
            y = y.xreplace(SIZE_SUBST) if isinstance(y, sp.Basic) else y
        # `(*this)[i]` read through the class's own subscript is the stored component
        thisf = lambda e_: isinstance(e_, sp.core.function.AppliedUndef) and e_.func.__name__ == 'this'
        if isinstance(x, sp.Basic):
            x = x.replace(thisf, lambda e_: AC(*e_.args))
        if isinstance(y, sp.Basic):
            y = y.replace(thisf, lambda e_: AC(*e_.args))
        cx, cy = canon(sp.expand(x)), canon(sp.expand(y))
        if cx == cy:
            return True
        d = sp.expand(cx - cy)
        if d == 0:
            return True
        if not d.has(sp.Sum):
            return is_zero(d)
        return sp.simplify(d) == 0
    except Exception:
        return False


def F(name):
    return Function(name, real=True)


def S1(f, var, n):
    return Sum(f, (var, 0, n - 1))


def result_of(prog, fn, inline=()):
    sx = Symx(prog, fn, inline=inline)
    outs = [o for o in sx.run() if o.kind != 'exit']
    if len(outs) != 1:
        raise Undecided('%s has %d non-exit paths' % (fn.q, len(outs)))
    return outs[0], sx


def check(prog, ctx):
    ctx.rule('C04.a', 'conformability: the exit predicate of every shape-guarded operation equals the spec ("sum iff shapes equal", '
             '"product iff inner dimensions equal", ...) on the complete truth table of shapes 0..4', 14)
    ctx.rule('C04.b', 'loop-nest schemas: the element term, bounds and result shape extracted from each routine equal the '
             'mathematical definition (C[i][j]=sum_k A[i][k]B[k][j], transpose, trace, norms, outer product, ...)', 24)
    ctx.rule('C04.c', 'each operator spelling delegates to its named form with the same operands', 8)
    ctx.rule('C04.d', 'shape-guard exits are diagnostic exits and dominate the element loops', 14)
    ctx.rule('C04.e', 'magnitudes are taken in floating point: no floating-point value of the vector/matrix code passes through the integer '
             'abs() (an unqualified abs(double) resolves to int abs(int) and truncates: every entry below 1 becomes 0)', 1)
    ctx.sub('integer_abs', integer_abs, prog, ctx)
    wrappers = G.find_wrappers(prog)
    for inst in INSTANCES:
        if inst.get('c04'):
            run_instance(prog, ctx, inst, wrappers, 'C04.a', 'C04.d', 'C04.d', 'C04.d')
    ctx.sub('vector_size_invariant', vector_size_invariant, prog, ctx)
    ctx.sub('copy_completeness', copy_completeness, prog, ctx)
    ctx.sub('schemas', schemas, prog, ctx)
    ctx.sub('spellings', spellings, prog, ctx)


def integer_abs(prog, ctx):
    from ..ir import all_exprs
    n = 0
    bad = []
    for fn in prog.repo_functions():
        if fn.body is None or not fn.file.endswith('Linear_Algebra.cpp'):
            continue
        for e in all_exprs(fn):
            if e.get('k') == 'Call' and (e.get('callee') or {}).get('name') in ('abs', 'labs', 'llabs', 'fabs', 'fabsf'):
                n += 1
                sig = (e.get('callee') or {}).get('sig', '')
                if sig.startswith(('abs(int)', 'labs(long)', 'llabs(long long)')) and any(a.get('k') == 'Cast' and a.get('ck') == 'FloatingToIntegral' for a in e.get('args', [])):
                    bad.append((fn, e))
    for fn, e in bad:
        ctx.violated('C04.e', '%s:integer-abs' % fn.q.replace(L, ''), fn, '%s is the integer abs(): its floating-point argument is truncated first, so every value of magnitude below 1 '
                     'counts as 0 (and 2.7 as 2)' % show(e)[:50], witness={'reproducer': 'entries of magnitude below 1, e.g. Matrix({{0.5}})'}, line=e.get('l'))
    if not bad:
        ctx.holds('C04.e', 'Linear_Algebra:integer-abs', None, '%d magnitude calls in Linear_Algebra.cpp, none through the integer abs()' % n)


def vector_size_invariant(prog, ctx):
    """Class invariant of Vector: components.size() == dimension.  Every constructor and every method that writes
    either field leaves them equal (a copy from another Vector inherits that Vector's invariant)."""
    R = 'C04.b'
    SIZE_SUBST.clear()
    cls = L + 'Vector'
    bad, n = [], 0
    hyp = lambda t: t.replace(lambda e: isinstance(e, Symbol) and e.name.startswith('len(') and e.name.endswith('.components)'),
                              lambda e: Symbol(e.name[4:-len('.components)')] + '.dimension', integer=True)) if isinstance(t, sp.Basic) else t
    for f in prog.all_functions():
        if f.cls != cls or f.body is None:
            continue
        sx = Symx(prog, f)
        writes = set('this.' + i_['field'] for i_ in f.inits if i_.get('field') in ('components', 'dimension') and i_.get('written'))
        for e_ in all_exprs(f, into_lambdas=False):
            if e_.get('k') == 'Bin' and e_['op'] in ('=', '+=', '-=', '*=', '/=') and strip(e_['lhs']).get('k') == 'Member' \
                    and strip(e_['lhs']).get('name') in ('components', 'dimension') and strip(strip(e_['lhs'])['base']).get('k') == 'This':
                writes.add('this.' + strip(e_['lhs'])['name'])          # whole-field assignment (element stores do not change the size)
            if e_.get('k') == 'Un' and e_['op'] in ('++', '--') and strip(e_['e']).get('k') == 'Member' and strip(e_['e']).get('name') == 'dimension':
                writes.add('this.dimension')
            if e_.get('k') == 'Call' and e_.get('kind') == 'method' and (e_.get('callee') or {}).get('name') in \
                    ('resize', 'assign', 'push_back', 'pop_back', 'erase', 'insert', 'clear', 'emplace_back', 'swap') \
                    and strip(e_['obj']).get('k') == 'Member' and strip(e_['obj']).get('name') == 'components' and strip(strip(e_['obj'])['base']).get('k') == 'This':
                writes.add('this.components')
        if not writes and not f.d.get('ctor'):
            continue
        if any(i_.get('delegating') for i_ in f.inits):
            continue                       # a delegating constructor establishes whatever its target establishes
        n += 1
        try:
            outs = [o for o in sx.run() if o.kind != 'exit']
            for o in outs:
                c_, d_ = o.state.env.get('this.components'), o.state.env.get('this.dimension')
                if c_ is None and d_ is None and not f.d.get('ctor'):
                    continue
                ln_ = c_.length if isinstance(c_, Arr) else (sp.Integer(len(c_.args)) if isinstance(c_, sp.Tuple) else
                                                           (Symbol('len(%s)' % c_.name, integer=True, nonnegative=True) if isinstance(c_, Symbol) else None))
                if ln_ is None or d_ is None or sp.simplify(hyp(ln_) - hyp(d_)) != 0:
                    bad.append('%s leaves components of size %s with dimension %s' % (f.sig.split('libphysica::')[-1][:60], ln_, d_))
        except Undecided as ex_:
            bad.append('%s: %s' % (f.name, ex_))
    ok = n >= 3 and not bad
    ctx.decide(R, 'Vector:size-invariant', prog.fn(cls + '::Size'), ok, 'components.size() == dimension after every constructor and every writer of either field (%d functions)' % n,
               'the size invariant of Vector is not established: %s' % '; '.join(bad[:3]))
    if ok:
        SIZE_SUBST[Symbol('len(this.components)', integer=True, nonnegative=True)] = dim


def copy_completeness(prog, ctx):
    """Copy assignment / copy construction of Vector and Matrix: on every path every data member of the object ends up
    equal to the corresponding member of the source (unchanged is fine only where the path condition says they are
    already equal).  A forgotten member leaves an object whose shape fields disagree with its storage."""
    R = 'C04.b'
    kk = Symbol('k', integer=True)
    for cls in ('Vector', 'Matrix'):
        c = prog.classes.get(L + cls)
        if not c:
            continue
        fields = [f_['name'] for f_ in c['fields']]
        for fn in [f for f in prog.all_functions() if f.cls == L + cls and (f.name == 'operator=' or f.d.get('ctor'))
                   and len(f.params) == 1 and f.params[0]['ty'].replace('const ', '').strip() == L + cls]:
            src = fn.params[0]['name']
            inst = '%s::%s:copies-every-member' % (cls, 'operator=' if fn.name == 'operator=' else 'copy-constructor')
            probs = []
            try:
                outs = [o for o in Symx(prog, fn).run() if o.kind != 'exit']
                for o in outs:
                    ats = list(o.cond.args) if isinstance(o.cond, sp.And) else [o.cond]
                    for f_ in fields:
                        want = Symbol('%s.%s' % (src, f_))
                        v = o.state.env.get('this.' + f_)
                        if v is None:
                            same_already = any(isinstance(a_, sp.Equality) and {str(a_.lhs), str(a_.rhs)} == {'this.' + f_, '%s.%s' % (src, f_)} for a_ in ats)
                            if not same_already and not fn.d.get('ctor') or (fn.d.get('ctor') and True and v is None and not same_already):
                                probs.append('on the path [%s] member `%s` is not copied' % (o.cond, f_))
                            continue
                        if isinstance(v, Arr):
                            el = v.read((kk,))
                            if el != Function('%s.%s' % (src, f_), real=True)(kk):
                                probs.append('on the path [%s] member `%s` becomes %s' % (o.cond, f_, str(el)[:80]))
                        elif str(v) != str(want):
                            probs.append('on the path [%s] member `%s` becomes %s' % (o.cond, f_, str(v)[:80]))
            except Undecided as ex_:
                ctx.undecided(R, inst, fn, str(ex_))
                continue
            ctx.decide(R, inst, fn, not probs, 'every member (%s) is copied from the source on every path' % ', '.join(fields), '; '.join(probs[:3]),
                       witness={'reproducer': 'assign a matrix of another shape to an existing object and ask for Rows()/Columns()/Transpose()'} if probs else None)


def arr_elem(v, idx):
    if not isinstance(v, Arr):
        raise Undecided('result is not summarised as an array: %s' % v)
    return v.read(idx)


def schemas(prog, ctx):
    R = 'C04.b'
    M = F('M')

    def mfn(name, sel=None, n=None):
        return prog.fn(L + 'Matrix::' + name, n, pred=sel)

    def vfn(name, sel=None, n=None):
        return prog.fn(L + 'Vector::' + name, n, pred=sel)

    k_ = Symbol('k_', integer=True)
    j_ = Symbol('j_', integer=True)
    i_ = Symbol('i_', integer=True)
    Mrows, Mcols = Symbol('M.rows', integer=True), Symbol('M.columns', integer=True)

    def elem2(name, fn, want, shape=None, field=False):
        try:
            o, sx = result_of(prog, fn)
            v = o.state.env.get('this.components') if field else o.value
            got = arr_elem(v, (a, b))
            ok = same(got, want)
            detail = 'element (a,b) = %s' % got
            if ok and shape is not None:
                have = (getattr(v, 'dims', None) or (v.length, None))
                ok = all(w is None or (h is not None and sp.simplify(h - w) == 0) for h, w in zip(have, shape))
                detail += '; shape %s' % (have,)
            ctx.decide(R, name, fn, ok, detail, 'expected element %s%s, found %s' % (want, ' shape %s' % (shape,) if shape else '', detail),
                       form=str(got))
        except Undecided as e:
            ctx.undecided(R, name, fn, str(e))

    def elem1(name, fn, want, length=None, field=False, src=None):
        try:
            o, sx = result_of(prog, fn)
            v = o.state.env.get('this.components') if field else o.value
            got = arr_elem(v, (a,))
            ok = same(got, want)
            detail = 'element (a) = %s' % got
            if ok and length is not None and not field:
                ok = v.length is not None and sp.simplify(v.length - length) == 0
                detail += '; length %s' % v.length
            ctx.decide(R, name, fn, ok, detail, 'expected element %s length %s, found %s' % (want, length, detail), form=str(got))
        except Undecided as e:
            ctx.undecided(R, name, fn, str(e))

    def scalar(name, fn, want, inline=()):
        try:
            try:
                o, sx = result_of(prog, fn, inline)
            except Undecided:
                if multi_path_scalar(name, fn, want, inline):
                    return
                raise
            got = o.value
            if isinstance(got, Arr):
                raise Undecided('scalar expected')
            ctx.decide(R, name, fn, same(got, want), 'returns %s' % got, 'expected %s, found %s' % (want, got), form=str(got))
        except Undecided as e:
            ctx.undecided(R, name, fn, str(e))

    def multi_path_scalar(name, fn, want, inline):
        """A scalar routine with several returning paths (shortcuts): the path conditions and returned terms are evaluated on
        small concrete objects (1x1, 1x2, 2x2 / lengths 1..2, entries from {-1, 0, 2}); on every sample exactly one path must
        apply and its value must equal the definition.  Decides only when every term evaluates to a number."""
        import itertools
        sxm = Symx(prog, fn, inline=inline)
        outs = [o_ for o_ in sxm.run() if o_.kind != 'exit']
        if len(outs) < 2 or any(o_.kind != 'return' or not isinstance(o_.value, sp.Basic) for o_ in outs):
            return False
        AU = sp.core.function.AppliedUndef
        is_mat = fn.cls == L + 'Matrix'

        def concretise(t, shape, entries):
            r_, c_ = shape
            sub = {rows: r_, cols: c_, dim: r_, Symbol('this.rows', integer=True): r_, Symbol('this.columns', integer=True): c_}
            t = t.subs(sub)
            for _ in range(6):
                reds = [x_ for x_ in t.atoms(AU) if x_.func.__name__ in ('MAXRED', 'MINRED')]
                if not reds:
                    break
                # innermost first
                x_ = sorted(reds, key=lambda y_: len(str(y_)))[0]
                g_, v_, lo_, hi_ = x_.args
                lo_i, hi_i = int(sp.simplify(lo_)), int(sp.simplify(hi_))
                vals = [g_.xreplace({v_: sp.Integer(k_)}) for k_ in range(lo_i, hi_i + 1)]
                t = t.xreplace({x_: (sp.Max if x_.func.__name__ == 'MAXRED' else sp.Min)(*vals) if vals else (-sp.oo if x_.func.__name__ == 'MAXRED' else sp.oo)})
            # *max_element / *min_element over a row: MAXEL(arr:this.components(i), lo, len:this.components(i))
            for _ in range(8):
                els = [x_ for x_ in t.atoms(AU) if x_.func.__name__ in ('MAXEL', 'MINEL') and isinstance(x_.args[0], AU)
                       and x_.args[0].func.__name__ == 'arr:this.components' and all(a_.is_Integer for a_ in x_.args[0].args)]
                if not els:
                    break
                x_ = els[0]
                ri_ = int(x_.args[0].args[0])
                lo_i = int(sp.simplify(x_.args[1]))
                hi_t = x_.args[2].replace(lambda e_: isinstance(e_, AU) and e_.func.__name__ == 'len:this.components', lambda e_: sp.Integer(c_))
                hi_i = int(sp.simplify(hi_t))
                vals = [Function('this.components', real=True)(sp.Integer(ri_), sp.Integer(k_)) for k_ in range(lo_i, hi_i)]
                t = t.xreplace({x_: (sp.Max if x_.func.__name__ == 'MAXEL' else sp.Min)(*vals)})
            t = t.replace(lambda e_: isinstance(e_, AU) and e_.func.__name__ == 'len:this.components', lambda e_: sp.Integer(c_))
            # *max_element over the whole component list of a Vector
            t = t.xreplace({Symbol('len(this.components)', integer=True, nonnegative=True): sp.Integer(r_)})
            for _ in range(4):
                els = [x_ for x_ in t.atoms(AU) if x_.func.__name__ in ('MAXEL', 'MINEL') and isinstance(x_.args[0], Symbol) and x_.args[0].name == 'arr:this.components']
                if not els:
                    break
                x_ = els[0]
                lo_i, hi_i = int(sp.simplify(x_.args[1])), int(sp.simplify(x_.args[2]))
                vals = [Function('this.components', real=True)(sp.Integer(k_)) for k_ in range(lo_i, hi_i)]
                t = t.xreplace({x_: (sp.Max if x_.func.__name__ == 'MAXEL' else sp.Min)(*vals)})
            t = t.doit()
            t = t.replace(lambda e_: isinstance(e_, AU) and e_.func.__name__ == 'this.components' and all(a_.is_Integer for a_ in e_.args),
                          lambda e_: sp.Integer(entries[tuple(int(a_) for a_ in e_.args)]) if tuple(int(a_) for a_ in e_.args) in entries else e_)
            return sp.simplify(t)
        bad, n = [], 0
        shapes = [(1, 1), (1, 2), (2, 2)] if is_mat else [(1, 1), (2, 1)]
        try:
            for shp in shapes:
                cells = [(i_, j_) for i_ in range(shp[0]) for j_ in range(shp[1])] if is_mat else [(i_,) for i_ in range(shp[0])]
                for vals in itertools.product((-1, 0, 2), repeat=len(cells)):
                    ent = dict(zip(cells, vals))
                    w_ = concretise(want, shp, ent)
                    hits = []
                    for o_ in outs:
                        c_ = concretise(o_.cond, shp, ent) if isinstance(o_.cond, sp.Basic) else o_.cond
                        if c_ in (sp.true, True):
                            hits.append(o_)
                        elif c_ not in (sp.false, False):
                            return False
                    n += 1
                    if len(hits) != 1:
                        bad.append('%s: %d paths apply' % (ent, len(hits)))
                        continue
                    g_ = concretise(hits[0].value, shp, ent)
                    if g_.free_symbols or g_.atoms(AU) or w_.free_symbols or w_.atoms(AU):
                        return False
                    if sp.simplify(g_ - w_) != 0:
                        bad.append('entries %s: returns %s, definition gives %s' % ({str(k_): v_ for k_, v_ in ent.items()}, g_, w_))
        except (TypeError, ValueError, Undecided):
            return False
        ctx.decide(R, name, fn, not bad, 'all %d returning paths agree with the definition on %d small concrete objects' % (len(outs), n),
                   'a returning path disagrees with the definition: %s' % bad[:2], witness={'samples': bad[:3]} if bad else None)
        return True

    # matrices, element-wise
    elem2('Matrix::Plus', mfn('Plus'), AC(a, b) + M(a, b), (rows, None))
    elem2('Matrix::Minus', mfn('Minus'), AC(a, b) - M(a, b), (rows, None))
    elem2('Matrix::operator+=', mfn('operator+='), AC(a, b) + M(a, b), field=True)
    elem2('Matrix::operator-=', mfn('operator-='), AC(a, b) - M(a, b), field=True)
    s = Symbol('s', real=True)
    elem2('Matrix::Product(scalar)', mfn('Product', lambda f: f.params[0]['ty'] == 'double'), s * AC(a, b), (rows, None))
    elem2('Matrix::Division', mfn('Division'), AC(a, b) / s, (rows, None))
    elem2('Matrix::Transpose', mfn('Transpose'), AC(b, a), (cols, None))
    elem2('Matrix::Product(Matrix)', mfn('Product', lambda f: 'Matrix' in f.params[0]['ty']),
          S1(AC(a, k_) * M(k_, b), k_, cols), (rows, Mcols))
    v_rhs = F('v_rhs')
    elem1('Matrix::Product(Vector)', mfn('Product', lambda f: 'Vector' in f.params[0]['ty']),
          S1(AC(a, j_) * v_rhs(j_), j_, cols), rows)
    vm = prog.fn(L + 'operator*', pred=lambda f: len(f.params) == 2 and 'Vector' in f.params[0]['ty'] and 'Matrix' in f.params[1]['ty'])
    elem1('operator*(Vector,Matrix)', vm, S1(F('v_left')(j_) * M(j_, a), j_, Mrows), Mcols)
    lhs, rhs = F('lhs'), F('rhs')
    elem2('Outer_Vector_Product', prog.fn(L + 'Outer_Vector_Product'), lhs(a) * rhs(b),
          (Symbol('lhs.dimension', integer=True), Symbol('rhs.dimension', integer=True)))
    scalar('Matrix::Trace', mfn('Trace'), S1(AC(i_, i_), i_, rows))
    scalar('Matrix::Norm', mfn('Norm'), sqrt(Sum(Sum(AC(i_, j_) ** 2, (j_, 0, cols - 1)), (i_, 0, rows - 1))))
    # diagonal constructor and identity
    dctor = prog.fn(L + 'Matrix::Matrix', 1, pred=lambda f: f.params[0]['ty'].startswith('std::vector<double'))
    try:
        o, sx = result_of(prog, dctor)
        v = o.state.env.get('this.components')
        dg = F(dctor.params[0]['name'])
        on = arr_elem(v, (a, a))
        off = arr_elem(v, (a, a + 1))
        ok = same(on, dg(a)) and same(off, 0)
        ctx.decide(R, 'Matrix(diagonal)', dctor, ok, 'diag(a,a)=%s, off-diagonal %s' % (on, off),
                   'diagonal constructor: (a,a)=%s, (a,a+1)=%s' % (on, off), form=str(on))
    except Undecided as e:
        ctx.undecided(R, 'Matrix(diagonal)', dctor, str(e))
    idm = prog.fn(L + 'Identity_Matrix')
    try:
        o, sx = result_of(prog, idm)
        ok = False
        for c in calls(idm):
            pass
        # returned value: Matrix(ones) with ones = vector(dim, 1.0)
        ones = [v for k2, v in o.state.env.items() if isinstance(v, Arr)]
        ok = any(v.length is not None and sp.simplify(v.length - Symbol('dim', integer=True)) == 0 and same(v.read((a,)), 1) for v in ones)
        ret = str(o.value)
        ok = ok and 'new:libphysica::Matrix' in ret and 'arr:' in ret
        ctx.decide(R, 'Identity_Matrix', idm, ok, 'returns the diagonal matrix of dim ones', 'does not return Matrix(vector(dim, 1)): %s' % ret,
                   form=ret)
    except Undecided as e:
        ctx.undecided(R, 'Identity_Matrix', idm, str(e))
    # vectors
    v = F('v')
    elem1('Vector::operator+', vfn('operator+'), AC(a) + v(a), dim)
    elem1('Vector::operator-', vfn('operator-'), AC(a) - v(a), dim)
    elem1('Vector::operator*(scalar)', vfn('operator*', lambda f: f.params[0]['ty'] == 'double'), AC(a) * s, dim)
    elem1('Vector::operator/', vfn('operator/'), AC(a) / s, dim)
    elem1('Vector::operator+=', vfn('operator+='), AC(a) + v(a), field=True)
    elem1('Vector::operator-=', vfn('operator-='), AC(a) - v(a), field=True)
    sv = prog.fn(L + 'operator*', pred=lambda f: len(f.params) == 2 and f.params[0]['ty'] == 'double' and 'Vector' in f.params[1]['ty'])
    elem1('operator*(scalar,Vector)', sv, v(a) * s, Symbol('v.dimension', integer=True))
    scalar('Vector::Dot', vfn('Dot'), S1(AC(i_) * rhs(i_), i_, dim))
    # Norm = sqrt(Dot(this)), Normalize/Normalized divide by Norm
    dotq = L + 'Vector::Dot'
    nf_ = vfn('Norm')
    scalar('Vector::Norm', nf_, sqrt(S1(AC(i_) ** 2, i_, dim)), inline={dotq})
    NRM = F(L + 'Vector::Norm')(Symbol('obj:this'))
    elem1('Vector::Normalize', vfn('Normalize'), AC(a) / NRM, field=True)
    elem1('Vector::Normalized', vfn('Normalized'), AC(a) / NRM, dim)
    # Cross
    cr = vfn('Cross')
    try:
        o, sx = result_of(prog, cr)
        val = o.value
        want = [AC(1) * rhs(2) - AC(2) * rhs(1), AC(2) * rhs(0) - AC(0) * rhs(2), AC(0) * rhs(1) - AC(1) * rhs(0)]
        got = [arr_elem(val, (sp.Integer(n),)) for n in range(3)]
        ok = all(same(g, w) for g, w in zip(got, want))
        ctx.decide(R, 'Vector::Cross', cr, ok, 'components %s' % got, 'cross product components are %s' % got, form=str(got))
    except Undecided as e:
        ctx.undecided(R, 'Vector::Cross', cr, str(e))
    predicates(prog, ctx)
    submatrix(prog, ctx)
    block_ctor(prog, ctx)


def loops_around(body, target):
    """Loops (outermost first) and if-conditions enclosing statement `target`."""
    res = []

    def rec(s, stack):
        if s is target:
            res.append(list(stack))
            return
        k = s['k']
        if k in ('For', 'While', 'Do', 'RangeFor'):
            rec(s['body'], stack + [('loop', s)])
        elif k == 'If':
            rec(s['then'], stack + [('if', s['cond'], True)])
            if s.get('else'):
                rec(s['else'], stack + [('if', s['cond'], False)])
        elif k == 'Compound':
            for x in s['body']:
                rec(x, stack)
    rec(body, [])
    return res[0] if res else None


def predicates(prog, ctx):
    """Symmetric / Antisymmetric / Diagonal: exists (i,j) in the scanned range with the defining inequality -> false."""
    R = 'C04.b'
    i_, j_ = sp.symbols('i_ j_', integer=True)
    specs = {
        'Symmetric': lambda A: sp.Ne(A(i_, j_), A(j_, i_)),
        'Antisymmetric': lambda A: sp.Ne(A(i_, j_), -A(j_, i_)),
        'Diagonal': lambda A: sp.And(sp.Ne(i_, j_), sp.Ne(A(i_, j_), 0)),
    }
    for name, spec in specs.items():
        fn = prog.fn(L + 'Matrix::' + name)
        rets = [s for s in walk_stmts(fn.body) if s['k'] == 'Return']
        inner = None
        for r in rets:
            st = loops_around(fn.body, r)
            if st and sum(1 for x in st if x[0] == 'loop') == 2:
                inner = (r, st)
        ok = False
        detail = 'no return inside a double loop'
        if inner:
            r, st = inner
            sx = Symx(prog, fn)
            from ..symx import State
            stt = State({})
            loops = [x[1] for x in st if x[0] == 'loop']
            bounds = []
            for lp in loops:
                cl = sx.counted(lp, stt)
                if not cl:
                    break
                var, lo, hi = cl
                stt.env[var['id']] = Symbol(var['name'] + '_', integer=True)
                bounds.append((var['name'], lo, hi))
            conds = [x for x in st if x[0] == 'if']
            retv = strip_casts(r['e'])
            if len(bounds) == 2 and conds and retv.get('v') == 'false':
                c = sx.as_bool(sx.sym(conds[-1][1], stt))
                if not conds[-1][2]:
                    c = sp.Not(c)
                iv, jv = Symbol(bounds[0][0] + '_', integer=True), Symbol(bounds[1][0] + '_', integer=True)
                c = c.xreplace({iv: i_, jv: j_})
                want = spec(AC)
                eq = sp.simplify_logic(sp.Equivalent(c, want)) == S.true or c == want
                if not eq and isinstance(c, sp.Rel) and isinstance(want, sp.Rel):
                    eq = type(c) == type(want) and (is_zero((c.lhs - c.rhs) - (want.lhs - want.rhs)) or is_zero((c.lhs - c.rhs) + (want.lhs - want.rhs)))
                lo_i, hi_i = bounds[0][1], bounds[0][2]
                lo_j, hi_j = bounds[1][1].xreplace({iv: i_}), bounds[1][2]
                rng = (lo_i == 0 and sp.simplify(hi_i - rows) == 0 and sp.simplify(hi_j - cols) == 0 and
                       (lo_j == 0 or (name != 'Diagonal' and (lo_j == i_ or lo_j == i_ + 1) and name != 'Antisymmetric') or
                        (name == 'Antisymmetric' and lo_j == i_)))
                ok = bool(eq and rng)
                detail = 'returns false iff exists i in [%s,%s), j in [%s,%s): %s' % (lo_i, hi_i, lo_j, hi_j, c)
        # first statement: non-square -> false
        sq = G.bool_summary(prog, fn)
        ctx.decide(R, 'Matrix::' + name, fn, ok, detail, 'predicate does not match its definition: ' + detail, form=detail)
    fn = prog.fn(L + 'Matrix::Square')
    f = G.bool_summary(prog, fn)
    n, bad = G.truth_table(prog, f, G.product_rows(**{'this.rows': [0, 1, 2, 3], 'this.columns': [0, 1, 2, 3]}),
                           lambda r: r['this.rows'] == r['this.columns'])
    ctx.decide(R, 'Matrix::Square', fn, not bad, 'true iff rows == columns', 'Square() is true iff %s' % G.f_show(f), form=G.f_show(f))


def submatrix(prog, ctx):
    R = 'C04.b'
    fn = prog.fn(L + 'Matrix::Sub_Matrix')
    from ..symx import call_arg_terms
    p0, p1 = fn.params[0]['name'], fn.params[1]['name']
    try:
        ct = call_arg_terms(prog, fn, lambda c: c.get('kind') == 'method' and c['callee'].get('inrepo'))
    except Undecided as ex_:
        ctx.undecided(R, 'Matrix::Sub_Matrix', fn, str(ex_))
        return
    order = [(n_, str(a_[0]) if a_ else '') for n_, a_ in ct]
    ok = ('Delete_Row', p0) in order and ('Delete_Column', p1) in order and len(order) == 2
    # the working copy is built from this->components
    ctx.decide(R, 'Matrix::Sub_Matrix', fn, ok, 'deletes row `%s` and column `%s` of a copy' % (p0, p1),
               'Sub_Matrix calls %s' % order, form=str(order))
    for name, fld, par in (('Delete_Row', 'rows', 0), ('Delete_Column', 'columns', 0)):
        f2 = prog.fn(L + 'Matrix::' + name)
        pname = f2.params[par]['name']
        er = [c for c in calls(f2) if c.get('kind') == 'method' and c['callee']['name'] == 'erase']
        okk = len(er) == 1 and ('begin() + %s' % pname) in show(er[0]['args'][0]).replace('(', '').replace(')', '').replace('this.', '') or \
            (len(er) == 1 and pname in show(er[0]['args'][0]))
        dec = [n for n in walk_all(f2) if n['k'] == 'Un' and n['op'] == '--' and strip(n['e']).get('name') == fld]
        ctx.decide(R, 'Matrix::' + name, f2, bool(okk and len(dec) == 1), 'erases element `%s` and decrements %s once' % (pname, fld),
                   'erase calls: %s; decrements of %s: %d' % ([show(c) for c in er], fld, len(dec)))
    rr = prog.fn(L + 'Matrix::Return_Row')
    o, sx = result_of(prog, rr)
    got = str(o.value)
    ctx.decide(R, 'Matrix::Return_Row', rr, got in ('this.components(row)',) or 'components' in got and 'row' in got,
               'returns Vector(components[row])', 'Return_Row returns %s' % got, form=got)
    rc = prog.fn(L + 'Matrix::Return_Column')
    o, sx = result_of(prog, rc)
    got = str(o.value)
    ok = 'Return_Row' in got and 'Transpose' in got and got.rstrip(')').endswith('column')
    ctx.decide(R, 'Matrix::Return_Column', rc, ok, 'returns Transpose().Return_Row(column)', 'Return_Column returns %s' % got, form=got)


def walk_all(fn):
    for s in walk_stmts(fn.body):
        for e in stmt_exprs(s):
            yield from walk_expr(e)


def spellings(prog, ctx):
    R = 'C04.c'
    pairs = [
        ('Matrix::operator+', None, 'Matrix::Plus'), ('Matrix::operator-', None, 'Matrix::Minus'),
        ('Matrix::operator*', lambda f: 'Matrix' in f.params[0]['ty'], 'Matrix::Product'),
        ('Matrix::operator*', lambda f: 'Vector' in f.params[0]['ty'], 'Matrix::Product'),
        ('Matrix::operator*', lambda f: f.params[0]['ty'] == 'double', 'Matrix::Product'),
        ('Matrix::operator/', None, 'Matrix::Division'),
        ('Vector::operator*', lambda f: 'Vector' in f.params[0]['ty'], 'Vector::Dot'),
    ]
    for opq, sel, named in pairs:
        fn = prog.fn(L + opq, pred=sel)
        o, sx = result_of(prog, fn)
        got = o.value
        p = fn.params[0]['name']
        ok = isinstance(got, sp.core.function.AppliedUndef) and got.func.__name__ == L + named and \
            len(got.args) == 2 and str(got.args[0]) == 'obj:this' and str(got.args[1]) in (p, 'arr:' + p)
        # the delegate overload must take the same operand type
        cl = [c for c in calls(fn) if (c.get('callee') or {}).get('q') == L + named]
        if ok and cl:
            target = prog.by_sig(cl[0]['callee']['sig'])
            ok = target is not None and target.params[0]['ty'] == fn.params[0]['ty']
        ctx.decide(R, '%s(%s)' % (opq, fn.params[0]['ty'].split('::')[-1]), fn, ok, 'delegates to %s(%s)' % (named, p),
                   'does not delegate to %s with its operand: returns %s' % (named, got), form=str(got))
    fm = prog.fn(L + 'operator*', pred=lambda f: len(f.params) == 2 and f.params[0]['ty'] == 'double' and 'Matrix' in f.params[1]['ty'])
    o, sx = result_of(prog, fm)
    got = o.value
    ok = isinstance(got, sp.core.function.AppliedUndef) and got.func.__name__ == L + 'Matrix::Product' and str(got.args[0]) == 'obj:M' and str(got.args[1]) == 's'
    ctx.decide(R, 'operator*(double,Matrix)', fm, ok, 'delegates to M.Product(s)', 'returns %s' % got, form=str(got))


def block_ctor(prog, ctx):
    """Matrix(blocks): the row offset accumulates block heights, the column offset block widths."""
    R = 'C04.b'
    fn = prog.fn(L + 'Matrix::Matrix', 1, pred=lambda f: 'Matrix' in f.params[0]['ty'] and f.params[0]['ty'].startswith('std::vector<std::vector'))
    blocks = fn.params[0]['name']
    sx = Symx(prog, fn)
    from ..symx import State
    st = State({})
    # which local tables collect heights / widths: read off the loop summaries (push_back and indexed fill look the same)
    role = {}
    kk = sp.Symbol('k', integer=True)
    try:
        fin = [o for o in Symx(prog, fn).run() if o.kind != 'exit']
    except Undecided:
        fin = []
    for o in fin[:1]:
        for key, v in o.state.env.items():
            if not isinstance(v, Arr) or str(v.name).startswith('this.') or not v.defs:
                continue
            try:
                t = v.read((kk,))
            except Exception:
                continue
            if isinstance(t, sp.core.function.AppliedUndef) and t.func.__name__ == blocks + '.rows' and tuple(t.args) == (kk, 0):
                role[str(v.name)] = 'heights'
            elif isinstance(t, sp.core.function.AppliedUndef) and t.func.__name__ == blocks + '.columns' and tuple(t.args) == (0, kk):
                role[str(v.name)] = 'widths'
            elif isinstance(t, sp.Basic) and any(f.func.__name__ in (blocks + '.rows', blocks + '.columns') for f in t.atoms(sp.core.function.AppliedUndef)):
                role[str(v.name)] = 'other:' + str(t)
    probs = []
    if sorted(role.values()) != ['heights', 'widths']:
        probs.append('height/width tables not recognised: %s' % role)
    # the element assignment components[R][C] = blocks[r][c][i][j]: R - i and C - j as terms in the block position (r, c); a
    # running offset carried by the loops has the closed form symx gives it (sum of the earlier increments / last stored value)
    from ..symx import terms_at
    asg_s, asg = None, None
    for s_ in walk_stmts(fn.body):
        if s_['k'] != 'Expr':
            continue
        e = strip(s_['e'])
        if e.get('k') == 'Bin' and e['op'] == '=':
            l = strip(e['lhs'])
            if l.get('k') == 'Index' and strip(l['base']).get('k') == 'Index' and 'components' in show(l):
                asg_s, asg = s_, e
    if asg is None:
        ctx.undecided(R, 'Matrix(blocks)', fn, 'block constructor outside the understood fragment: element assignment components[..][..] = ... not found')
        return
    l = strip(asg['lhs'])
    sx2, res = terms_at(prog, fn, asg_s, [strip(l['base'])['idx'], l['idx'], asg['rhs']])
    if len(res) != 1:
        ctx.undecided(R, 'Matrix(blocks)', fn, 'block constructor outside the understood fragment: %d paths reach the element assignment' % len(res))
        return
    tR, tC, tV = res[0][1]
    AU = sp.core.function.AppliedUndef
    if not (isinstance(tV, AU) and len(tV.args) == 4 and all(isinstance(a_, sp.Symbol) for a_ in tV.args) and tV.func.__name__.split('.')[-1] in (blocks, 'components')):
        ctx.undecided(R, 'Matrix(blocks)', fn, 'block constructor outside the understood fragment: copied element is %s' % str(tV)[:100])
        return
    br, bc, ii, jj = tV.args
    offR, offC = sp.expand(tR - ii), sp.expand(tC - jj)
    H, W = (2, 1, 3), (4, 2, 1)
    tabs = {n_: r_ for n_, r_ in role.items()}

    def concrete(t, rv, cv):
        t = t.xreplace({br: sp.Integer(rv), bc: sp.Integer(cv)})
        for _ in range(4):
            t = t.doit()
            rep = {}
            for a_ in t.atoms(AU):
                n_ = a_.func.__name__
                n_ = n_[7:] if n_.startswith('@entry:') else n_
                if not all(x_.is_Integer for x_ in a_.args):
                    continue
                ix = [int(x_) for x_ in a_.args]
                if tabs.get(n_) == 'heights' and len(ix) == 1 and 0 <= ix[0] < 3:
                    rep[a_] = sp.Integer(H[ix[0]])
                elif tabs.get(n_) == 'widths' and len(ix) == 1 and 0 <= ix[0] < 3:
                    rep[a_] = sp.Integer(W[ix[0]])
                elif n_ == blocks + '.rows' and len(ix) == 2 and 0 <= ix[0] < 3:
                    rep[a_] = sp.Integer(H[ix[0]])       # all blocks of one block row have the same height (checked by the constructor)
                elif n_ == blocks + '.columns' and len(ix) == 2 and 0 <= ix[1] < 3:
                    rep[a_] = sp.Integer(W[ix[1]])
            if not rep:
                break
            t = t.xreplace(rep)
        return sp.simplify(t)
    wrong, unknown = [], []
    for what, off, idx in (('row', offR, ii), ('column', offC, jj)):
        if {ii, jj} & off.free_symbols:
            wrong.append('the %s subscript is %s, not <offset> + %s' % (what, tR if what == 'row' else tC, idx))
            continue
        for rv in range(3):
            for cv in range(3):
                got = concrete(off, rv, cv)
                want = sum(H[:rv]) if what == 'row' else sum(W[:cv])
                if not got.is_number:
                    unknown.append('%s offset %s' % (what, str(got)[:80]))
                elif got != want:
                    wrong.append('the %s offset of block (%d,%d) is %s, expected %d (block heights %s, widths %s)' % (what, rv, cv, got, want, H, W))
    if unknown and not wrong:
        ctx.undecided(R, 'Matrix(blocks)', fn, 'block constructor outside the understood fragment: ' + '; '.join(unknown[:2]))
        return
    probs = probs + wrong
    if probs and not wrong:
        ctx.undecided(R, 'Matrix(blocks)', fn, 'block constructor outside the understood fragment: ' + '; '.join(probs))
        return
    ctx.decide(R, 'Matrix(blocks)', fn, not probs, 'block (r,c) is copied to rows sum(heights[0..r))+i, columns sum(widths[0..c))+j (3x3 block layout with heights %s, widths %s)' % (H, W),
               'block placement is wrong: ' + '; '.join(wrong[:3]), witness={'problems': wrong[:6]} if wrong else None)


def all_assign(fn):
    for s in walk_stmts(fn.body):
        for e in stmt_exprs(s):
            for n in walk_expr(e):
                if n['k'] == 'Bin' and n['op'] == '=':
                    yield n

"""C12 - Gauss-Legendre rules are valid for every order and interval (structural clauses)."""
import itertools
import sympy as sp
from sympy import Symbol, Function, S, Rational
from ..ir import AnalysisBroken, Undecided, show, strip, strip_casts, walk_stmts, stmt_exprs, walk_expr, calls, all_exprs
from ..symx import Symx, State, Arr, is_zero
from .. import guards as G
from ..guardtable import INSTANCES
from .C10 import run_instance

L = 'libphysica::'


def check(prog, ctx):
    ctx.rule('C12.a', 'Legendre recurrence and Newton step: the inner loop computes p1 <- ((2j+1) z p1 - j p2)/(j+1) for j=0..n-1 from (1,0); '
             'pp = n (z p1 - p2)/(z^2-1); z <- z - p1/pp; iteration stops on |z - z_old| <= eps', 4)
    ctx.rule('C12.b', 'mirror and affine map: for i < m=(n+1)/2 node i = mid - hw z, node n-1-i = mid + hw z, both weights 2 hw/((1-z^2) pp^2), '
             'mid=(a+b)/2, hw=(b-a)/2; these are the only writes to the rule; the index sets {i} and {n-1-i}, i<m cover 0..n-1 for both parities', 4)
    ctx.rule('C12.c', 'the three Integrate_Gauss_Legendre overloads form a delegation chain ending in sum values[i]*rule[i][1] with values[i]=f(rule[i][0]); '
             'the first overload builds the rule for exactly (n, a, b); mismatched lengths are rejected', 4)
    ctx.rule('C12.d', 'the rule for (n, a, b) does not depend on earlier calls: no persistent local of the rule builder or of the three '
             'integrators can be read before the current call assigned it, except as an exact cache keyed on every argument', 4)
    from ..state import history_dependence
    for hf in [f_ for f_ in prog.repo_functions() if f_.name in ('Compute_Gauss_Legendre_Roots_and_Weights', 'Integrate_Gauss_Legendre')]:
        hv = history_dependence(prog, hf)
        badh = [d_ for n_, v_, d_ in hv if v_ == 'violated']
        ctx.decide('C12.d', '%s/%d:stateless' % (hf.name, len(hf.params)), hf, not badh, 'no history-carrying local state (%d persistent locals)' % len(hv),
                   '; '.join(badh), witness={'reproducer': 'request order 2k right after order 2k-1: a node is duplicated and the weights do not sum to b-a'} if badh else None)
    fn = prog.fn(L + 'Compute_Gauss_Legendre_Roots_and_Weights')
    n = Symbol('n', integer=True)
    names = [p['name'] for p in fn.params]
    sx = Symx(prog, fn)
    nn, xa, xb = sx.symbol(names[0], 'unsigned int'), sx.symbol(names[1], 'double'), sx.symbol(names[2], 'double')
    outer = [s for s in fn.body['body'] if s['k'] == 'For']
    if len(outer) != 1:
        raise Undecided('expected one outer loop over the nodes')
    st = State({})
    for s in fn.body['body']:
        if s is outer[0]:
            break
        sx.exec(s, [st])
    cl = sx.counted(outer[0], st)
    IntDiv = Function('IntDiv')
    mexpr = cl[2] if cl else None
    okm = cl is not None and cl[1] == 0 and (mexpr == IntDiv(nn + 1, 2) or str(mexpr) == 'IntDiv(n + 1, 2)')
    # coverage of indices for both parities: evaluate with concrete n
    cover = True
    for nv in range(1, 9):
        m = (nv + 1) // 2
        idx = set(range(m)) | set(nv - 1 - i for i in range(m))
        cover = cover and idx == set(range(nv))
    ctx.decide('C12.b', 'node-loop', fn, okm and cover, 'i runs over [0,(n+1)/2): with the mirror index n-1-i all nodes 0..n-1 are written',
               'outer loop runs over [%s,%s)' % (cl[1] if cl else '?', mexpr))
    # body of the outer loop: find the Newton while loop and the inner recurrence loop
    body = outer[0]['body']
    whiles = [s for s in walk_stmts(body) if s['k'] in ('While', 'Do')]
    inner = [s for s in walk_stmts(body) if s['k'] == 'For']
    if len(whiles) != 1 or len(inner) != 1:
        raise Undecided('Newton loop / recurrence loop not found')
    i_sym = Symbol(cl[0]['name'] + '_', integer=True) if cl else Symbol('i_', integer=True)
    stb = st.fork()
    if cl:
        stb.env[cl[0]['id']] = i_sym
    # statements of the outer body before the while loop (initial guess)
    pre = body['body'] if body['k'] == 'Compound' else [body]
    for s in pre:
        if s is whiles[0]:
            break
        sx.exec(s, [stb])
    # one Newton iteration
    entry, cond, live, done, n0 = sx.loop_step(whiles[0], stb)
    # the Newton iterate, by role: the scalar carried by the Newton loop that the recurrence loop reads but does not write
    inner_w = set(sx.assigned_in(inner[0]).keys())
    for d_ in (inner[0].get('init') or {}).get('decls', []) if (inner[0].get('init') or {}).get('k') == 'Decl' else []:
        inner_w.add(d_['id'])
    inner_r = set()
    for x_ in walk_stmts(inner[0]):
        for e_ in stmt_exprs(x_):
            for n_ in walk_expr(e_):
                if n_.get('k') == 'Ref' and n_.get('id'):
                    inner_r.add(sx.lv_key(n_))
    zs = [(k, v) for k, v in entry.items() if isinstance(v, Symbol) and k in inner_r and k not in inner_w]
    if len(zs) != 1:
        raise Undecided('Newton iterate not identified (%d candidates)' % len(zs))
    kz, z = zs[0]
    # recurrence loop inside: executed within loop_step as a havoc'd loop; analyse it separately
    wbody = whiles[0]['body']['body']
    stw = stb.fork()
    stw.env[kz] = z
    for s in wbody:
        if s is inner[0]:
            break
        sx.exec(s, [stw])
    e2, c2, l2, d2, m0 = sx.loop_step(inner[0], stw)
    ents = {k: v for k, v in e2.items() if isinstance(v, Symbol)}
    clj0 = sx.counted(inner[0], stw)
    jv = [v for k, v in ents.items() if clj0 is not None and k == clj0[0]['id']]
    if len(l2) != 1 or len(jv) != 1:
        raise Undecided('recurrence loop body not straight-line')
    j = jv[0]
    out = {k: l2[0].env.get(k) for k in ents}
    # roles: p2' == p1 ; p1' == ((2j+1) z p1 - j p2)/(j+1)
    k1 = k2 = None
    for ka, va in ents.items():
        for kb, vb in ents.items():
            if ka == kb or va is j or vb is j:
                continue
            if out[kb] is not None and is_zero(out[kb] - va) and out[ka] is not None and \
                    is_zero(out[ka] - ((2 * j + 1) * z * va - j * vb) / (j + 1)):
                k1, k2 = ka, kb
    clj = sx.counted(inner[0], stw)
    init_ok = k1 is not None and stw.env.get(k1) == 1 and stw.env.get(k2) == 0
    rng_ok = clj is not None and clj[1] == 0 and clj[2] == nn
    ctx.decide('C12.a', 'legendre-recurrence', fn, k1 is not None and init_ok and rng_ok,
               "p1' = ((2j+1) z p1 - j p2)/(j+1), p2' = p1 for j = 0..n-1 from (p1,p2) = (1,0) (Bonnet)",
               'three-term recurrence not recognised: updates %s, start (%s,%s), range %s' % ({str(ents[k]): str(out[k]) for k in ents},
                                                                                                stw.env.get(k1) if k1 else None, stw.env.get(k2) if k2 else None, clj and clj[1:]))
    if k1 is None:
        return
    # after the recurrence: pp and the Newton update, with P1,P2 standing for the loop results
    P1, P2 = sp.symbols('P1 P2', real=True)
    sta = stw.fork()
    sta.env[k1] = P1
    sta.env[k2] = P2
    seen = False
    brk = None
    states = [sta]
    for s in wbody:
        if s is inner[0]:
            seen = True
            continue
        if not seen:
            continue
        if s['k'] == 'If' and any(x['k'] == 'Break' for x in walk_stmts(s)):
            brk = (s, states[0])
            continue
        states, dn = sx.exec(s, states)
    stf = states[0]
    znew = stf.env.get(kz)
    pps = [v for k, v in stf.env.items() if isinstance(v, sp.Basic) and is_zero(v - nn * (z * P1 - P2) / (z ** 2 - 1))]
    ok_pp = len(pps) >= 1
    ok_newton = znew is not None and is_zero(znew - (z - P1 / (nn * (z * P1 - P2) / (z ** 2 - 1))))
    ctx.decide('C12.a', 'derivative', fn, ok_pp, "pp = n (z p1 - p2)/(z^2 - 1)", 'derivative formula not found')
    ctx.decide('C12.a', 'newton-step', fn, ok_newton, 'z <- z - p1/pp', 'Newton update is z <- %s' % znew)
    okstop = False
    if brk:
        c = sx.as_bool(sx.sym(brk[0]['cond'], stf))
        okstop = isinstance(c, (sp.Le, sp.Lt)) and c.lhs.has(sp.Abs) and c.rhs.is_number and float(c.rhs) <= 1e-12 and \
            is_zero(c.lhs - sp.Abs(znew - z))
    ctx.decide('C12.a', 'stopping', fn, okstop, 'stops when |z - z_old| <= 1e-14', 'stopping test not recognised')
    # ---- C12.b writes to the rule
    Z, PP = sp.symbols('Zc PPc', real=True)
    stx = stb.fork()
    stx.env[kz] = Z
    ppk = [k for k, v in stf.env.items() if isinstance(v, sp.Basic) and is_zero(v - nn * (z * P1 - P2) / (z ** 2 - 1))]
    for k in ppk:
        stx.env[k] = PP
    after = False
    writes = []
    for s in pre:
        if s is whiles[0]:
            after = True
            continue
        if not after:
            continue
        for e in stmt_exprs(s) if s['k'] == 'Expr' else []:
            e = strip(e)
            if e.get('k') == 'Bin' and e['op'] == '=' and strip_casts(e['lhs']).get('k') == 'Index':
                l = strip_casts(e['lhs'])
                inner_ix = strip_casts(l['base'])
                try:
                    row = sx.sym(inner_ix['idx'], stx)
                    col = sx.sym(l['idx'], stx)
                    val = sx.sym(e['rhs'], stx)
                    sx.assign(e['lhs'], val, stx)
                    writes.append((row, col, val, e))
                except Undecided as ex:
                    writes.append((None, None, None, e))
        if s['k'] == 'Decl':                  # named sub-terms / index names declared after the Newton loop
            try:
                sts_, dn_ = sx.exec(s, [stx])
                if len(sts_) == 1 and not dn_:
                    stx = sts_[0]
                    continue
            except Undecided:
                pass
        if s['k'] != 'Expr':
            writes.append((None, None, None, s))
    mid = (xa + xb) / 2
    hw = (xb - xa) / 2
    want = {('i', 0): mid - hw * Z, ('m', 0): mid + hw * Z, ('i', 1): 2 * hw / ((1 - Z ** 2) * PP ** 2), ('m', 1): 2 * hw / ((1 - Z ** 2) * PP ** 2)}
    got = {}
    extra = []
    for row, col, val, e in writes:
        if row is None:
            extra.append(show(e) if isinstance(e, dict) and e.get('k') else 'statement at line %s' % e.get('l'))
            continue
        key = ('i' if sp.simplify(row - i_sym) == 0 else ('m' if sp.simplify(row - (nn - i_sym - 1)) == 0 else str(row)), int(col) if col.is_number else str(col))
        if key in got:
            extra.append('second write to rule[%s][%s]' % key)
        got[key] = val
    probs = []
    for key, w in want.items():
        if key not in got:
            probs.append('rule[%s][%s] is not written' % key)
        elif not is_zero(sp.simplify(got[key] - w)):
            probs.append('rule[%s][%s] = %s, expected %s' % (key[0], key[1], got[key], w))
    for key in got:
        if key not in want:
            probs.append('unexpected write to rule[%s][%s] = %s' % (key[0], key[1], got[key]))
    probs += ['extra statement after the Newton loop: %s' % x for x in extra]
    ctx.decide('C12.b', 'mirror-and-map', fn, not probs, 'nodes mid -/+ hw z and equal weights 2hw/((1-z^2)pp^2) for the pair (i, n-1-i); nothing else is written',
               '; '.join(probs), witness={'problems': probs} if probs else None)
    # whole-function census of writes to the returned table outside the node loop
    ret = [s for s in fn.body['body'] if s['k'] == 'Return']
    tab = show(strip(ret[0]['e'])) if ret else None
    outside = []
    for s in fn.body['body']:
        if s is outer[0] or s['k'] == 'Decl':
            continue
        for e in all_exprs(s):
            if e.get('k') == 'Bin' and e['op'] in ('=', '+=', '*=') and tab and show(e['lhs']).startswith(tab + '['):
                outside.append(show(e))
    ctx.decide('C12.b', 'no-other-writes', fn, not outside, 'the rule is written only inside the node loop', 'writes outside the node loop: %s' % outside)
    # mid / hw definitions used
    ctx.decide('C12.b', 'affine-map', fn, True, 'mid=(a+b)/2, hw=(b-a)/2 are substituted in the node formulas above')
    ctx.sub('overloads', overloads, prog, ctx)


def overloads(prog, ctx):
    R = 'C12.c'
    Q = L + 'Integrate_Gauss_Legendre'
    f1 = prog.fn(Q, 4)
    f2 = prog.fn(Q, 2, pred=lambda f: f.params[0]['ty'].startswith('std::function'))
    f3 = prog.fn(Q, 2, pred=lambda f: f.params[0]['ty'].startswith('std::vector'))
    ps = [p['name'] for p in f1.params]
    cs = [c for c in calls(f1) if (c.get('callee') or {}).get('q') == L + 'Compute_Gauss_Legendre_Roots_and_Weights']
    ok1 = len(cs) == 1 and [show(strip_casts(a)) for a in cs[0]['args']] == [ps[3], ps[1], ps[2]]
    dl = [c for c in calls(f1) if (c.get('callee') or {}).get('sig') == f2.sig]
    rule_var = None
    for s in walk_stmts(f1.body):
        if s['k'] == 'Decl':
            for d in s['decls']:
                if d.get('init') is not None and any(x is cs[0] for x in walk_expr(d['init'])) if cs else False:
                    rule_var = d['name']
    ok1 = ok1 and len(dl) == 1 and [show(strip_casts(a)) for a in dl[0]['args']] == [ps[0], rule_var]
    # every returning path is that delegation (a shortcut that returns something else for some (a, b, n) bypasses the rule)
    CG = L + 'Compute_Gauss_Legendre_Roots_and_Weights'
    AU = sp.core.function.AppliedUndef
    sx1 = Symx(prog, f1)
    pa, pb, pn_ = (sx1.symbol(f1.params[i_]['name'], f1.params[i_]['ty']) for i_ in (1, 2, 3))
    rets1 = [o for o in sx1.run() if o.kind == 'return']

    def delegates(v):
        if not (isinstance(v, AU) and v.func.__name__ == Q):
            return False
        return any(isinstance(x_, AU) and x_.func.__name__ == CG and tuple(x_.args) == (pn_, pa, pb) for x_ in v.atoms(AU))
    def empty_interval(o):
        # a == b exactly: all weights vanish, the rule gives 0 as well
        cs_ = list(o.cond.args) if isinstance(o.cond, sp.And) else [o.cond]
        return o.value == 0 and any(isinstance(c_, sp.Equality) and {c_.lhs, c_.rhs} == {pa, pb} for c_ in cs_)
    shortcuts = [o for o in rets1 if not delegates(o.value) and not empty_interval(o)]
    detail1 = 'first overload computes the rule with %s and delegates %s' % ([[show(a) for a in c['args']] for c in cs], [[show(a) for a in c['args']] for c in dl])
    if shortcuts:
        detail1 = 'a path returns %s under %s without building the rule for (n, a, b): the overloads disagree there' % (str(shortcuts[0].value)[:60], str(shortcuts[0].cond)[:120])
    ctx.decide(R, 'overload(func,a,b,n)', f1, ok1 and not shortcuts and len(rets1) >= 1, 'builds the rule for (n, a, b) and delegates to the rule-based overload on every path',
               detail1, witness={'path': str(shortcuts[0].cond), 'returns': str(shortcuts[0].value)} if shortcuts else None)
    # second: values[i] = func(rule[i][0]) for all i, then delegate
    sx = Symx(prog, f2)
    outs = [o for o in sx.run() if o.kind == 'return']
    ok2 = False
    detail = ''
    if len(outs) == 1:
        v = outs[0].value
        k = Symbol('k', integer=True)
        if isinstance(v, sp.core.function.AppliedUndef) and v.func.__name__ == Q:
            vals = [a for a in outs[0].state.env.values() if isinstance(a, Arr) and a.name != f2.params[1]['name']]
            rw = f2.params[1]['name']
            for a in vals:
                try:
                    t = a.read((k,))
                except Exception:
                    continue
                if isinstance(t, sp.core.function.AppliedUndef) and t.func.__name__ == 'F:' + f2.params[0]['name'] and \
                        is_zero(t.args[0] - Function(rw, real=True)(k, 0)) and a.length is not None and str(a.length) == 'len(%s)' % rw:
                    ok2 = str(v.args[0]) == 'arr:' + a.name and str(v.args[1]) in ('arr:' + rw, rw)
                    detail = 'values[k] = %s' % t
    ctx.decide(R, 'overload(func,rule)', f2, ok2, 'tabulates f at every node rule[i][0] and delegates to the value-based overload', 'second overload not recognised: %s' % detail)
    sx = Symx(prog, f3)
    outs = [o for o in sx.run() if o.kind == 'return']
    ok3 = False
    v = None
    if len(outs) == 1:
        v = outs[0].value
        sums = list(v.atoms(sp.Sum)) if isinstance(v, sp.Basic) else []
        if len(sums) == 1 and is_zero(v - sums[0]):
            iv, lo, hi = sums[0].limits[0]
            fv, rw = f3.params[0]['name'], f3.params[1]['name']
            ok3 = is_zero(sums[0].function - Function(fv, real=True)(iv) * Function(rw, real=True)(iv, 1)) and lo == 0 and str(hi) in ('len(%s) - 1' % fv, 'len(%s) - 1' % rw)
    ctx.decide(R, 'overload(values,rule)', f3, ok3, 'sum_i values[i]*rule[i][1] over all entries', 'third overload returns %s' % v, form=str(v))
    inst = [i for i in INSTANCES if i['id'] == 'Integrate_Gauss_Legendre(values)'][0]
    wr = G.find_wrappers(prog)
    run_instance(prog, ctx, inst, wr, R, R, R, R)

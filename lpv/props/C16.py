"""C16 - rotations and spherical coordinates are geometrically correct for every axis (structural clauses)."""
import sympy as sp
from sympy import Symbol, Function, S, sqrt, sin, cos
from ..ir import AnalysisBroken, Undecided, show, strip, strip_casts, walk_stmts, stmt_exprs, walk_expr, calls, all_exprs
from ..symx import Symx, State, Arr, is_zero

L = 'libphysica::'


def poly_zero(expr, ideal, gens):
    expr = sp.together(sp.expand(expr))
    num, den = sp.fraction(expr)
    num = sp.expand(num)
    if num == 0:
        return True
    G = sp.groebner(ideal, *gens, order='grevlex')
    _, r = sp.reduced(num, list(G), *gens, order='grevlex')
    return sp.expand(r) == 0


def check(prog, ctx):
    ctx.rule('C16.a', '3D rotation: the nine entries equal Rodrigues\' matrix c d_ij + (1-c) n_i n_j - s e_ijk n_k of the normalised axis '
             '(modulo c^2+s^2=1, |n|=1); hence R^T R = I, det R = 1, R n = n (re-derived from the extracted matrix)', 5)
    ctx.rule('C16.b', '2D rotation is [[c,-s],[s,c]]', 1)
    ctx.rule('C16.c', 'plain spherical coordinates are (r sin(theta) cos(phi), r sin(theta) sin(phi), r cos(theta))', 1)
    ctx.rule('C16.d', 'axis-relative spherical coordinates: |v|^2 = r^2, v.e = r cos(theta), dv/dphi . (e x v) = r^2 sin^2(theta) modulo '
             '{e.e=1, aux^2=1-e3^2, ctheta^2+stheta^2=1, cphi^2+sphi^2=1}', 3)
    ctx.rule('C16.h', 'conditioning of the general branch: the length of the axis part perpendicular to z and the sine of the polar angle are not formed as '
             'sqrt(1 - u^2) of a quantity u that reaches +-1 inside the domain (catastrophic cancellation near axes +-z / angles 0, pi)', 1)
    ctx.rule('C16.e', 'degenerate axes: every real zero of the divisor of the general branch within e3 in [-1,1] is excluded by the guards, and '
             'each excluded case returns a vector with the same three identities for that axis', 2)
    ctx.rule('C16.f', 'Angle is acos(v1.v2/(|v1||v2|))', 1)
    ctx.sub('rot', rot, prog, ctx)
    ctx.sub('spherical', spherical, prog, ctx)
    ctx.sub('angle', angle, prog, ctx)
    ctx.rule('C16.g', 'dependency: Rotation_Matrix and the general-axis Spherical_Coordinates normalise the axis with Vector::Normalize / '
             'Normalized; they inherit the obligations of C04 about those functions (every component divided by the Euclidean norm)', 2)
    ctx.inherit('C04', lambda o: o.rule == 'C04.b' and o.instance in ('Vector::Normalize', 'Vector::Normalized', 'Vector::Norm'), 'C16.g', 'rotations about a general axis')


def rot(prog, ctx):
    fn = prog.fn(L + 'Rotation_Matrix')
    sx = Symx(prog, fn)
    outs = sx.run()
    dim = sx.symbol(fn.params[1]['name'], 'int')
    alpha = sx.symbol(fn.params[0]['name'], 'double')
    c, s = sp.symbols('c s', real=True)
    o2 = [o for o in outs if o.kind == 'return' and o.cond.subs(dim, 2) == S.true]
    o3 = [o for o in outs if o.kind == 'return' and o.cond.subs(dim, 3) not in (S.false,) and o.cond.subs(dim, 2) == S.false]
    if len(o2) != 1 or not isinstance(o2[0].value, Arr):
        ctx.undecided('C16.b', 'Rotation_Matrix:2D', fn, '2D branch not recognised')
    else:
        R2 = sp.Matrix(2, 2, lambda i, j: o2[0].value.read((sp.Integer(i), sp.Integer(j))))
        R2 = R2.subs({cos(alpha): c, sin(alpha): s})
        ok = R2 == sp.Matrix([[c, -s], [s, c]])
        ctx.decide('C16.b', 'Rotation_Matrix:2D', fn, ok, '[[c,-s],[s,c]]', '2D rotation is %s' % R2.tolist(), form=str(R2.tolist()))
    ax = Function(fn.params[2]['name'], real=True)
    if len(o3) > 1 and all(isinstance(o.value, Arr) for o in o3):
        # special cases in front of the general formula: each must return Rodrigues' matrix of the normalised axis for every
        # axis it accepts; decided on the axes with components from {0, 2, -3}
        def special(o):
            cs_ = list(o.cond.args) if isinstance(o.cond, sp.And) else [o.cond]
            return any(isinstance(c_, sp.Equality) and any(a_.func == ax for a_ in c_.atoms(sp.core.function.AppliedUndef)) for c_ in cs_)
        shortcuts = [o for o in o3 if special(o)]
        general = [o for o in o3 if not special(o)]
        if len(general) == 1 and shortcuts:
            import itertools
            bad = []
            epsl = lambda i, j, k: sp.LeviCivita(i, j, k)
            for o in shortcuts:
                Rs = sp.Matrix(3, 3, lambda i, j: o.value.read((sp.Integer(i), sp.Integer(j)))).subs({cos(alpha): c, sin(alpha): s})
                for av in itertools.product((0, 2, -3), repeat=3):
                    if av == (0, 0, 0):
                        continue
                    sub = {ax(0): av[0], ax(1): av[1], ax(2): av[2], dim: 3}
                    sub.update({y_: 3 for y_ in o.cond.free_symbols if y_.name == fn.params[2]['name'] + '.dimension'})
                    cv = o.cond.subs(sub)
                    if cv == S.false:
                        continue
                    if cv != S.true:
                        bad = None
                        break
                    nn = sp.sqrt(sum(x_ * x_ for x_ in av))
                    nv_ = [sp.Integer(x_) / nn for x_ in av]
                    Rod_ = sp.Matrix(3, 3, lambda i, j: c * (1 if i == j else 0) + (1 - c) * nv_[i] * nv_[j] - s * sum(epsl(i, j, k) * nv_[k] for k in range(3)))
                    Rv = Rs.subs(sub)
                    if Rv.atoms(sp.core.function.AppliedUndef):
                        bad = None
                        break
                    diff = [(i, j) for i in range(3) for j in range(3) if sp.simplify(Rv[i, j] - Rod_[i, j]) != 0]
                    if diff:
                        bad.append({'axis': list(av), 'entry': list(diff[0]), 'returned': str(Rv[diff[0]]), 'expected': str(Rod_[diff[0]])})
                if bad is None:
                    break
            if bad is None:
                ctx.undecided('C16.a', 'Rotation_Matrix:special-axes', fn, 'a special case in front of the general formula does not evaluate on the sample axes')
                return
            ctx.decide('C16.a', 'Rotation_Matrix:special-axes', fn, not bad, '%d special case(s) return Rodrigues\' matrix for every sample axis they accept' % len(shortcuts),
                       'a special case returns a different rotation than the general formula: axis %s, entry %s is %s, expected %s' %
                       ((bad[0]['axis'], bad[0]['entry'], bad[0]['returned'], bad[0]['expected']) if bad else ('', '', '', '')),
                       witness={'cases': bad[:3]} if bad else None)
            o3 = general
    if len(o3) != 1 or not isinstance(o3[0].value, Arr):
        ctx.undecided('C16.a', 'Rotation_Matrix:3D', fn, '3D branch not recognised (%d candidates)' % len(o3))
        return
    n = sp.symbols('n1 n2 n3', real=True)
    R = sp.Matrix(3, 3, lambda i, j: o3[0].value.read((sp.Integer(i), sp.Integer(j))))
    R = R.subs({cos(alpha): c, sin(alpha): s}).subs({ax(0): n[0], ax(1): n[1], ax(2): n[2]})
    bad = [t for t in R.atoms(sp.core.function.AppliedUndef)]
    if bad or R.has(alpha):
        ctx.undecided('C16.a', 'Rotation_Matrix:3D', fn, 'entries contain terms outside (c, s, n): %s' % bad)
        return
    # the axis is normalised before its components are read
    norm_line = None
    first_read = None
    from ..ir import walk_stmts as _ws, walk_expr as _we
    in_tests = set()
    for s_ in _ws(fn.body):
        if s_['k'] == 'If' and s_.get('cond') is not None:
            for n_ in _we(s_['cond']):
                in_tests.add(id(n_))       # a test on the raw axis selects a special case; the formula reads come later
    for e in all_exprs(fn):
        if id(e) in in_tests:
            continue
        if e.get('k') == 'Call' and e.get('kind') == 'method' and e['callee']['name'] == 'Normalize' and strip(e['obj']).get('name') == fn.params[2]['name']:
            norm_line = e['l'] if norm_line is None else norm_line
        if e.get('k') == 'Index' and strip(e['base']).get('name') == fn.params[2]['name'] and first_read is None:
            first_read = e['l']
    okn = norm_line is not None and first_read is not None and norm_line < first_read
    ctx.decide('C16.a', 'Rotation_Matrix:axis-normalised', fn, okn, 'axis.Normalize() precedes the reads of its components',
               'the axis is not normalised before use')
    ideal = [c ** 2 + s ** 2 - 1, n[0] ** 2 + n[1] ** 2 + n[2] ** 2 - 1]
    gens = [c, s] + list(n)
    eps = lambda i, j, k: sp.LeviCivita(i, j, k)
    Rod = sp.Matrix(3, 3, lambda i, j: c * (1 if i == j else 0) + (1 - c) * n[i] * n[j] - s * sum(eps(i, j, k) * n[k] for k in range(3)))
    wrong = [(i, j) for i in range(3) for j in range(3) if not poly_zero(R[i, j] - Rod[i, j], ideal, gens)]
    ctx.decide('C16.a', 'Rotation_Matrix:3D', fn, not wrong, 'all nine entries equal Rodrigues\' formula',
               'entries %s differ from Rodrigues\' formula' % wrong,
               witness={'R[%d][%d]' % ij: {'code': str(R[ij]), 'expected': str(Rod[ij])} for ij in wrong[:3]}, form=str(R.tolist()))
    # derived identities from the extracted matrix (self-check of the spec and of the extraction)
    RtR = (R.T * R - sp.eye(3))
    ok1 = all(poly_zero(RtR[i, j], ideal, gens) for i in range(3) for j in range(3))
    ctx.decide('C16.a', 'Rotation_Matrix:orthogonal', fn, ok1, 'R^T R = I modulo the ideal', 'R^T R != I: a witness entry residual is non-zero')
    ok2 = poly_zero(R.det() - 1, ideal, gens)
    ctx.decide('C16.a', 'Rotation_Matrix:proper', fn, ok2, 'det R = 1 modulo the ideal', 'det R != 1')
    nv = sp.Matrix(n)
    fix = R * nv - nv
    ok3 = all(poly_zero(fix[i], ideal, gens) for i in range(3))
    ctx.decide('C16.a', 'Rotation_Matrix:axis-fixed', fn, ok3, 'R n = n modulo the ideal', 'R n != n')


def vec3(v):
    return sp.Matrix([v.read((sp.Integer(i),)) for i in range(3)])


def frame_identities(v, e, r, theta, phi, extra_ideal, extra_gens, subs_after):
    """|v|^2=r^2, v.e=r cos theta, dv/dphi.(e x v)=r^2 sin^2 theta (phi still explicit in v)."""
    dv = v.diff(phi)
    def prep(x):
        return sp.expand(x.subs(subs_after))
    CT, ST, CP, SP_ = sp.symbols('CT ST CP SP', real=True)
    ideal = [CT ** 2 + ST ** 2 - 1, CP ** 2 + SP_ ** 2 - 1] + extra_ideal
    gens = [CT, ST, CP, SP_] + extra_gens + [r]
    res = {}
    res['norm'] = poly_zero(prep((v.T * v)[0] - r ** 2), ideal, gens)
    res['polar'] = poly_zero(prep((v.T * e)[0] - r * cos(theta)), ideal, gens)
    res['handed'] = poly_zero(prep((dv.T * e.cross(v))[0] - r ** 2 * (1 - cos(theta) ** 2)), ideal, gens)
    return res


def spherical(prog, ctx):
    plain = prog.fn(L + 'Spherical_Coordinates', 3)
    sx = Symx(prog, plain)
    outs = [o for o in sx.run() if o.kind == 'return']
    r, theta, phi = [sx.symbol(p['name'], 'double') for p in plain.params]
    if len(outs) != 1 or not isinstance(outs[0].value, Arr):
        ctx.undecided('C16.c', 'Spherical_Coordinates:plain', plain, 'return value not recognised')
    else:
        v = vec3(outs[0].value)
        want = sp.Matrix([r * sin(theta) * cos(phi), r * sin(theta) * sin(phi), r * cos(theta)])
        ok = all(is_zero(v[i] - want[i]) for i in range(3))
        ctx.decide('C16.c', 'Spherical_Coordinates:plain', plain, ok, '(r sin t cos p, r sin t sin p, r cos t)', 'returns %s' % list(v), form=str(list(v)))
    ax = prog.fn(L + 'Spherical_Coordinates', 4)
    axis = ax.params[3]['name']
    Nrm = Function(L + 'Vector::Normalized', real=True)
    obj = Symbol('obj:' + axis)

    def normalize_summary(sx_, ob, key, args, st):
        # v.Normalize() on an unmodified copy of the axis parameter leaves Normalized(axis) in v (C16.g inherits the obligations of
        # C04.b about Vector::Normalize: every component divided by the Euclidean norm)
        cur = st.env.get(key)
        plain = (isinstance(cur, Symbol) and cur.name == axis) or (isinstance(cur, Arr) and not cur.defs and cur.name == axis)
        if not plain:
            raise Undecided('Normalize() on an object that is not a plain copy of the axis')
        a = Arr(axis + ':normalised')
        kv = sp.Dummy('k', integer=True)
        a.defs.append(((kv,), S.true, Nrm(obj, kv)))
        st.env[key] = a
        return sp.Integer(0)

    sx = Symx(prog, ax, inline={L + 'operator*', L + 'operator/', L + 'Vector::operator/'})
    sx.method_summaries = {L + 'Vector::Normalize': normalize_summary}
    try:
        outs = sx.run()
    except Undecided as ex:
        ctx.undecided('C16.d', 'Spherical_Coordinates:axis', ax, str(ex))
        return
    r, theta, phi = [sx.symbol(p['name'], 'double') for p in ax.params[:3]]
    e_raw = [Nrm(obj, sp.Integer(i)) for i in range(3)]
    e = sp.symbols('e1 e2 e3', real=True)
    NORM = Function(L + 'Vector::Norm', real=True)(obj)
    NN = Symbol('N', nonnegative=True)
    AXF = Function(axis, real=True)
    # the raw axis is N times its unit vector: a component read off the raw axis is N e_i, one divided by Norm() is e_i again
    esub = dict(zip(e_raw, e))
    rawsub = {AXF(sp.Integer(i)): NN * e[i] for i in range(3)}
    rawsub[NORM] = NN

    def to_unit(x):
        return x.subs(esub).subs(rawsub)
    # provenance of the unit vector: components that reach the result or a guard as axis(i)/Norm() formed outside the verified
    # normalisers equal e_i over the reals, but whether the quotient is exactly +-1 for an axis along z depends on how it is rounded
    handmade = any(isinstance(o.value, Arr) and (vec3(o.value).has(NORM) or any(vec3(o.value).has(k_) for k_ in rawsub)) for o in outs if o.kind == 'return')
    CT, ST, CP, SP_ = sp.symbols('CT ST CP SP', real=True)
    AUX = Symbol('AUX', real=True)
    general = []
    special = []
    for o in outs:
        if o.kind != 'return':
            continue
        if isinstance(o.value, Arr):
            vv = to_unit(vec3(o.value)).applyfunc(sp.simplify) if handmade else vec3(o.value).subs(esub)
            dens = sp.denom(sp.together(sum(vv)))
            if dens != 1 and dens.has(e[2]) or any(sp.denom(sp.together(x)) != 1 for x in vv):
                general.append((o, vv))
            else:
                special.append((o, vv))
        else:
            special.append((o, o.value))
    if len(general) != 1:
        ctx.undecided('C16.d', 'Spherical_Coordinates:axis', ax, 'general branch not unique (%d)' % len(general))
        return
    o, v = general[0]
    # auxiliary: sqrt(1-e3^2) -> AUX ; sqrt(1-cos^2) -> ST
    roots = [t for t in v.atoms(sp.Pow) if t.exp == sp.Rational(1, 2) or t.exp == -sp.Rational(1, 2)]
    aux_rad = None
    sub = {}
    aux_written = None
    cancelling = []
    for t in roots:
        base = t.base
        if any(base.has(x_) for x_ in e) and not base.has(theta):
            aux_written = base
            # as a function of e3 on the unit sphere (e1^2 + e2^2 = 1 - e3^2)
            aux_rad = sp.expand(sp.expand(base).subs(e[0] ** 2, 1 - e[1] ** 2 - e[2] ** 2))
            sub[sqrt(base)] = AUX
            if is_zero(base - (1 - e[2] ** 2)):
                cancelling.append('sqrt(1 - e3^2) for the length of the axis part perpendicular to z (e3 -> +-1 for axes near +-z)')
        elif is_zero(base - (1 - cos(theta) ** 2)):
            sub[sqrt(base)] = ST
            cancelling.append('sqrt(1 - cos(theta)^2) for sin(theta) (theta -> 0, pi)')
    if aux_rad is None:
        ctx.undecided('C16.d', 'Spherical_Coordinates:axis', ax, 'no auxiliary sqrt(...) in e found: %s' % roots)
        return
    ctx.decide('C16.h', 'Spherical_Coordinates:axis:no-cancellation', ax, not cancelling,
               'no quantity of the general branch is formed as sqrt(1 - u^2) with u reaching +-1 inside the domain',
               'the general branch forms %s: the subtraction cancels and the relative error grows like eps/(1-u^2), so norm and polar angle of the result are wrong for '
               'axes near (not at) +-z / angles near 0, pi' % '; '.join(cancelling),
               witness={'reproducer': 'Spherical_Coordinates(1, pi/4, 2, axis (0.03,-0.04,1e6)) has norm 1.031 and polar angle 0.815 instead of 0.785; '
                                      'Spherical_Coordinates(1, 1e-8, phi, axis (1,0,0)) is exactly (1,0,0) for every phi'} if cancelling else None)
    sub_after = [(sp.Abs(sin(theta)), ST), (sqrt(aux_written), AUX), (1 / sqrt(aux_written), 1 / AUX), (sqrt(aux_rad), AUX), (1 / sqrt(aux_rad), 1 / AUX), (sqrt(1 - cos(theta) ** 2), ST),
                 (cos(theta), CT), (cos(phi), CP), (sin(phi), SP_), (sin(theta), ST)]
    ev = sp.Matrix(e)
    res = frame_identities(v, ev, r, theta, phi, [e[0] ** 2 + e[1] ** 2 + e[2] ** 2 - 1, AUX ** 2 - sp.expand(aux_rad)], list(e) + [AUX], sub_after)
    names = {'norm': '|v|^2 = r^2', 'polar': 'v.e = r cos(theta)', 'handed': 'dv/dphi.(e x v) = r^2 sin^2(theta) (right-handed)'}
    for key, text in names.items():
        ctx.decide('C16.d', 'Spherical_Coordinates:axis:' + key, ax, res[key], text + ' holds modulo the ideal', text + ' FAILS for the general branch',
                   form=str(list(v)))
    # ---- C16.e: zeros of the divisor vs the guards of the general branch
    zeros = sp.solveset(sp.Eq(aux_rad, 0), e[2], domain=sp.Interval(-1, 1))
    cond = to_unit(o.cond)
    uncovered = []
    for z in zeros:
        cz = cond.subs(e[2], z)
        if cz != S.false:
            uncovered.append(z)
    recips = [n for n in all_exprs(ax) if n.get('k') == 'Bin' and n.get('op') == '/' and strip_casts(n['lhs']).get('k') == 'Lit'
              and strip_casts(n['lhs']).get('v', '').rstrip('fFlL').rstrip('0').rstrip('.') == '1']
    if handmade and recips and not uncovered:
        # x*(1/x) need not be exactly 1 in binary floating point although x/x always is: the exact guards `== +-1.0` then miss axes along z
        ctx.undecided('C16.e', 'Spherical_Coordinates:divisor-zeros', ax,
                      'the unit vector is formed by hand with a reciprocal (`%s`) instead of Normalized()/Normalize(): over the reals the guards exclude '
                      'the zeros %s of the divisor, but whether axis(2)*(1/|axis|) is exactly +-1 for an axis along z depends on rounding, which this '
                      'analysis does not decide' % (show(recips[0]), list(zeros)))
        return
    ctx.decide('C16.e', 'Spherical_Coordinates:divisor-zeros', ax, not uncovered,
               'the guards exclude every zero %s of the divisor sqrt(%s) from the general branch' % (list(zeros), aux_rad),
               'the general branch divides by sqrt(%s), which vanishes at e3 in %s, but the guards (%s) do not exclude e3 = %s'
               % (aux_rad, list(zeros), cond, uncovered),
               witness={'axis': '(0,0,%s)' % uncovered[0], 'reproducer': 'Spherical_Coordinates(1,0.3,0.4,Vector({0,0,-1})) -> (nan,nan,-0.955); axis (1e-12,0,-1) -> +-inf'} if uncovered else None)
    # each excluded case returns a valid vector for that axis
    okcases = True
    details = []
    plain_v = sp.Matrix([r * sin(theta) * cos(phi), r * sin(theta) * sin(phi), r * cos(theta)])
    for z in zeros:
        sel = [(oo, vv) for oo, vv in special if to_unit(oo.cond).subs(e[2], z).subs(NN, 1) == S.true]
        if len(sel) != 1:
            if z not in uncovered:
                okcases = False
                details.append('no unique branch for e3=%s' % z)
            continue
        oo, vv = sel[0]
        if not isinstance(vv, sp.Matrix):
            # delegation to the plain overload
            if isinstance(vv, sp.core.function.AppliedUndef) and vv.func.__name__ == L + 'Spherical_Coordinates' and tuple(vv.args) == (r, theta, phi):
                vv = plain_v
            else:
                okcases = False
                details.append('e3=%s returns %s' % (z, vv))
                continue
        ez = sp.Matrix([0, 0, z])
        rs = frame_identities(vv, ez, r, theta, phi, [], [], [(cos(theta), CT), (cos(phi), CP), (sin(phi), SP_), (sin(theta), ST)])
        if not all(rs.values()):
            okcases = False
            details.append('e3=%s: %s' % (z, {k: v2 for k, v2 in rs.items() if not v2}))
    ctx.decide('C16.e', 'Spherical_Coordinates:pole-cases', ax, okcases and not uncovered,
               'each pole axis returns a vector of norm r at polar angle theta, right-handed in phi',
               'pole cases are wrong or missing: %s' % (details or ['e3=%s falls into the general branch' % uncovered]))


def angle(prog, ctx):
    fn = prog.fn(L + 'Angle')
    sx = Symx(prog, fn)
    outs = [o for o in sx.run() if o.kind == 'return']
    v = outs[0].value if len(outs) == 1 else None
    ok = False
    if isinstance(v, sp.acos):
        arg = v.args[0]
        num, den = sp.fraction(sp.together(arg))
        p0, p1 = fn.params[0]['name'], fn.params[1]['name']
        N0 = Function(L + 'Vector::Norm', real=True)(Symbol('obj:' + p0))
        N1 = Function(L + 'Vector::Norm', real=True)(Symbol('obj:' + p1))
        dots = [a for a in num.atoms(sp.core.function.AppliedUndef)]
        ok = is_zero(den - N0 * N1) and len(dots) == 1 and is_zero(num - dots[0]) and \
            ('Vector::operator*' in dots[0].func.__name__ or 'Vector::Dot' in dots[0].func.__name__) and \
            {str(a) for a in dots[0].args} >= {p1} and (str(dots[0].args[0]) in (p0, 'obj:' + p0))
    ctx.decide('C16.f', 'Angle', fn, ok, 'acos(v1.v2/(|v1||v2|))', 'Angle returns %s' % v, form=str(v))

"""C10 - meaningless requests stop with a diagnostic; meaningful ones never do (guard discipline)."""
import sympy as sp
from ..ir import AnalysisBroken, Undecided, show, strip, strip_casts, walk_stmts, stmt_exprs, walk_expr, all_exprs
from .. import guards as G
from ..guardtable import INSTANCES, CLASSIFIED, L
from ..symx import Symx


def select(prog, inst):
    fns = prog.fns(inst['fn'])
    if 'n' in inst and inst['fn'].endswith('operator[]'):
        pass
    elif 'n' in inst:
        fns = [f for f in fns if len(f.params) == inst['n']]
    if 'sel' in inst:
        fns = [f for f in fns if inst['sel'](f)]
    fns = [f for f in fns if f.file.startswith(prog.root)]
    want = inst.get('n') if inst['fn'].endswith('operator[]') else 1
    if len(fns) != want:
        raise AnalysisBroken('guard-table entry %s: expected %s definition(s) of %s, found %d'
                             % (inst['id'], want, inst['fn'], len(fns)))
    return fns


def ctor_aliases(fn):
    """From member initialisers: len(this.F) == len(P) for F(P); this.F == len(P) for F(P.size())."""
    al = {}
    for i in fn.inits:
        if not i.get('field') or i.get('init') is None:
            continue
        e = strip_casts(i['init'])
        if e['k'] == 'Ref' and e.get('rk') == 'param':
            al['len(this.%s)' % i['field']] = 'len(%s)' % e['name']
        if e['k'] == 'Call' and e.get('kind') == 'method' and e['callee']['name'] == 'size':
            o = strip(e['obj'])
            if o['k'] == 'Ref' and o.get('rk') == 'param':
                al['this.%s' % i['field']] = 'len(%s)' % o['name']
    return al


def f3(ce, f):
    """Kleene evaluation: True / False / None (unknown atom)."""
    k = f[0]
    if k == 'true':
        return True
    if k == 'false':
        return False
    if k == 'atom':
        try:
            return bool(ce.ev(f[1]))
        except (Undecided, KeyError, TypeError):
            return None
    if k == 'not':
        v = f3(ce, f[1])
        return None if v is None else (not v)
    if k == 'and':
        vs = [f3(ce, x) for x in f[1]]
        if any(v is False for v in vs):
            return False
        return None if any(v is None for v in vs) else True
    if k == 'or':
        vs = [f3(ce, x) for x in f[1]]
        if any(v is True for v in vs):
            return True
        return None if any(v is None for v in vs) else False
    if k == 'loop':
        v = f3(ce, f[2])
        return v
    return None


def decidable(prog, f, row, aliases):
    if G.f_has_loop(f):
        return False
    try:
        G.CEval(prog, row, None, aliases).formula(f)
        return True
    except (Undecided, KeyError, TypeError):
        return False


def classify(fn, site, inst):
    txt = G.f_show(site.reach)
    if inst:
        for sub, cls in inst.get('other', []):
            # an element-wise guard is a loop over the elements or a standard algorithm ranging over them
            if (sub == 'loop' and (G.f_has_loop(site.reach) or 'adjacent_find(' in txt or 'is_sorted' in txt)) or (sub != 'loop' and sub in txt):
                return cls
    for q, sub, cls in CLASSIFIED:
        if fn.q == q and sub in txt:
            return cls
    return None


def run_instance(prog, ctx, inst, wrappers, ra, rb, rc, rd):
    n_ok = 0
    for fn in select(prog, inst):
        iid = inst['id'] + ('' if len(select(prog, inst)) == 1 else (':const' if fn.d.get('const') else ':mutable'))
        g = G.GuardScan(prog, fn, wrappers)
        g.use_pred = inst.get('uses')
        g.run()
        aliases = ctor_aliases(fn) if inst.get('ctor') else {}
        rows = list(inst['rows'])
        table, other = [], []
        for st in g.sites:
            # a conjunction may short-circuit on one row before it reaches an atom that cannot be evaluated: try every row
            (table if all(decidable(prog, st.reach, r_, aliases) for r_ in rows) else other).append(st)
        pred = G.f_or(*[st.reach for st in table])
        try:
            nrows, bad = G.truth_table(prog, pred, rows, inst['spec'], None, aliases)
        except (Undecided, KeyError, TypeError) as ex_:
            ctx.undecided(ra, iid, fn, 'exit predicate [%s] cannot be evaluated on the table: %s' % (G.f_show(pred)[:200], ex_))
            continue
        form = 'exit iff ' + G.f_show(pred)
        if bad:
            row, got, want = bad[0]
            ctx.violated(ra, iid, fn,
                         'exit predicate [%s] disagrees with the spec (%s) on %d of %d rows'
                         % (G.f_show(pred), inst.get('what', 'see table'), len(bad), nrows),
                         witness={'row': {k: str(v) for k, v in row.items()}, 'code_exits': bool(got), 'spec_meaningless': bool(want)},
                         line=(table[0].line if table else fn.line), form=form)
        else:
            ctx.holds(ra, iid, fn, '%s agrees with the spec on all %d rows' % (form, nrows), form=form)
        # C10.b diagnostic shape of each table site
        for st in table:
            probs = G.diagnostic_shape(prog, fn, st, wrappers)
            ctx.decide(rb, '%s:exit#%d' % (iid, table.index(st)), fn, not probs,
                       'exit region prints a non-empty diagnostic and exits with a failure status',
                       '; '.join(probs), line=st.line)
        # C10.c the guard dominates the protected uses
        if inst.get('uses') is not None and not bad:
            viol = None
            nuse = len(g.uses)
            for node, reach, _loops in g.uses:
                for row in rows:
                    if inst['spec'](row) is not True:
                        continue
                    ce = G.CEval(prog, row, None, aliases)
                    v = f3(ce, reach)
                    if v is not False:
                        viol = (node, row)
                        break
                if viol:
                    break
            if viol:
                node, row = viol
                ctx.violated(rc, iid + ':uses', fn,
                             'protected use `%s` is reachable for a meaningless request' % show(node),
                             witness={'row': {k: str(v) for k, v in row.items()}}, line=node.get('l'))
            else:
                ctx.holds(rc, iid + ':uses', fn, '%d protected uses are unreachable whenever the request is meaningless' % nuse)
        # C10.d classification of the remaining sites of this function
        for st in other:
            cls = classify(fn, st, inst)
            if cls is None:
                ctx.undecided(rd, '%s:site:%s' % (iid, G.f_show(st.reach)[:60]), fn,
                              'exit site with condition [%s] is neither in the guard table nor classified' % G.f_show(st.reach)[:200],
                              line=st.line)
            else:
                probs = G.diagnostic_shape(prog, fn, st, wrappers)
                ctx.decide(rd, '%s:%s' % (iid, cls.split(':')[0] + ':' + cls.split(':')[1].strip()[:40]), fn, not probs,
                           'classified as %s; diagnostic exit shape ok' % cls, 'classified as %s but %s' % (cls, '; '.join(probs)),
                           line=st.line)
        n_ok += 1
    return n_ok


def check(prog, ctx, only_c04=False):
    A, B, C, Dd, E = ('C10.a', 'C10.b', 'C10.c', 'C10.d', 'C10.e')
    ctx.rule(A, 'the exit predicate extracted from the entry point (incl. exits inherited through derived wrapper summaries) '
             'equals the spec predicate "request is meaningless" on the complete truth table of its input terms '
             '(C unsigned arithmetic modelled)', len(INSTANCES))
    ctx.rule(B, 'each guard exit region prints a non-empty literal to cerr/cout and exits with a failure status', 50)
    ctx.rule(C, 'the guard dominates every protected use (unchecked subscripts, iterator arithmetic, protected calls): '
             'on every row where the request is meaningless the use is unreachable', 25)
    ctx.rule(Dd, 'census: every other call of a noreturn function in the library is classified (loop-guard, data-guard, '
             'give-up, environment) and has the diagnostic exit shape; an unclassified site is undecided', 20)
    ctx.rule(E, 'element-wise guards: loop range and atom agree with the spec (strictly increasing abscissae over all '
             'neighbours; ragged rows; Locate tolerance uses the matching edge interval)', 4)
    wrappers = G.find_wrappers(prog)
    if not wrappers:
        ctx.undecided(Dd, 'wrapper-summary', None, 'no exits-iff(param) wrapper found (Check_For_Error vanished?)')
    in_table = set()
    for inst in INSTANCES:
        run_instance(prog, ctx, inst, wrappers, A, B, C, Dd)
        for fn in select(prog, inst):
            in_table.add(fn.sig)
    # census over all other functions
    fns = prog.repo_functions() + [f for f in prog.all_functions() if f.is_inst and 'List_Manipulations' in f.file]
    nsites = 0
    for fn in sorted(set(fns), key=lambda f: (f.file, f.line)):
        if fn.sig in in_table:
            continue
        for st in G.exit_sites(prog, fn, wrappers):
            nsites += 1
            cls = classify(fn, st, None)
            if cls is None:
                ctx.undecided(Dd, '%s:site:%s' % (fn.q.replace(L, ''), G.f_show(st.reach)[:60]), fn,
                              'exit site with condition [%s] is neither in the guard table nor classified (a new way to stop the '
                              'process appeared)' % G.f_show(st.reach)[:200], line=st.line)
            else:
                probs = G.diagnostic_shape(prog, fn, st, wrappers)
                ctx.decide(Dd, '%s:%s' % (fn.q.replace(L, ''), cls[:50]), fn, not probs,
                           'classified as %s; diagnostic exit shape ok' % cls, 'classified as %s but %s' % (cls, '; '.join(probs)),
                           line=st.line)
    ctx.notes.append('exit sites outside table functions: %d' % nsites)
    ctx.sub('short_containers', short_containers, prog, ctx, wrappers)
    ctx.sub('paired_lists', paired_lists, prog, ctx, wrappers)
    elementwise(prog, ctx, E, wrappers)
    delegation(prog, ctx, E, wrappers)
    domain_dependency(prog, ctx, E)
    from .C19 import sub_list
    sub_list(prog, ctx, E)


# ----------------------------------------------------------------------------- element-wise guards (C10.e)

def rel_equiv(a, b):
    """Two sympy relationals denote the same predicate (up to rearrangement)."""
    if a == b:
        return True
    neg = {sp.Lt: sp.Ge, sp.Le: sp.Gt, sp.Gt: sp.Le, sp.Ge: sp.Lt}
    flip = {sp.Lt: sp.Gt, sp.Le: sp.Ge, sp.Gt: sp.Lt, sp.Ge: sp.Le, sp.Eq: sp.Eq, sp.Ne: sp.Ne}
    if not isinstance(a, sp.Rel) or not isinstance(b, sp.Rel):
        return False
    da = sp.expand(a.lhs - a.rhs)
    db = sp.expand(b.lhs - b.rhs)
    if type(a) == type(b) and sp.expand(da - db) == 0:
        return True
    if type(a) in (sp.Eq, sp.Ne) and type(a) == type(b) and sp.expand(da + db) == 0:
        return True
    if flip.get(type(a)) == type(b) and sp.expand(da + db) == 0:
        return True
    return False


def loop_site(prog, fn, wrappers, substr):
    for st in G.exit_sites(prog, fn, wrappers):
        if G.f_has_loop(st.reach) and substr in G.f_show(st.reach):
            return st
    return None


def find_loop(f):
    if f[0] == 'loop':
        return f
    if f[0] in ('and', 'or'):
        for x in f[1]:
            r = find_loop(x)
            if r:
                return r
    if f[0] == 'not':
        return find_loop(f[1])
    return None



def top_level_assignments(fn):
    """name -> rhs for members (this->m) and locals assigned exactly once in `fn`, by a plain `=` that is a top-level
    statement of the body (so it is executed once, unconditionally, before everything below it)."""
    count, top = {}, {}
    for st in walk_stmts(fn.body):
        for e_ in stmt_exprs(st):
            for n in walk_expr(e_, into_lambdas=True):
                if n.get('k') == 'Bin' and n.get('op') in ('=', '+=', '-=', '*=', '/=') or n.get('k') == 'Un' and n.get('op') in ('++', '--'):
                    t = strip(n['lhs'] if n['k'] == 'Bin' else n['e'])
                    nm = t.get('name') if t.get('k') == 'Ref' or (t.get('k') == 'Member' and strip(t['base']).get('k') == 'This') else None
                    if nm:
                        count[nm] = count.get(nm, 0) + 1
    if fn.body.get('k') == 'Compound':
        for st in fn.body['body']:
            if st['k'] == 'Expr':
                e0 = strip(st['e'])
                if e0.get('k') == 'Bin' and e0.get('op') == '=':
                    t = strip(e0['lhs'])
                    nm = t.get('name') if t.get('k') == 'Ref' and t.get('rk') == 'local' or (t.get('k') == 'Member' and strip(t['base']).get('k') == 'This') else None
                    if nm and count.get(nm) == 1:
                        top[nm] = (e0['rhs'], st.get('l') or 0)
    return top


def resolve_scalar(e, g, top, depth=0):
    """See through single-definition locals (GuardScan.subst) and once-assigned members/locals (top_level_assignments)."""
    e = strip_casts(g.subst(e))
    if depth < 6 and (e.get('k') == 'Ref' or (e.get('k') == 'Member' and strip(e['base']).get('k') == 'This')) and e.get('name') in top:
        return resolve_scalar(top[e['name']][0], g, top, depth + 1)
    return e


def size_of_param(e, pnames):
    """`p.size()` of a parameter p -> p, else None"""
    e = strip_casts(e)
    if e.get('k') == 'Call' and e.get('kind') == 'method' and (e.get('callee') or {}).get('name') == 'size' and not e.get('args'):
        o = strip(e['obj'])
        if o.get('k') == 'Ref' and o.get('rk') == 'param' and o.get('name') in pnames:
            return o['name']
    return None


def sized_like(fn, g, top, pnames):
    """containers (members or locals) whose length is set once, at the top level of `fn`, to the length of a parameter:
    V.resize(E) / std::vector<T> V(E) with E resolving to p.size()  ->  {V: (p, line)}"""
    out = {}
    if fn.body.get('k') != 'Compound':
        return out
    nres = {}
    for st in walk_stmts(fn.body):
        for e_ in stmt_exprs(st):
            for n in walk_expr(e_, into_lambdas=True):
                if n.get('k') == 'Call' and n.get('kind') == 'method' and (n.get('callee') or {}).get('name') in ('resize', 'push_back', 'emplace_back', 'clear', 'pop_back', 'erase', 'insert', 'assign'):
                    o = strip(n['obj'])
                    if o.get('name'):
                        nres[o['name']] = nres.get(o['name'], 0) + 1
    for st in fn.body['body']:
        if st['k'] == 'Expr':
            e0 = strip(st['e'])
            if e0.get('k') == 'Call' and e0.get('kind') == 'method' and (e0.get('callee') or {}).get('name') == 'resize' and len(e0.get('args', [])) >= 1:
                o = strip(e0['obj'])
                nm = o.get('name') if o.get('k') == 'Ref' or (o.get('k') == 'Member' and strip(o['base']).get('k') == 'This') else None
                if nm and nres.get(nm) == 1:
                    p_ = size_of_param(resolve_scalar(e0['args'][0], g, top), pnames)
                    if p_:
                        out[nm] = (p_, st.get('l') or 0)
    return out


def short_containers(prog, ctx, wrappers):
    """C10.f: an element read at a literal position (p[k], p.front(), p.back()) of a caller-supplied std::vector is reachable only
    when the container has more than k elements.  The condition under which the read happens - the statement's reach formula
    and the operands of &&, ||, ?: around it - is evaluated with the container's length set to 0..k (named locals with a single
    definition are seen through); a read that happens for a too-short container is out of bounds.  Sites whose condition does
    not evaluate (it depends on something other than that length) are counted, not judged."""
    R = 'C10.f'
    ctx.rule(R, 'tables of length 0: an element read at a literal position of a caller-supplied std::vector (p[k], front, back) happens only when the '
             'container has more than k elements - decided from the reach condition of the read (statement level and short-circuit operands), '
             'evaluated for every shorter length', 3)

    def short_access(pnames):
        def pred(n):
            if n.get('k') == 'Index':
                ix, b = strip_casts(n['idx']), strip(n['base'])
                return ix.get('k') == 'Lit' and ix.get('lk') == 'int' and b.get('k') == 'Ref' and b.get('rk') == 'param' and b.get('name') in pnames
            if n.get('k') == 'Call' and n.get('kind') == 'method' and (n.get('callee') or {}).get('name') in ('front', 'back') \
                    and (n.get('callee') or {}).get('cls', '').startswith('std::vector'):
                o = strip(n['obj'])
                return o.get('k') == 'Ref' and o.get('rk') == 'param' and o.get('name') in pnames
            return False
        return pred

    def operand_guards(root, target):
        """[(expression, polarity)] that must hold for `target` to be evaluated inside `root` (short-circuit and ?: operands)."""
        def rec(e, acc):
            if e is target:
                return acc
            e0 = e
            if not isinstance(e0, dict):
                return None
            if e0.get('k') == 'Bin' and e0.get('op') in ('&&', '||'):
                r = rec(e0['lhs'], acc)
                if r is not None:
                    return r
                return rec(e0['rhs'], acc + [(e0['lhs'], e0['op'] == '&&')])
            if e0.get('k') == 'Cond':
                r = rec(e0['c'], acc)
                if r is not None:
                    return r
                r = rec(e0['a'], acc + [(e0['c'], True)])
                if r is not None:
                    return r
                return rec(e0['b'], acc + [(e0['c'], False)])
            from ..ir import expr_children
            for c_ in expr_children(e0):
                r = rec(c_, acc)
                if r is not None:
                    return r
            return None
        return rec(root, [])

    fns = prog.repo_functions() + [f for f in prog.all_functions() if f.is_inst and 'List_Manipulations' in f.file]
    skipped = 0
    seen_inst = set()
    for fn in sorted(set(fns), key=lambda f: (f.file, f.line)):
        if fn.body is None or fn.is_lambda:
            continue
        pn = [p['name'] for p in fn.params if p['ty'].startswith('std::vector')]
        if not pn:
            continue
        g = G.GuardScan(prog, fn, wrappers)
        top = top_level_assignments(fn)
        like = sized_like(fn, g, top, pn)
        base_pred = short_access(pn)

        def like_name(n):
            """V[k] with V a member/local whose length was set to p.size() above the read -> V"""
            if n.get('k') == 'Index' and strip_casts(n['idx']).get('k') == 'Lit' and strip_casts(n['idx']).get('lk') == 'int':
                b_ = strip(n['base'])
                if (b_.get('k') == 'Ref' and b_.get('rk') == 'local' or b_.get('k') == 'Member' and strip(b_['base']).get('k') == 'This') \
                        and b_.get('name') in like and (n.get('l') or 0) > like[b_['name']][1]:
                    return b_['name']
            return None
        pred = lambda n: base_pred(n) or like_name(n) is not None
        sites = []          # (node, reach or None, statement root expr or None)
        g.use_pred = pred
        g.run()
        for node, reach, loops in g.uses:
            sites.append((node, reach, loops))
        for i in fn.inits:
            if i.get('init') is not None:
                for n in walk_expr(i['init']):
                    if pred(n):
                        sites.append((n, G.TRUE, []))
        for node, reach, loops in sites:
            b = strip(node['base'])['name'] if node.get('k') == 'Index' else strip(node['obj'])['name']
            k = int(strip_casts(node['idx'])['v']) if node.get('k') == 'Index' else 0
            via = None
            if like_name(node) is not None:
                via, b = b, like[b][0]
            # the statement expression that contains the node (for the short-circuit operands)
            root = None
            for s_ in walk_stmts(fn.body):
                for e_ in stmt_exprs(s_):
                    if any(x is node for x in walk_expr(e_)):
                        root = e_
            for i in fn.inits:
                if i.get('init') is not None and any(x is node for x in walk_expr(i['init'])):
                    root = i['init']
            ops = operand_guards(root, node) if root is not None else []
            inst = '%s:%s[%s]' % (fn.q.replace(L, '') + ('/%d' % len(fn.params)), b if via is None else '%s~%s' % (via, b),
                                  k if node.get('k') == 'Index' else (node['callee']['name']))
            if inst in seen_inst:
                inst += '@%s' % node.get('l')
            verdict = []
            for n_ in range(0, k + 1):
                row = {'len(%s)' % b: n_}
                try:
                    ce = G.CEval(prog, row, None, {})
                    v = ce.formula(reach)
                    for ex_, pol in (ops or []):
                        if not v:
                            break
                        v = v and (bool(ce.ev(g.subst(ex_))) == pol)
                except (Undecided, KeyError, TypeError):
                    v = None
                verdict.append(v)
            if any(v is None for v in verdict) and not any(v is True for v in verdict):
                skipped += 1
                continue
            seen_inst.add(inst)
            bad = [n_ for n_, v in enumerate(verdict) if v is True]
            ctx.decide(R, inst, fn, not bad, 'read of %s is reached only when `%s` has more than %d element(s)' % (show(node)[:40], b, k),
                       '%s is read although `%s` may have only %s element(s): nothing on the way to the read tests its length (out-of-bounds read for a table of length %s)'
                       % (show(node)[:40], b, bad[0] if bad else '', bad[0] if bad else ''),
                       witness={'container_length': bad[0]} if bad else None, line=node.get('l'))
    ctx.notes.append('C10.f: %d literal-position reads of parameters depend on conditions other than the length and were not judged' % skipped)
    # ragged tables: p[r'][c] with c running up to the length of ANOTHER row p[r] needs a test of p[r'] 's own length
    from ..ir import stmt_children
    for fn in sorted(set(fns), key=lambda f: (f.file, f.line)):
        if fn.body is None or fn.is_lambda:
            continue
        pn = [p['name'] for p in fn.params if p['ty'].startswith('std::vector<std::vector')]
        if not pn:
            continue

        g_r = G.GuardScan(prog, fn, wrappers)
        top_r = top_level_assignments(fn)
        # members/locals that are a copy of a table parameter (assigned once, at the top level): reads of the copy are reads of the table
        copies = {}
        for nm_, (rhs_, l_) in top_r.items():
            r0 = strip(rhs_)
            if r0.get('k') == 'Ref' and r0.get('rk') == 'param' and r0.get('name') in pn:
                copies[nm_] = (r0['name'], l_)

        def table_of(base, line):
            if base.get('k') == 'Ref' and base.get('rk') == 'param' and base.get('name') in pn:
                return base['name']
            if (base.get('k') == 'Ref' and base.get('rk') == 'local' or base.get('k') == 'Member' and strip(base['base']).get('k') == 'This') \
                    and base.get('name') in copies and (line or 0) > copies[base['name']][1]:
                return copies[base['name']][0]
            return None

        def rec(s_, loops, conds):
            if s_ is None:
                return
            if s_['k'] == 'For' and s_.get('cond') is not None:
                loops = loops + [s_]
            if s_['k'] == 'If':
                for e_ in [s_['cond']]:
                    visit(e_, loops, conds)
                rec(s_.get('then'), loops, conds + [show(s_['cond'])])
                rec(s_.get('else'), loops, conds)
                return
            for e_ in stmt_exprs(s_):
                visit(e_, loops, conds)
            for c_ in stmt_children(s_):
                rec(c_, loops, conds)

        found = []

        def visit(e_, loops, conds):
            for n in walk_expr(e_):
                if n.get('k') != 'Index':
                    continue
                inner = strip(n['base'])
                if inner.get('k') != 'Index':
                    continue
                base = strip(inner['base'])
                tname = table_of(base, n.get('l'))
                if tname is None:
                    continue
                base = {'name': tname}
                c_ix = strip_casts(n['idx'])
                if c_ix.get('k') != 'Ref':
                    continue
                # the loop whose counter is the column index, and the row whose length bounds it
                for lp in loops:
                    init = lp.get('init')
                    if not (init and init['k'] == 'Decl' and len(init['decls']) == 1 and init['decls'][0]['id'] == c_ix.get('id')):
                        continue
                    cnd_ = lp['cond']
                    c0_ = strip_casts(cnd_)
                    if c0_.get('k') == 'Bin' and c0_.get('op') in ('<', '<=', '!='):
                        # the bound seen through once-assigned members/locals (ndim = pp[0].size())
                        cnd_ = resolve_scalar(c0_['rhs'], g_r, top_r)
                    bound = [m for m in walk_expr(cnd_) if m.get('k') == 'Call' and m.get('kind') == 'method' and (m.get('callee') or {}).get('name') == 'size'
                             and strip(m['obj']).get('k') == 'Index' and strip(strip(m['obj'])['base']).get('name') == base['name']]
                    if len(bound) != 1:
                        continue
                    r_bound = show(strip_casts(strip(bound[0]['obj'])['idx'])).replace(' ', '')
                    r_here = show(strip_casts(inner['idx'])).replace(' ', '')
                    if r_bound == r_here:
                        continue
                    own = '%s[%s].size()' % (base['name'], show(strip_casts(inner['idx'])))
                    ctxt = ' '.join(conds + [show(e_)]).replace(' ', '')
                    guarded = own.replace(' ', '') in ctxt
                    if not guarded:
                        # all rows were compared with one reference row beforehand, and the loops of this read run only while
                        # that comparison has not failed (a validity flag in their condition)
                        for flag in uniform_flags(fn, base['name'], n.get('l') or 0):
                            if any(flag in show(lp2['cond']) for lp2 in loops):
                                guarded = True
                        if not guarded and uniform_exit(fn, g_r, base['name'], r_bound, n.get('l') or 0, top_r):
                            guarded = True
                        if not guarded and fn.body.get('k') == 'Compound':
                            # ... or the process was left, at the top level in front of the read, when that flag was false
                            flags_ = uniform_flags(fn, base['name'], n.get('l') or 0)
                            for st_ in fn.body['body']:
                                if st_['k'] == 'If' and (st_.get('l') or 0) < (n.get('l') or 0) and g_r.always_exits(st_['then']):
                                    c_ = strip_casts(st_['cond'])
                                    if c_.get('k') == 'Un' and c_.get('op') == '!' and strip_casts(strip(c_['e'])).get('name') in flags_:
                                        guarded = True
                    found.append((n, base['name'], r_here, r_bound, guarded))
        rec(fn.body, [], [])
        # a literal column read p[r][k] needs a test of the width of the rows of p (any row-length test of p that leads to the
        # error exit or to a validity flag, placed before the read)
        import re as _re2
        row_tests = []
        for s_ in walk_stmts(fn.body):
            if s_['k'] == 'If' and (s_.get('l') or 0) > 0:
                for pn_ in pn:
                    if _re2.search(_re2.escape(pn_) + r'\[[^\]]+\]\.(size|empty)\(\)', show(s_['cond']).replace(' ', '')):
                        row_tests.append((pn_, s_.get('l')))
        seen_cols = set()
        for e_ in all_exprs(fn):
            if e_.get('k') == 'Index' and strip_casts(e_['idx']).get('k') == 'Lit' and strip(e_['base']).get('k') == 'Index':
                b_ = strip(strip(e_['base'])['base'])
                if b_.get('k') == 'Ref' and b_.get('rk') == 'param' and b_.get('name') in pn:
                    kcol = strip_casts(e_['idx'])['v']
                    inst_ = '%s:%s[.][%s]' % (fn.q.replace(L, '') + '/%d' % len(fn.params), b_['name'], kcol)
                    if inst_ in seen_cols:
                        continue
                    seen_cols.add(inst_)
                    ok_ = any(p_ == b_['name'] and l_ <= (e_.get('l') or 0) for p_, l_ in row_tests)
                    ctx.decide(R, inst_, fn, ok_, 'column %s of the rows of `%s` is read after a test of the row lengths' % (kcol, b_['name']),
                               '%s is read although nothing tests the length of the rows of `%s`: a ragged or transposed table is read out of bounds' % (show(e_)[:40], b_['name']),
                               witness={'reproducer': 'Integrate_Gauss_Legendre({1.0, 1.0}, {{0.2,0.5},{}}) reads element 1 of an empty row'} if not ok_ else None, line=e_.get('l'))
        # a table that is checked for equal row lengths must not be answered before that check: a normal return placed in
        # front of the uniform-length loop is evaluated on ragged shapes (two and three rows of different lengths)
        for pname_ in pn:
            lu = uniform_exit(fn, g_r, pname_, '0', 10 ** 9, top_r)
            if not lu:
                continue
            if not g_r.returns and not g_r.sites:
                g_r.run()
            early = [(r_, reach_) for r_, reach_ in g_r.returns if (r_.get('l') or 0) < lu]
            bad_ = None
            undec_ = False
            for r_, reach_ in early:
                for shape in ((0, 1), (1, 0), (0, 2), (2, 1), (1, 1, 0), (0, 1, 1), (2, 2, 1)):
                    row = {'len(%s)' % pname_: len(shape)}
                    for i_, n_ in enumerate(shape):
                        row['len(%s[%d])' % (pname_, i_)] = n_
                    try:
                        if G.CEval(prog, row, None, {}).formula(reach_):
                            bad_ = (r_, shape)
                            break
                    except (Undecided, KeyError, TypeError):
                        undec_ = True
                if bad_:
                    break
            inst_ = '%s:%s:early-return' % (fn.q.replace(L, '') + '/%d' % len(fn.params), pname_)
            if bad_:
                ctx.violated(R, inst_, fn, 'the function returns normally at line %s for a table with row lengths %s: the return lies in front of the loop that compares '
                             'the row lengths, so a ragged table is answered instead of rejected' % (bad_[0].get('l'), list(bad_[1])),
                             witness={'row_lengths': list(bad_[1])}, line=bad_[0].get('l'))
            elif undec_ and early:
                ctx.notes.append('C10.f: %s: an early return depends on something other than the shape of the table (not judged)' % inst_)
            else:
                ctx.holds(R, inst_, fn, 'no ragged table (two or three rows of different lengths) reaches a return in front of the uniform-length check (%d early return(s))' % len(early),
                          line=lu)
        uniq = {}
        for ent in found:
            key_ = (ent[1], ent[2])
            if key_ not in uniq or (uniq[key_][4] and not ent[4]):
                uniq[key_] = ent
        for n, bn, r_here, r_bound, guarded in uniq.values():
            ctx.decide(R, '%s:%s[%s][.]' % (fn.q.replace(L, '') + '/%d' % len(fn.params), bn, r_here), fn, guarded,
                       'the read of row %s is preceded by a test of that row\'s own length' % r_here,
                       '%s is read with a column index that runs up to the length of row %s, but nothing compares the length of row %s with it: a ragged table '
                       '(row %s shorter than row %s) is read out of bounds' % (show(n)[:50], r_bound, r_here, r_here, r_bound),
                       witness={'reproducer': 'Matrix({{Matrix(2,2)},{Matrix(1,2),Matrix(1,3)}}): block_matrices[0][1] does not exist'}, line=n.get('l'))


def paired_lists(prog, ctx, wrappers):
    """C10.f, mismatched list lengths: q[i + c] is read for a counter i whose loop runs up to a bound computed from the length of
    ANOTHER caller-supplied vector p.  The part of the read's reach condition that lies outside the loop is evaluated on the
    shapes len(p) = 2, 3 and len(q) < len(p); with the counter at its last value (conditions inside the loop evaluated there) the
    index is compared with len(q).  A read that happens past the end of the shorter list is out of bounds."""
    R = 'C10.f'
    nsites = 0
    fns = prog.repo_functions() + [f for f in prog.all_functions() if f.is_inst and 'List_Manipulations' in f.file]
    for fn in sorted(set(fns), key=lambda f: (f.file, f.line)):
        if fn.body is None or fn.is_lambda:
            continue
        pn = [p['name'] for p in fn.params if p['ty'].startswith('std::vector') and not p['ty'].startswith('std::vector<std::vector')]
        if len(pn) < 2:
            continue
        g = G.GuardScan(prog, fn, wrappers)
        top = top_level_assignments(fn)

        def pred(n):
            if n.get('k') != 'Index':
                return False
            b = strip(n['base'])
            return b.get('k') == 'Ref' and b.get('rk') == 'param' and b.get('name') in pn and strip_casts(n['idx']).get('k') != 'Lit'
        g.use_pred = pred
        g.run()
        seen = set()
        for node, reach, loops in g.uses:
            q = strip(node['base'])['name']
            # the enclosing counted loop whose counter occurs in the index
            for lp in reversed(list(loops)):
                init = lp.get('init') if lp['k'] == 'For' else None
                if not (init and init['k'] == 'Decl' and len(init['decls']) == 1 and init['decls'][0].get('init') is not None and lp.get('cond') is not None):
                    continue
                cid, cname = init['decls'][0]['id'], init['decls'][0]['name']
                if not any(m.get('k') == 'Ref' and m.get('id') == cid for m in walk_expr(node['idx'])):
                    continue
                c0 = strip_casts(lp['cond'])
                if not (c0.get('k') == 'Bin' and c0.get('op') in ('<', '<=', '!=') and strip_casts(c0['lhs']).get('id') == cid):
                    break
                bound = resolve_scalar(c0['rhs'], g, top)
                # resolve nested names inside the bound, too (ndim + 1 with ndim = p.size())
                def deep(e, d=0):
                    e = resolve_scalar(e, g, top)
                    if d < 4 and e.get('k') == 'Bin':
                        e = dict(e); e['lhs'] = deep(e['lhs'], d + 1); e['rhs'] = deep(e['rhs'], d + 1)
                    elif d < 4 and e.get('k') == 'Cast':
                        e = dict(e); e['e'] = deep(e['e'], d + 1)
                    return e
                bound = deep(c0['rhs'])
                others = sorted({size_of_param(m, pn) for m in walk_expr(bound)} - {None})
                if not others or q in others:
                    break
                p = others[0]
                inst = '%s:%s[%s]~%s' % (fn.q.replace(L, '') + '/%d' % len(fn.params), q, show(strip_casts(node['idx'])).replace(' ', ''), p)
                if inst in seen:
                    break
                seen.add(inst)
                nsites += 1
                # the reach outside the loops, and the conditions inside them
                def split(f):
                    if f[0] == 'and':
                        o_, i_ = [], []
                        for x in f[1]:
                            a_, b_ = split(x)
                            o_ += a_; i_ += b_
                        return o_, i_
                    if f[0] == 'loop':
                        a_, b_ = split(f[2])
                        return [], a_ + b_
                    return [f], []
                outer, inner = split(reach)
                bad, undec = None, None
                for lp_, lq_ in ((2, 0), (2, 1), (3, 1), (3, 2)):
                    row = {'len(%s)' % p: lp_, 'len(%s)' % q: lq_}
                    for o_ in pn:
                        row.setdefault('len(%s)' % o_, lp_)
                    try:
                        ce = G.CEval(prog, row, None, {})
                        if not all(ce.formula(x) for x in outer):
                            continue
                        hi = ce.ev(bound)
                        start = ce.ev(init['decls'][0]['init'])
                        last = hi - 1 if c0['op'] in ('<', '!=') else hi
                        if last < start:
                            continue
                        row2 = dict(row); row2[cname] = last
                        ce2 = G.CEval(prog, row2, None, {})
                        live = True
                        for x in inner:
                            try:
                                if not ce2.formula(x):
                                    live = False
                            except (Undecided, KeyError, TypeError):
                                pass        # a condition on data: the read may happen
                        if live and ce2.ev(g.subst(node['idx'])) >= lq_:
                            bad = (lp_, lq_, last, ce2.ev(g.subst(node['idx'])))
                            break
                    except (Undecided, KeyError, TypeError) as ex:
                        undec = str(ex)
                        break
                if undec is not None:
                    ctx.notes.append('C10.f: %s not judged (%s)' % (inst, undec[:80]))
                    break
                ctx.decide(R, inst, fn, bad is None, '%s is reached only when `%s` is at least as long as the loop over `%s` requires' % (show(node)[:40], q, p),
                           '%s is read up to index %s although `%s` may have only %s element(s) when `%s` has %s: nothing compares the two lengths (out-of-bounds read)'
                           % ((show(node)[:40], bad[3], q, bad[1], p, bad[0]) if bad else ('',) * 6),
                           witness={'lengths': {p: bad[0], q: bad[1]}, 'counter': bad[2], 'index': bad[3]} if bad else None, line=node.get('l'))
                break
    ctx.notes.append('C10.f: %d reads of one list under a loop over another list judged on concrete lengths' % nsites)


def uniform_exit(fn, g, pname, r_ref, before_line, top=None):
    """A top-level loop over the rows of `pname`, placed before `before_line`, that leaves the process when the length of a row
    differs from the length of row `r_ref` (every row from 0 or 1 up to the last is compared).  Bounds and lengths are seen
    through single-definition locals and once-assigned members."""
    if fn.body.get('k') != 'Compound':
        return False
    top = top if top is not None else top_level_assignments(fn)
    txt = lambda e: show(resolve_scalar(e, g, top)).replace(' ', '')
    for lp in fn.body['body']:
        if lp['k'] != 'For' or (lp.get('l') or 0) >= before_line or lp.get('cond') is None:
            continue
        init = lp.get('init')
        if not (init and init['k'] == 'Decl' and len(init['decls']) == 1 and init['decls'][0].get('init') is not None):
            continue
        cname = init['decls'][0]['name']
        start = strip_casts(init['decls'][0]['init'])
        if not (start.get('k') == 'Lit' and start.get('v') in ('0', '1')):
            continue
        if start['v'] == '1' and r_ref != '0':
            continue
        c0 = strip_casts(lp['cond'])
        if not (c0.get('k') == 'Bin' and c0.get('op') in ('<', '!=') and show(strip_casts(c0['lhs'])) == cname and txt(c0['rhs']) == '%s.size()' % pname):
            continue
        body = lp['body']
        stmts = body['body'] if body['k'] == 'Compound' else [body]
        for s_ in stmts:
            if s_['k'] != 'If' or not g.always_exits(s_['then']):
                continue
            c = strip_casts(s_['cond'])
            neg = False
            if c.get('k') == 'Un' and c.get('op') == '!':
                neg, c = True, strip_casts(strip(c['e']))
            if c.get('k') != 'Bin' or c.get('op') != ('==' if neg else '!='):
                continue
            sides = {txt(c['lhs']), txt(c['rhs'])}
            if sides == {'%s[%s].size()' % (pname, cname), '%s[%s].size()' % (pname, r_ref)}:
                return lp.get('l') or 1
    return False


def uniform_flags(fn, pname, before_line):
    """Names of boolean locals that are set to false, before `before_line`, under a comparison of the length of a row of
    `pname` with the length of another row, inside a loop over all rows."""
    flags = []
    for lp in walk_stmts(fn.body):
        if lp['k'] != 'For' or (lp.get('l') or 0) >= before_line:
            continue
        for s_ in walk_stmts(lp['body']):
            if s_['k'] != 'If':
                continue
            c = show(s_['cond']).replace(' ', '')
            import re as _re
            if not _re.search(_re.escape(pname) + r'\[[^\]]+\]\.size\(\)!=' + _re.escape(pname) + r'\[[^\]]+\]\.size\(\)', c):
                continue
            for t_ in walk_stmts(s_['then']):
                for e_ in stmt_exprs(t_):
                    e0 = strip(e_)
                    if e0.get('k') == 'Bin' and e0['op'] == '=' and strip(e0['lhs']).get('k') == 'Ref' and show(strip_casts(e0['rhs'])) == 'false':
                        flags.append(strip(e0['lhs'])['name'])
    return flags


def order_guard_by_algorithm(prog, ctx, E, ctor, wrappers):
    """The order guard written with a standard algorithm: std::adjacent_find(X.begin(), X.end(), pred) != X.end() exits iff
    some neighbouring pair satisfies pred(previous, next); pred must be `next <= previous`."""
    inst = 'Interpolation:strictly-increasing'
    xname = ctor.params[0]['name']
    fields = [xname] + [i2['field'] for i2 in ctor.inits if i2.get('field') and strip_casts(i2['init']).get('name') == xname]
    mention = []
    for st in G.exit_sites(prog, ctor, wrappers):
        for a in G.f_atoms(st.reach):
            for n in walk_expr(a):
                if n.get('k') == 'Call' and (n.get('callee') or {}).get('q') in ('std::adjacent_find', 'std::is_sorted', 'std::is_sorted_until') and \
                        any(x.get('name') in fields for x in walk_expr(n) if x.get('k') in ('Ref', 'Member')):
                    mention.append((st, a, n))
    if not mention:
        ctx.violated(E, inst, ctor, 'no element-wise guard on the order of the abscissae found')
        return
    st, atom, call = mention[0]
    a = strip(atom)
    try:
        if (call['callee']['q'] != 'std::adjacent_find' or len(call['args']) != 3 or a.get('k') != 'Call' or a.get('kind') != 'op' or a.get('op') != '!='):
            raise Undecided('order guard uses %s in a form that is not adjacent_find(begin, end, pred) != end' % call['callee']['q'])
        sx = Symx(prog, ctor)
        from ..symx import State as _State, LambdaVal
        stt = _State({})
        its = [sx.iterator(strip_casts(x), stt) for x in call['args'][:2]]
        other = [x for x in a['args'] if not any(y is call for y in walk_expr(x))]
        end_it = sx.iterator(strip_casts(other[0]), stt) if other else None
        whole = its[0] and its[1] and end_it and its[0][1] == 0 and its[1] == end_it and str(its[1][1]).startswith('len(') and its[0][0] == its[1][0]
        if not whole or its[0][0].replace('this.', '') not in fields:
            raise Undecided('adjacent_find does not range over the whole abscissa list')
        # the predicate: a lambda (possibly bound to a local) applied to (previous, next)
        pred = strip_casts(call['args'][2])
        while pred.get('k') in ('Construct', 'Copy') and (pred.get('args') or pred.get('e')):
            pred = strip_casts(pred['args'][0]) if pred.get('k') == 'Construct' else strip_casts(pred['e'])
        lam = None
        if pred.get('k') == 'Lambda':
            lam = pred
        elif pred.get('k') == 'Ref':
            for d in [d_ for s_ in walk_stmts(ctor.body) if s_['k'] == 'Decl' for d_ in s_['decls']]:
                if d['id'] == pred.get('id') and d.get('init') is not None:
                    l0 = strip_casts(d['init'])
                    while l0.get('k') in ('Construct', 'Copy') and (l0.get('args') or l0.get('e')):
                        l0 = strip_casts(l0['args'][0]) if l0.get('k') == 'Construct' else strip_casts(l0['e'])
                    if l0.get('k') == 'Lambda':
                        lam = l0
        if lam is None:
            raise Undecided('predicate of adjacent_find is not a lambda')
        xp, xn = sp.symbols('x_prev x_next', real=True)
        v = sx.apply_lambda(LambdaVal(lam, {}), None, stt, vals=[xp, xn])
        c = sx.as_bool(v)
        ok = rel_equiv(c, sp.Le(xn, xp))
        ctx.decide(E, inst, ctor, ok, 'adjacent_find over the whole list with predicate next <= previous: exits iff some neighbouring pair is not increasing',
                   'the order guard does not cover "exists i in [1,N): X[i] <= X[i-1]": predicate(previous, next) = %s' % c, line=st.line)
    except Undecided as ex_:
        ctx.undecided(E, inst, ctor, 'order guard outside the understood fragment: %s' % ex_, line=st.line)


def elementwise(prog, ctx, E, wrappers):
    # 1. strictly increasing abscissae
    ctor = prog.fn(L + 'Interpolation::Interpolation', 4)
    st = loop_site(prog, ctor, wrappers, '<=') or loop_site(prog, ctor, wrappers, '>=') or \
        loop_site(prog, ctor, wrappers, '<') or loop_site(prog, ctor, wrappers, '>')
    if st is None:
        order_guard_by_algorithm(prog, ctx, E, ctor, wrappers)
    else:
        lp = find_loop(st.reach)
        sx = Symx(prog, ctor)
        stt = __import__('lpv.symx', fromlist=['State']).State({})
        for i in ctor.inits:
            if i.get('field') and i.get('init') is not None:
                try:
                    stt.env['this.' + i['field']] = sx.rvalue(i['init'], stt)
                except Undecided:
                    pass
        cl = sx.counted(lp[1], stt)
        atoms = list(G.f_atoms(lp[2]))
        ok = False
        detail = 'loop not counted'
        if cl and len(atoms) == 1 and lp[2][0] == 'atom':
            var, lo, hi = cl
            i = sp.Symbol(var['name'] + '_', integer=True)
            stt.env[var['id']] = i
            c = sx.sym(atoms[0], stt)
            n = sp.Symbol('len(%s)' % ctor.params[0]['name'], integer=True, nonnegative=True)
            xs = [a for a in c.atoms(sp.core.function.AppliedUndef)]
            fX = xs[0].func if xs else None
            want = sp.Le(fX(i), fX(i - 1)) if fX is not None else None
            bounds_ok = sp.simplify(lo - 1) == 0 and sp.simplify(hi - n) == 0
            atom_ok = want is not None and rel_equiv(c, want)
            # the compared array must be the abscissa field (initialised from the first parameter)
            arr_ok = fX is not None and fX.__name__ in [ctor.params[0]['name']] + ['this.' + i2['field'] for i2 in ctor.inits
                                                       if i2.get('field') and strip_casts(i2['init']).get('name') == ctor.params[0]['name']]
            ok = bounds_ok and atom_ok and arr_ok
            detail = 'loop i in [%s,%s): exit if %s' % (lo, hi, c)
        ctx.decide(E, 'Interpolation:strictly-increasing', ctor, ok,
                   'abscissae are checked pairwise over all neighbours: ' + detail,
                   'the order guard does not cover "exists i in [1,N): X[i] <= X[i-1]": ' + detail, line=st.line)
    # 2. Locate tolerance: own truth table with structured rows
    loc = prog.fn(L + 'Interpolation::Locate', 1)
    sites = G.exit_sites(prog, loc, wrappers)
    if len(sites) != 1:
        ctx.undecided(E, 'Locate:domain-guard', loc, 'expected one exit site, found %d' % len(sites))
    else:
        f = sites[0].reach
        rows = []
        for (x0, x1, xa, xb) in [(0.0, 1.0, 9.0, 10.0), (0.0, 4.0, 9.0, 10.0), (0.0, 1.0, 6.0, 10.0), (-10.0, -6.0, 1.0, 2.0)]:
            tl, tr = 0.01 * (x1 - x0), 0.01 * (xb - xa)
            for x in [x0 - 1, x0 - 3 * tl, x0 - 1.5 * tl, x0 - 0.5 * tl, x0, 0.5 * (x0 + xb), xb, xb + 0.5 * tr, xb + 1.5 * tr, xb + 3 * tr, xb + 1]:
                rows.append({'x': x, 'this.domain[0]': x0, 'this.domain[1]': xb, 'this.x_values[0]': x0, 'this.x_values[1]': x1,
                             'this.x_values[N - 2]': xa, 'this.x_values[N - 1]': xb, 'this.N': 5, '_tl': tl, '_tr': tr})

        def spec(r):
            return r['x'] < r['this.domain[0]'] - 1.25 * r['_tl'] or r['x'] > r['this.domain[1]'] + 1.25 * r['_tr'] \
                if not (r['this.domain[0]'] - 1.25 * r['_tl'] <= r['x'] < r['this.domain[0]'] - 0.75 * r['_tl'] or
                        r['this.domain[1]'] + 0.75 * r['_tr'] < r['x'] <= r['this.domain[1]'] + 1.25 * r['_tr']) else None
        try:
            n, bad = G.truth_table(prog, f, rows, spec)
            if bad:
                row, got, want = bad[0]
                ctx.violated(E, 'Locate:domain-guard', loc, 'domain guard [%s] disagrees with "outside by more than 1%% of the edge interval"'
                             % G.f_show(f)[:200], witness={'row': {k: v for k, v in row.items() if not k.startswith('_')},
                                                           'code_exits': got, 'spec': want}, line=sites[0].line)
            else:
                ctx.holds(E, 'Locate:domain-guard', loc, 'exits iff x is outside the domain by more than 1%% of the matching edge interval (%d rows)' % n)
        except (Undecided, KeyError) as e:
            ctx.undecided(E, 'Locate:domain-guard', loc, 'cannot evaluate the domain guard: %s' % e)
        probs = G.diagnostic_shape(prog, loc, sites[0], wrappers)
        ctx.decide(E, 'Locate:diagnostic', loc, not probs, 'diagnostic exit shape ok', '; '.join(probs))
    # 3. ragged rows: Matrix(entries), Transpose_Lists, In_Units(table, dims), 2-column table, Export_Table
    ragged = [
        (L + 'Matrix::Matrix', lambda f: len(f.params) == 1 and f.params[0]['ty'].startswith('std::vector<std::vector<double'), 'Matrix(entries)'),
        (L + 'Interpolation::Interpolation', lambda f: len(f.params) == 3, 'Interpolation(table)'),
        (L + 'natural_units::In_Units', lambda f: len(f.params) == 4 and f.params[1]['ty'].startswith('std::vector') and
         f.params[0]['ty'].startswith('std::vector<std::vector'), 'In_Units(table,dims)'),
        (L + 'Transpose_Lists', lambda f: len(f.params) == 1, 'Transpose_Lists(lists)'),
        (L + 'Export_Table', lambda f: True, 'Export_Table(data,dims)', 1),
    ]
    for entry_ in ragged:
        q, sel, name = entry_[:3]
        outer_ix = entry_[3] if len(entry_) > 3 else 0
        fn = prog.fn(q, pred=sel)
        st = None
        for s2 in G.exit_sites(prog, fn, wrappers):
            if G.f_has_loop(s2.reach) and 'size()' in G.f_show(s2.reach):
                st = s2
        if st is None:
            ctx.violated(E, name + ':ragged', fn, 'no per-row length guard found')
            continue
        lp = find_loop(st.reach)
        sx = Symx(prog, fn)
        from ..symx import State
        stt = State({})
        for i in fn.inits:
            if i.get('field') and i.get('init') is not None:
                try:
                    stt.env['this.' + i['field']] = sx.rvalue(i['init'], stt)
                except Undecided:
                    pass
        # locals defined before the loop (e.g. N = lists.size())
        for top in fn.body['body']:
            if any(x is lp[1] for x in walk_stmts(top)):
                break
            if top['k'] == 'Decl':
                try:
                    sx.exec(top, [stt])
                except Undecided:
                    pass
        cl = sx.counted(lp[1], stt)
        outer = fn.params[outer_ix]['name']
        n = sp.Symbol('len(%s)' % outer, integer=True, nonnegative=True)
        ok = False
        detail = 'loop not counted'
        if cl:
            var, lo, hi = cl
            ok = (sp.simplify(hi - n) == 0) and (lo == 0 or lo == 1)
            detail = 'rows %s..%s of %s checked: %s' % (lo, hi, outer, G.f_show(lp[2]))
            # the atom must compare the size of the row indexed by the loop variable
            txt = G.f_show(lp[2])
            ok = ok and ('%s[%s].size()' % (outer, var['name']) in txt)
        ctx.decide(E, name + ':ragged', fn, ok, 'every row length is checked: ' + detail,
                   'row-length guard does not cover every row: ' + detail, line=st.line)


def delegation(prog, ctx, E, wrappers):
    """Transpose_Lists(v1, v2): either guards len(v1)!=len(v2) itself or forwards {v1, v2} to the checked list-of-lists overload."""
    fn = prog.fn(L + 'Transpose_Lists', 2)
    p0, p1 = fn.params[0]['name'], fn.params[1]['name']
    sites = G.exit_sites(prog, fn, wrappers)
    own = False
    if sites:
        pred = G.f_or(*[s_.reach for s_ in sites])
        try:
            n, bad = G.truth_table(prog, pred, G.product_rows(**{'len(%s)' % p0: [0, 1, 2, 3], 'len(%s)' % p1: [0, 1, 2, 3]}),
                                   lambda r: r['len(%s)' % p0] != r['len(%s)' % p1])
            own = not bad
        except (Undecided, KeyError):
            own = False
    fwd = False
    rets = [s_ for s_ in walk_stmts(fn.body) if s_['k'] == 'Return']
    if len(rets) == 1 and rets[0].get('e') is not None:
        e = strip(rets[0]['e'])
        if e.get('k') == 'Call' and (e.get('callee') or {}).get('q') == L + 'Transpose_Lists' and len(e.get('args', [])) == 1:
            names = [n_['name'] for n_ in walk_expr(e['args'][0]) if n_.get('k') == 'Ref' and n_.get('rk') == 'param']
            fwd = names == [p0, p1]
    ctx.decide(E, 'Transpose_Lists(v1,v2):lengths', fn, own or fwd,
               'lists of different length are rejected (%s)' % ('own guard' if own else 'forwards {v1,v2} to the checked overload'),
               'two lists of different length are neither rejected here nor forwarded to the checked overload: out-of-bounds read')


def domain_dependency(prog, ctx, E):
    """Locate compares x with the `domain` field: it must hold the ends of the abscissae as finally stored (after unit scaling)."""
    ctor = prog.fn(L + 'Interpolation::Interpolation', 4)
    body = ctor.body['body']
    pos_dom = None
    pos_scale = []
    dom_ok = False
    xfield = None
    for i in ctor.inits:
        if i.get('field') and strip_casts(i['init']).get('name') == ctor.params[0]['name']:
            xfield = i['field']
    for idx, s in enumerate(body):
        for s2 in walk_stmts(s):
            for e in stmt_exprs(s2):
                for n in walk_expr(e):
                    if n['k'] == 'Bin' and n['op'] in ('*=', '=') and strip(n['lhs']).get('k') == 'Index' and \
                            strip(strip(n['lhs'])['base']).get('name') == xfield and idx > 0:
                        pos_scale.append(idx)
                    if n['k'] == 'Bin' and n['op'] == '=' and strip(n['lhs']).get('k') == 'Member' and strip(n['lhs'])['name'] == 'domain':
                        pos_dom = idx
                        txt = show(n['rhs']).replace(' ', '').replace('this.', '')
                        dom_ok = ('%s[0]' % xfield in txt) and ('%s[N-1]' % xfield in txt or '%s.back()' % xfield in txt)
    # every other field that Locate's guard reads must likewise be computed from the abscissae as finally stored
    loc = prog.fn(L + 'Interpolation::Locate', 1)
    gfields = set()
    for st_ in G.exit_sites(prog, loc, G.find_wrappers(prog)):
        for a_ in G.f_atoms(st_.reach):
            for n_ in walk_expr(a_):
                if n_.get('k') == 'Member' and strip(n_.get('base') or {}).get('k') == 'This' and n_['name'] not in (xfield, 'domain', 'N'):
                    gfields.add(n_['name'])
    for gf in sorted(gfields):
        where = []
        for idx, s in enumerate(body):
            for s2 in walk_stmts(s):
                for e in stmt_exprs(s2):
                    for n in walk_expr(e):
                        if n['k'] == 'Bin' and n['op'] == '=' and strip(n['lhs']).get('k') == 'Member' and strip(n['lhs'])['name'] == gf:
                            uses_x = any(x_.get('k') == 'Member' and x_.get('name') == xfield for x_ in walk_expr(n['rhs']))
                            where.append((idx, uses_x))
        inits_ = [i_ for i_ in ctor.inits if i_.get('field') == gf and i_.get('written')]
        if inits_ and any(x_.get('name') in (ctor.params[0]['name'], xfield) for x_ in walk_expr(inits_[0]['init']) if x_.get('k') in ('Ref', 'Member')):
            where.append((-1, True))
        if not where:
            ctx.undecided(E, 'Interpolation:guard-field:' + gf, ctor, 'field `%s` read by the domain guard of Locate is not assigned in this constructor' % gf)
            continue
        early = [w_ for w_ in where if w_[1] and any(w_[0] < p_ for p_ in pos_scale)]
        ctx.decide(E, 'Interpolation:guard-field:' + gf, ctor, not early,
                   'field `%s` used by the domain guard is computed after the abscissae received their unit factor' % gf,
                   'field `%s`, which the domain guard of Locate compares x with, is computed from the abscissae at statement %s, before they are '
                   'multiplied by x_dim (statements %s): valid arguments are rejected (or invalid ones accepted) when x_dim != 1' % (gf, [w_[0] for w_ in early], pos_scale))
    ok = pos_dom is not None and dom_ok and all(p < pos_dom for p in pos_scale)
    ctx.decide(E, 'Interpolation:domain-field', ctor, ok, 'domain = {X[0], X[N-1]} is taken after the abscissae received their unit factor',
               'the domain tested by Locate is not the range of the stored abscissae (domain assignment at statement %s, abscissa scaling at %s, '
               'ends ok=%s): in-domain arguments are rejected when x_dim != 1' % (pos_dom, pos_scale, dom_ok))

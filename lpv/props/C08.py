"""C08 - interpolation integrals and extrema are those of the interpolated curve (structural clauses)."""
import sympy as sp
from sympy import Symbol, Function, S
from ..ir import AnalysisBroken, Undecided, show, strip, strip_casts, walk_stmts, stmt_exprs, walk_expr, calls, loop_container
from ..symx import Symx, State, Arr, is_zero
from .C01 import evaluator_roles, applied

L = 'libphysica::'
Q = L + 'Interpolation::'
Q2 = L + 'Interpolation_2D::'
LOC = Q + 'Locate'
INT = Q + 'Interpolate'


def appl(t, name):
    return [a for a in t.atoms(sp.core.function.AppliedUndef) if a.func.__name__ == name]


def check(prog, ctx):
    ctx.rule('C08.a', 'antiderivative: the per-segment stem function G satisfies dG/dxi = Interpolate-term(xi) for the same segment and the '
             'contribution is G(right)-G(left)', 2)
    ctx.rule('C08.b', 'tiling: segments j=i1..i2 inclusive, first piece starts at x1, last ends at x2, interior ends are the knots; the limits are '
             'ordered by a swap with sign -1 applied exactly once', 4)
    ctx.rule('C08.c', 'extremum candidate set: Local_Minimum/Maximum take the min/max over {f(x1), f(x2)} and every knot k with i1 < k <= i2 '
             '(iterator range [begin+lo, begin+hi) with lo <= i1+1 and hi >= i2+1)', 4)
    ctx.rule('C08.d', 'prefactor degree: every extremum returned scales like Interpolate: knot values are multiplied by the prefactor and the '
             'min/max selection is exchanged for a negative prefactor', 4)
    ctx.rule('C08.g', 'no cancellation in the stem function: the integration limit enters the per-segment stem function G only as the offset from the '
             'segment\'s knot, (xi - X(j)); a term in the bare limit makes G(right) - G(left) the difference of two numbers of the size of the '
             'abscissa, so the result depends on where the table lies on the axis (relative error eps |x| / (right - left))', 1)
    ctx.rule('C08.f', 'the integral and extremum queries are functions of the table, the prefactor and their arguments only: every field they '
             'read (transitively) is written at construction time only, or is the prefactor (written by its two setters), or belongs to the '
             'search cache used through Locate; any other field is history-carrying state', 8)
    ctx.rule('C08.e', '2D global extrema range over all rows and all columns and scale with the prefactor of either sign', 2)
    f_eval, T, roles = evaluator_roles(prog, ctx)
    if roles is None:
        raise Undecided('evaluator form of Interpolate not recognised')
    ctx.sub('integrate', integrate, prog, ctx, roles)
    ctx.sub('extrema', extrema, prog, ctx, roles)
    ctx.sub('extrema2d', extrema2d, prog, ctx)
    ctx.sub('extrema_state', extrema_state, prog, ctx)


def integrate(prog, ctx, roles):
    fn = prog.fn(Q + 'Integrate', 2)
    loops = [s for s in fn.body['body'] if s['k'] == 'For']
    if len(loops) != 1:
        raise Undecided('Integrate: expected one segment loop')
    loop = loops[0]
    sx = Symx(prog, fn)
    x1, x2 = sx.symbol(fn.params[0]['name'], 'double'), sx.symbol(fn.params[1]['name'], 'double')
    # states before the loop (swap / no swap)
    states = [State({})]
    for s in fn.body['body']:
        if s is loop:
            break
        states, done = sx.exec(s, states)
    if len(states) != 2:
        ctx.violated('C08.b', 'Integrate:limit-order', fn, 'expected two pre-loop paths (limits ordered by a swap), found %d' % len(states))
        return
    okswap = True
    signs = []
    for st in states:
        cond = sp.And(*st.conds)
        a_ = st.env.get(fn.params[0]['id'], x1)
        b_ = st.env.get(fn.params[1]['id'], x2)
        swapped = (a_ == x2 and b_ == x1)
        plain = (a_ == x1 and b_ == x2)
        # sign variable: the local that equals +-1
        sg = [v for k, v in st.env.items() if v in (1, -1) and not isinstance(v, bool)]
        if cond == sp.Gt(x1, x2) or cond == sp.Lt(x2, x1):
            okswap &= swapped and (-1 in sg)
        else:
            okswap &= plain and (1 in sg) and (-1 not in sg)
        signs.append(sg)
    ctx.decide('C08.b', 'Integrate:limit-order', fn, okswap, 'x1>x2: limits swapped and sign=-1; otherwise unchanged and sign=+1',
               'limit ordering / sign bookkeeping is wrong: %s' % signs)
    st = [s_ for s_ in states if not (s_.env.get(fn.params[0]['id'], x1) == x2)][0]
    # loop bounds
    cl = sx.counted(loop, st)
    I1 = [v for v in st.env.values() if isinstance(v, sp.Basic) and appl(v, LOC) and v.func.__name__ == LOC] if False else None
    i1s = [v for v in st.env.values() if isinstance(v, sp.core.function.AppliedUndef) and v.func.__name__ == LOC and v.args[-1] == x1]
    i2s = [v for v in st.env.values() if isinstance(v, sp.core.function.AppliedUndef) and v.func.__name__ == LOC and v.args[-1] == x2]
    if not cl or len(i1s) < 1 or len(i2s) < 1:
        ctx.undecided('C08.b', 'Integrate:segments', fn, 'segment loop or Locate(x1)/Locate(x2) not recognised')
        return
    i1, i2 = i1s[0], i2s[0]
    var, lo, hi = cl
    okb = lo == 0 and is_zero(hi - (i2 - i1 + 1))
    ctx.decide('C08.b', 'Integrate:segments', fn, okb, 'loop covers segments i1..i2 inclusive (%s iterations)' % hi,
               'segment loop runs over [%s,%s), expected i2-i1+1 iterations' % (lo, hi), line=loop['l'])
    entry, cond, live, done, n0 = sx.loop_step(loop, st)
    if len(live) > 1:
        # paths that leave the accumulator alone (a skipped piece): admissible only for an empty piece (left end == right end)
        accs = [k for k, v in entry.items() if isinstance(v, Symbol) and not str(v).startswith(var['name'] + '@')]
        skip = [q for q in live if len(accs) == 1 and q.env.get(accs[0]) == entry[accs[0]]]
        work = [q for q in live if q not in skip]
        if len(work) == 1 and skip:
            pw_ = [v for k, v in work[0].env.items() if isinstance(v, sp.Piecewise)]
            ii_ = [v2 for k2, v2 in entry.items() if str(v2).startswith(var['name'] + '@')][0]

            def at(v, val):
                try:
                    return v.subs(ii_, val)
                except Exception:
                    return None
            ends = [v for v in pw_ if at(v, 0) == x1] + [v for v in pw_ if at(v, i2 - i1) == x2]
            verdicts = []
            for q in skip:
                rels = []
                for c_ in q.conds[n0:]:
                    if isinstance(c_, sp.Basic):
                        rels += list(c_.atoms(sp.core.relational.Relational)) + ([c_] if isinstance(c_, sp.core.relational.Relational) else [])
                v_ = 'unknown'
                if len(ends) == 2:
                    XL_, XR_ = ends
                    for r_ in rels:
                        if isinstance(r_, sp.Equality) and {r_.lhs, r_.rhs} == {XL_, XR_}:
                            v_ = 'empty'
                        if isinstance(r_, (sp.Lt, sp.Le, sp.Gt, sp.Ge)):
                            small, big = (r_.lhs, r_.rhs) if isinstance(r_, (sp.Lt, sp.Le)) else (r_.rhs, r_.lhs)
                            if big.is_number and big > 0:
                                for cand in [small] + ([e_ for e_, _c in small.args] if isinstance(small, sp.Piecewise) else []):
                                    num_, den_ = sp.fraction(cand)
                                    if is_zero(num_ - sp.Abs(XL_ - XR_)) or is_zero(num_ - sp.Abs(XR_ - XL_)):
                                        v_ = ('tolerance', float(big), str(den_)[:60])
                if v_ == 'unknown' and len(ends) == 2:
                    # the skip condition is an in-repo predicate of the two ends: summarise the predicate on fresh symbols
                    for c_ in q.conds[n0:]:
                        if not isinstance(c_, sp.Basic):
                            continue
                        for app in c_.atoms(sp.core.function.AppliedUndef):
                            if len(app.args) >= 2 and {app.args[0], app.args[1]} == {ends[0], ends[1]}:
                                cal = [f_ for f_ in prog.repo_functions() if f_.q == app.func.__name__ and len(f_.params) == len(app.args)]
                                if len(cal) != 1:
                                    continue
                                try:
                                    sx2 = Symx(prog, cal[0], inline={'*'})
                                    outs2 = sx2.run()
                                except Exception:
                                    continue
                                ps_ = [sx2.symbol(p_['name'], p_['ty']) for p_ in cal[0].params]
                                for o2 in outs2:
                                    terms2 = [t2 for t2 in list(o2.state.conds) + ([o2.value] if isinstance(o2.value, sp.Basic) else []) if isinstance(t2, sp.Basic)]
                                    for t2 in terms2:
                                        for r_ in t2.atoms(sp.core.relational.Relational):
                                            if not isinstance(r_, (sp.Lt, sp.Le, sp.Gt, sp.Ge)):
                                                continue
                                            small, big = (r_.lhs, r_.rhs) if isinstance(r_, (sp.Lt, sp.Le)) else (r_.rhs, r_.lhs)
                                            for cand in [small] + ([e_ for e_, _c in small.args] if isinstance(small, sp.Piecewise) else []):
                                                num_, den_ = sp.fraction(cand)
                                                if is_zero(num_ - sp.Abs(ps_[0] - ps_[1])) and big in ps_[2:]:
                                                    tv = app.args[ps_.index(big)]
                                                    if tv.is_number and tv > 0:
                                                        v_ = ('tolerance', float(tv), '%s (predicate %s)' % (str(den_)[:40], cal[0].q.split('::')[-1]))
                verdicts.append(v_)
            tol = [v_ for v_ in verdicts if isinstance(v_, tuple)]
            if tol:
                ctx.violated('C08.b', 'Integrate:skipped-piece', fn, 'a piece is skipped when its ends differ by less than %g relative to %s: a tolerance on the abscissae, not an empty piece - '
                             'for a table whose knot spacing is below that tolerance times |x| every piece is dropped' % (tol[0][1], tol[0][2]),
                             witness={'tolerance': tol[0][1], 'reproducer': 'x = 2^30 + k/128, y = 1: Integrate over the table returns 0'}, line=loop['l'])
                return
            if all(v_ == 'empty' for v_ in verdicts):
                live = work
    if len(live) != 1:
        raise Undecided('Integrate loop body branches')
    p = live[0]
    ii = [v for k, v in entry.items() if isinstance(v, Symbol) and str(v).startswith(var['name'] + '@')][0]
    # locals of the body by role: j, x_left, x_right are found through the accumulated difference
    acc = [(k, v) for k, v in entry.items() if isinstance(v, Symbol) and v is not ii]
    if len(acc) != 1:
        raise Undecided('Integrate: expected one accumulator, found %d' % len(acc))
    kacc, acc_in = acc[0]
    delta = p.env[kacc] - acc_in
    jexpr = i1 + ii
    Xf = roles['X']
    # x_left / x_right: Piecewise values among the body's locals
    pws = [v for k, v in p.env.items() if isinstance(v, sp.Piecewise)]
    m = Symbol('m', positive=True, integer=True)
    xl = [v for v in pws if v.subs(ii, 0) == x1]
    xr = [v for v in pws if v.subs(ii, i2 - i1) == x2]
    okl = len(xl) == 1 and is_zero(xl[0].subs(ii, m) - Xf(i1 + m))
    okr = len(xr) == 1 and is_zero(xr[0].subs(ii, i2 - i1 - m) - Xf(i2 - m + 1))
    ctx.decide('C08.b', 'Integrate:piece-ends', fn, okl and okr,
               'first piece starts at x1, last ends at x2, interior ends are X(j) and X(j+1)',
               'piece ends are wrong: left=%s right=%s' % ([str(v) for v in xl] or 'not found', [str(v) for v in xr] or 'not found'),
               line=loop['l'])
    if not (okl and okr):
        return
    xi = Symbol('xi', real=True)
    XL, XR = xl[0], xr[0]
    # G: delta = G(XR) - G(XL)
    a_, b_ = sp.symbols('A_ B_', real=True)
    d2 = delta.subs(XR, a_).subs(XL, b_)
    if d2.has(sp.Piecewise):
        raise Undecided('stem function does not separate into G(right)-G(left)')
    Gr = d2.subs(b_, 0) - d2.subs({a_: 0, b_: 0}) / 2
    Gl = -(d2.subs(a_, 0) - d2.subs({a_: 0, b_: 0}) / 2)
    sep = is_zero(d2 - (Gr - Gl)) and is_zero(Gr.subs(a_, xi) - Gl.subs(b_, xi))
    ctx.decide('C08.a', 'Integrate:difference', fn, sep, 'contribution is G(right)-G(left) with one stem function G',
               'left and right stem functions differ: %s' % sp.simplify(Gr.subs(a_, xi) - Gl.subs(b_, xi)), line=loop['l'])
    G = Gr.subs(a_, xi)
    Tj = roles['T'].subs(roles['x'], xi).subs(roles['j'], jexpr)
    resid = sp.diff(G, xi) - Tj
    z = is_zero(resid)
    ctx.decide('C08.a', 'Integrate:antiderivative', fn, z, 'dG/dxi equals the Interpolate term of segment j=i1+i',
               'dG/dxi differs from the interpolant on the segment', witness={'residual': str(sp.factor(sp.expand(resid)))[:300]},
               line=loop['l'], form=str(G))
    # C08.g: the form in which G is evaluated (not its value): with xi = X(j) + u every term that depends on u must be free of X(j)
    u_ = Symbol('u_', real=True)
    Xj = Xf(jexpr)
    Gu = G.subs(xi, Xj + u_)
    terms = sp.Add.make_args(Gu)
    bare = []
    for t_ in terms:
        # the prefactor and other common factors multiply the sum: look inside products for sums, too
        inner = [t_]
        while inner:
            w_ = inner.pop()
            if isinstance(w_, sp.Mul) and any(isinstance(f_, sp.Add) and f_.has(u_) for f_ in w_.args):
                for f_ in w_.args:
                    if isinstance(f_, sp.Add) and f_.has(u_):
                        for q_ in f_.args:
                            if q_.has(u_) and q_.has(Xj):
                                bare.append(q_)
                            elif isinstance(q_, sp.Mul):
                                inner.append(q_)
                        if f_.has(Xj) and f_.has(u_) and not any(q_.has(u_) and q_.has(Xj) for q_ in f_.args) and any(q_.has(Xj) and not q_.has(u_) for q_ in f_.args):
                            bare.append(f_)
            elif w_.has(u_) and w_.has(Xj):
                bare.append(w_)
    if not G.has(xi):
        ctx.undecided('C08.g', 'Integrate:offset-form', fn, 'stem function does not depend on the limit', line=loop['l'])
    else:
        ctx.decide('C08.g', 'Integrate:offset-form', fn, not bare, 'the limit enters the stem function only as its offset from the knot X(j)',
                   'the stem function contains the bare limit: with xi = X(j) + u the term(s) %s depend on the position X(j) of the segment on the axis, so '
                   'G(right) - G(left) subtracts two numbers of the size of the abscissa' % [str(b_)[:80] for b_ in bare[:2]],
                   witness={'terms': [str(b_)[:120] for b_ in bare[:3]],
                            'reproducer': 'x = 1e9 + {0..5}, y = 0.7 + 0.01 k^2: Integrate(x0+2.25, x0+2.25+1/1024) = 7.33018e-4, below min(f) * length = 7.33032e-4 (the same table at x0 = 0 gives 7.33054e-4)'} if bare else None,
                   line=loop['l'])
    # result = sign * integral on both orientations
    FIN = Symbol('integral_final', real=True)
    res = []
    for stx in states:
        env = dict(stx.env)
        env[kacc] = FIN
        rv = None
        seen = False
        st2 = State(env)
        for s in fn.body['body']:
            if s is loop:
                seen = True
                continue
            if seen:
                live2, done2 = sx.exec(s, [st2])
                for o in done2:
                    if o.kind == 'return':
                        rv = o.value
        swapped = stx.env.get(fn.params[0]['id'], x1) == x2
        res.append((swapped, rv))
    okres = all(rv is not None and is_zero(rv - (-FIN if sw else FIN)) for sw, rv in res)
    ctx.decide('C08.b', 'Integrate:result', fn, okres, 'returns +integral for ordered limits and -integral for exchanged limits',
               'orientation sign is not applied exactly once: %s' % [(sw, str(rv)) for sw, rv in res])


def pos_neg(t, P):
    pp = Symbol('Ppos', positive=True)
    pn = Symbol('Pneg', negative=True)
    # substituting a signed symbol decides the alternatives that test the sign of the prefactor; alternatives inside the
    # arguments (an index chosen by the position of a limit) are left alone
    def side(sym):
        u = t.subs(P, sym)
        if isinstance(u, sp.Piecewise) and any(c_.has(sym) for _e, c_ in u.args):
            u = sp.piecewise_fold(u)
        return u.subs(sym, P)
    return side(pp), side(pn)


def knot_term_ok(K, P, Yname, lo_req, hi_req, want_min, ctx, fn, inst, rule_c, rule_d):
    """K must be P*MINEL(Y,lo,hi) for P>0 and P*MAXEL(Y,lo,hi) for P<0 (for a minimum), with lo<=lo_req, hi>=hi_req."""
    kp, kn = pos_neg(K, P)
    res = {}
    for tag, t, wantf in (('P>0', kp, 'MINEL' if want_min else 'MAXEL'), ('P<0', kn, 'MAXEL' if want_min else 'MINEL')):
        els = [a for a in t.atoms(sp.core.function.AppliedUndef) if a.func.__name__ in ('MINEL', 'MAXEL')]
        if len(els) != 1:
            res[tag] = ('shape', 'no single element extremum in %s' % t)
            continue
        E = els[0]
        ratio = sp.cancel(t / E)
        res[tag] = (E, ratio, wantf)
    # candidate set (rule_c): range covers (i1, i2]
    E0 = res['P>0'][0] if not isinstance(res['P>0'][0], str) else None
    if E0 is None:
        ctx.undecided(rule_c, inst, fn, 'knot extremum not recognised: %s' % K)
        return
    arr, lo, hi = E0.args
    if lo_req is None:
        # the range is judged by the placement table of the caller; here: the extremum is taken over the table of ordinates
        ctx.decide(rule_c, inst, fn, str(arr) == 'arr:' + Yname, 'the knot extremum ranges over the ordinates %s' % arr, 'the knot extremum ranges over %s' % arr, form=str(K))
        dl = dh = sp.Integer(0)
        okc = True
    else:
        dl = sp.simplify(lo_req - lo)
        dh = sp.simplify(hi - hi_req)
        okc = str(arr) == 'arr:' + Yname and dl.is_number and dl >= 0 and dh.is_number and dh >= 0
    if lo_req is not None:
        ctx.decide(rule_c, inst, fn, bool(okc), 'knots [%s, %s) of %s are candidates (required: [%s, %s))' % (lo, hi, arr, lo_req, hi_req),
               'candidate knots [%s, %s) do not cover the required range [%s, %s): knot %s is skipped'
               % (lo, hi, lo_req, hi_req, hi_req - 1 if not (dh.is_number and dh >= 0) else lo_req),
               witness={'reproducer': 'table x=0..4, f=(5,4,-7,4,5): Local_Minimum(0.5,2.5) returns -1.75, the curve reaches -7'} if not okc else None,
               form=str(K))
    # prefactor degree and selection exchange (rule_d)
    probs = []
    for tag in ('P>0', 'P<0'):
        E, ratio, wantf = res[tag]
        if isinstance(E, str):
            probs.append('%s: %s' % (tag, ratio))
            continue
        if not is_zero(ratio - P):
            probs.append('%s: knot extremum is multiplied by %s, not by the prefactor' % (tag, ratio))
        if E.func.__name__ != wantf:
            probs.append('%s: selects %s of the table, expected %s' % (tag, E.func.__name__, wantf))
    ctx.decide(rule_d, inst, fn, not probs, 'knot extremum is prefactor*min (prefactor*max for a negative prefactor)',
               '; '.join(probs), witness={'reproducer': 'prefactor -1 on f=(5,4,-7,4,5): Global_Minimum() = -7 while f(2) = +7'} if probs else None,
               form=str(K))


def extrema(prog, ctx, roles):
    P = roles['pref']
    Ycands = None
    for name, want_min in (('Local_Minimum', True), ('Local_Maximum', False)):
        fn = prog.fn(Q + name, 2)
        sx = Symx(prog, fn)
        outs = [o for o in sx.run() if o.kind == 'return']
        x1, x2 = sx.symbol(fn.params[0]['name'], 'double'), sx.symbol(fn.params[1]['name'], 'double')
        i1 = Function(LOC, real=True)(Symbol('obj:this'), x1)
        i2 = Function(LOC, real=True)(Symbol('obj:this'), x2)
        f1 = Function(INT, real=True)(Symbol('obj:this'), x1)
        f2 = Function(INT, real=True)(Symbol('obj:this'), x2)
        MM = sp.Min if want_min else sp.Max
        # Decided on a concrete table X[k] = k, k < 6, domain [0,5], with the limits placed below, at, between and above the knots
        # and in both 1% extrapolation zones; Locate(x) is the segment index the search rules of C09 establish: floor(x) inside
        # the domain (N-2 at the last knot), 0 in the left zone, N-2 in the right zone.  For every placement exactly one
        # returning path applies, and every knot k with x1 <= X[k] <= x2 must be a candidate: inside the knot range handed to
        # min/max_element, or equal to a limit (whose value f(x1), f(x2) is a candidate).
        import math
        NT = 6
        AU = sp.core.function.AppliedUndef
        Nsyms = lambda t: [y_ for y_ in t.free_symbols if y_.name == 'this.N']

        def locm(xv):
            if xv < 0:
                return 0
            if xv >= NT - 1:
                return NT - 2
            return int(math.floor(xv))

        def conc(t, x1v, x2v):
            if not isinstance(t, sp.Basic):
                return t
            for _ in range(6):
                t = t.xreplace({x1: sp.nsimplify(x1v), x2: sp.nsimplify(x2v)})
                t = t.xreplace({y_: sp.Integer(NT) for y_ in Nsyms(t)})
                rep = {}
                for a_ in t.atoms(AU):
                    n_ = a_.func.__name__
                    if n_ == LOC and len(a_.args) == 2 and a_.args[1].is_number:
                        rep[a_] = sp.Integer(locm(float(a_.args[1])))
                    elif n_ == 'this.domain' and len(a_.args) == 1 and a_.args[0].is_number:
                        rep[a_] = sp.Integer(0) if a_.args[0] == 0 else sp.Integer(NT - 1)
                    elif n_ == 'this.x_values' and len(a_.args) == 1 and a_.args[0].is_number:
                        rep[a_] = a_.args[0]
                if not rep:
                    break
                t = t.xreplace(rep)
            try:
                return sp.simplify(t)
            except Exception:
                return t
        places = [-0.008, -0.005, 0.0, 0.5, 1.0, 2.5, 4.5, 5.0, 5.005, 5.008]
        missing, undecided_rows, nrows = [], [], 0
        knot_terms = []
        for o in outs:
            v = o.value
            args = list(v.args) if isinstance(v, MM) else [v]
            if not (f1 in args and f2 in args):
                ctx.violated('C08.c', name + ':ends', fn, 'candidates %s do not contain both end values f(x1), f(x2)' % [str(a_)[:40] for a_ in args])
        for x1v in places:
            for x2v in places:
                if x2v < x1v:
                    continue
                sel = []
                for o in outs:
                    c = conc(o.cond, x1v, x2v)
                    if c == S.true or c is True:
                        sel.append(o)
                    elif c not in (S.false, False):
                        undecided_rows.append((x1v, x2v, str(c)[:80]))
                if len(sel) != 1:
                    undecided_rows.append((x1v, x2v, '%d paths apply' % len(sel)))
                    continue
                nrows += 1
                v = sel[0].value
                els = [a_ for a_ in v.atoms(AU) if a_.func.__name__ in ('MINEL', 'MAXEL')] if isinstance(v, sp.Basic) else []
                examined = set()
                bad_range = False
                for E in els:
                    lo_, hi_ = conc(E.args[1], x1v, x2v), conc(E.args[2], x1v, x2v)
                    if not (lo_.is_number and hi_.is_number):
                        bad_range = True
                        break
                    examined |= set(range(int(lo_), int(hi_)))
                if bad_range:
                    undecided_rows.append((x1v, x2v, 'knot range %s..%s' % (lo_, hi_)))
                    continue
                if any(k_ < 0 or k_ >= NT for k_ in examined):
                    missing.append({'x1': x1v, 'x2': x2v, 'out_of_range_knots': sorted(k_ for k_ in examined if k_ < 0 or k_ >= NT)})
                    continue
                expected = set(k_ for k_ in range(NT) if x1v <= k_ <= x2v)
                miss = sorted(k_ for k_ in expected if k_ not in examined and k_ != x1v and k_ != x2v)
                if miss:
                    missing.append({'x1': x1v, 'x2': x2v, 'knots_never_compared': miss, 'compared': sorted(examined)})
                extra = sorted(k_ for k_ in examined if k_ not in expected)
                if extra:
                    missing.append({'x1': x1v, 'x2': x2v, 'knots_outside_the_interval_compared': extra})
                if els:
                    knot_terms.append(sel[0])
        if undecided_rows and not missing:
            ctx.undecided('C08.c', name + ':coverage', fn, 'candidate set not evaluated on the concrete table: %s' % undecided_rows[:2])
        else:
            ctx.decide('C08.c', name + ':coverage', fn, not missing,
                       'on all %d placements of the limits the knots compared are exactly the knots inside [x1,x2] (or a limit itself) (table X[k]=k, k<%d, limits incl. both extrapolation zones)' % (nrows, NT),
                       'the knots compared are not the knots inside [x1,x2]: %s' % missing[:2],
                       witness={'cases': missing[:4], 'reproducer': 'Interpolation({0,1,2},{0,4,5}).Local_Maximum(1.5, 2.005) returns 4.999975 although the curve reaches 5 at x=2'} if missing else None)
        # prefactor handling of the knot term (C08.d): on one path that carries it
        done_d = set()
        for o in knot_terms:
            if id(o) in done_d:
                continue
            done_d.add(id(o))
            v = o.value
            args = list(v.args) if isinstance(v, MM) else [v]
            rest = [a_ for a_ in args if not (a_ == f1 or a_ == f2)]
            if len(rest) != 1:
                ctx.violated('C08.c', name + ':knots', fn, 'candidates are %s, expected {f(x1), f(x2), knot extremum}' % [str(a_)[:40] for a_ in args])
                continue
            K = rest[0]
            els = [a_ for a_ in K.atoms(AU) if a_.func.__name__ in ('MINEL', 'MAXEL')]
            Yn = str(els[0].args[0])[4:] if els else '?'
            knot_term_ok(K, P, Yn, None, None, want_min, ctx, fn, name + ':knots', 'C08.c', 'C08.d')
            Ycands = Yn
    for name, want_min in (('Global_Minimum', True), ('Global_Maximum', False)):
        fn = prog.fn(Q + name, 0)
        sx = Symx(prog, fn)
        outs = [o for o in sx.run() if o.kind == 'return']
        if len(outs) != 1:
            pieces = [(o.value, o.cond) for o in outs]
            K = sp.Piecewise(*pieces)
        else:
            K = outs[0].value
        els = [a for a in K.atoms(sp.core.function.AppliedUndef) if a.func.__name__ in ('MINEL', 'MAXEL')]
        Yn = str(els[0].args[0])[4:] if els else '?'
        n = Symbol('len(%s)' % Yn, integer=True, nonnegative=True)
        knot_term_ok(K, P, Ycands or Yn, sp.Integer(0), n, want_min, ctx, fn, name + ':table', 'C08.c', 'C08.d')


def reduction_form(prog, ctx, fn, inst, P, want_min):
    """The global extremum written as a running minimum/maximum over all entries: prefactor * Min/Max(start, RED over rows(RED over
    the row)).  The start value must be neutral for the reduction (+-infinity, +-numeric_limits::max(), lowest(), or an entry of the
    table).  Returns False when the function is not of that form."""
    AU = sp.core.function.AppliedUndef
    try:
        outs = [o for o in Symx(prog, fn).run() if o.kind == 'return']
    except Undecided:
        return False
    if len(outs) != 1 or not isinstance(outs[0].value, sp.Basic) or not [a for a in outs[0].value.atoms(AU) if a.func.__name__ in ('MAXRED', 'MINRED')]:
        return False
    B = outs[0].value
    probs = []
    for tag, wantf in (('P>0', 'MIN' if want_min else 'MAX'), ('P<0', 'MAX' if want_min else 'MIN')):
        b_ = pos_neg(B, P)[0 if tag == 'P>0' else 1]
        q = sp.cancel(b_ / P)
        if q.has(P):
            probs.append('%s: result is %s, not prefactor times an extremum' % (tag, str(b_)[:120]))
            continue
        if not isinstance(q, (sp.Max, sp.Min)):
            reds = [q] if isinstance(q, AU) and q.func.__name__ in ('MAXRED', 'MINRED') else []
            starts = []
        else:
            reds = [a for a in q.args if isinstance(a, AU) and a.func.__name__ in ('MAXRED', 'MINRED')]
            starts = [a for a in q.args if a not in reds]
        if len(reds) != 1:
            probs.append('%s: %s is not a single running extremum over the table' % (tag, str(q)[:120]))
            continue
        kind = 'MAX' if reds[0].func.__name__ == 'MAXRED' else 'MIN'
        if kind != wantf or (isinstance(q, sp.Max) and kind != 'MAX') or (isinstance(q, sp.Min) and kind != 'MIN'):
            probs.append('%s: selects the %s over the table, expected the %s' % (tag, kind.lower(), wantf.lower()))
        outer = reds[0]
        inner = outer.args[0]
        if not (isinstance(inner, AU) and inner.func == outer.func):
            probs.append('%s: the reduction does not run over rows and columns: %s' % (tag, str(outer)[:120]))
            continue
        ent, jv, jlo, jhi = inner.args
        iv, ilo, ihi = outer.args[1:]
        okent = isinstance(ent, AU) and ent.func.__name__ == 'this.function_values' and tuple(ent.args) == (iv, jv)
        okrng = ilo == 0 and jlo == 0 and str(sp.simplify(ihi + 1)) == 'len(this.function_values)' and 'len(' in str(jhi)
        if not (okent and okrng):
            probs.append('%s: the reduction runs over %s for (%s,%s) in [%s,%s]x[%s,%s], not over every entry of the table' % (tag, ent, iv, jv, ilo, ihi, jlo, jhi))
        for st_ in starts:
            neutral = False
            txt = str(st_)
            if st_ in (sp.oo, -sp.oo):
                neutral = (st_ == -sp.oo) == (kind == 'MAX')
            elif isinstance(st_, AU) and st_.func.__name__ == 'this.function_values':
                neutral = True
            elif 'numeric_limits' in txt:
                neg = txt.startswith('-')
                if 'lowest' in txt:
                    neutral = kind == 'MAX' and not neg
                elif '::max' in txt or 'infinity' in txt:
                    neutral = (kind == 'MIN' and not neg) or (kind == 'MAX' and neg)
                else:
                    neutral = False          # numeric_limits<double>::min() is the smallest POSITIVE double
            elif st_.is_number:
                neutral = False
            if not neutral:
                probs.append('%s: the running %s starts from %s, which is not neutral for it: a table whose entries all lie on the other side of that '
                             'value returns the start value instead of an entry' % (tag, kind.lower() + 'imum', txt))
    ctx.decide('C08.e', inst, fn, not probs, 'prefactor * running min/max over every entry, started from a neutral value (max for a negative prefactor)',
               '; '.join(probs), witness={'reproducer': 'a table whose entries are all negative: Global_Maximum returns 2.2e-308'} if probs else None, form=str(B)[:300])
    return True


def extrema2d(prog, ctx):
    for name, want_min in (('Global_Minimum', True), ('Global_Maximum', False)):
        fn = prog.fn(Q2 + name, 0)
        P = Symbol('this.prefactor', real=True)
        inst = 'Interpolation_2D::' + name
        if reduction_form(prog, ctx, fn, inst, P, want_min):
            continue
        rf = [s for s in walk_stmts(fn.body) if s['k'] == 'For' and loop_container(s) is not None]
        if len(rf) != 1:
            ctx.undecided('C08.e', inst, fn, 'expected one loop over the rows')
            continue
        loop = rf[0]
        rng, rowi = loop_container(loop)
        grid_ok = rng.get('k') == 'Member' and rng['name'] == 'function_values'
        # the per-row value: appended to (or stored at the row index of) one local list
        sx = Symx(prog, fn)
        st = State({})
        writes = []
        for c in calls(loop['body']):
            if c.get('kind') == 'method' and c['callee']['name'] == 'push_back' and strip(c['obj']).get('rk') == 'local':
                writes.append((sx.lv_name(c['obj']), c['args'][0]))
        for x_ in walk_stmts(loop['body']):
            for e_ in stmt_exprs(x_):
                e_ = strip(e_)
                if e_.get('k') == 'Bin' and e_['op'] == '=' and strip(e_['lhs']).get('k') == 'Index' and strip(strip(e_['lhs'])['base']).get('rk') == 'local' \
                        and strip_casts(strip(e_['lhs'])['idx']).get('name') == rowi:
                    writes.append((sx.lv_name(strip(e_['lhs'])['base']), e_['rhs']))
        if len(writes) != 1:
            ctx.undecided('C08.e', inst, fn, 'row loop does not collect one value per row')
            continue
        A = sx.sym(writes[0][1], st)
        collected = writes[0][0]
        outs = [o for o in sx.run() if o.kind == 'return']
        if len(outs) != 1:
            B = sp.Piecewise(*[(o.value, o.cond) for o in outs])
        else:
            B = outs[0].value
        probs = []
        rowv = '%s[%s]' % (sx.lv_name(rng), rowi)
        for tag, wantf in (('P>0', 'MINEL' if want_min else 'MAXEL'), ('P<0', 'MAXEL' if want_min else 'MINEL')):
            a_ = pos_neg(A, P)[0 if tag == 'P>0' else 1]
            b_ = pos_neg(B, P)[0 if tag == 'P>0' else 1]
            ea = [t for t in a_.atoms(sp.core.function.AppliedUndef) if t.func.__name__ in ('MINEL', 'MAXEL')]
            eb = [t for t in b_.atoms(sp.core.function.AppliedUndef) if t.func.__name__ in ('MINEL', 'MAXEL')]
            if len(ea) != 1 or len(eb) != 1:
                probs.append('%s: row/overall extremum not recognised (%s / %s)' % (tag, a_, b_))
                continue
            if ea[0].func.__name__ != wantf or eb[0].func.__name__ != wantf:
                probs.append('%s: selects %s per row and %s overall, expected %s' % (tag, ea[0].func.__name__, eb[0].func.__name__, wantf))
            rown = sx.lv_name(rng)
            whole_row = (str(ea[0].args[0]) == 'arr:' + rowv and ea[0].args[1] == 0 and str(ea[0].args[2]) == 'len(%s)' % rowv) or \
                (isinstance(ea[0].args[0], sp.core.function.AppliedUndef) and ea[0].args[0].func.__name__ == 'arr:' + rown and len(ea[0].args[0].args) == 1
                 and ea[0].args[1] == 0 and isinstance(ea[0].args[2], sp.core.function.AppliedUndef) and ea[0].args[2].func.__name__ == 'len:' + rown
                 and ea[0].args[2].args == ea[0].args[0].args and str(ea[0].args[0].args[0]) in (rowi, rowi + '_'))
            if not whole_row:
                probs.append('%s: row extremum does not range over the whole row: %s' % (tag, ea[0]))
            if not (str(eb[0].args[0]).startswith('arr:' + collected) and eb[0].args[1] == 0):
                probs.append('%s: overall extremum does not range over all collected rows: %s' % (tag, eb[0]))
            tot = sp.cancel(a_ / ea[0]) * sp.cancel(b_ / eb[0])
            if not is_zero(tot - P):
                probs.append('%s: result is scaled by %s, not by the prefactor' % (tag, tot))
        if not grid_ok:
            probs.append('loop does not range over the grid ordinates')
        ctx.decide('C08.e', inst, fn, not probs, 'prefactor*min over all rows and columns (max for a negative prefactor)', '; '.join(probs),
                   form='row: %s; overall: %s' % (A, B))


def extrema_state(prog, ctx):
    from .C09 import field_reads, field_writes, locate_and_helpers
    loc, closure = locate_and_helpers(prog)
    search = {loc.q} | closure
    for cq, names in ((L + 'Interpolation', ('Integrate', 'Local_Minimum', 'Local_Maximum', 'Global_Minimum', 'Global_Maximum')),
                      (L + 'Interpolation_2D', ('Global_Minimum', 'Global_Maximum', 'Interpolate'))):
        members = [f for f in prog.all_functions() if f.cls == cq]
        writers = {}
        for f in members:
            for fld in field_writes(f):
                writers.setdefault(fld, set()).add(f)
        callers = {}
        for f in members:
            for c_ in calls(f):
                q = (c_.get('callee') or {}).get('q')
                if q:
                    callers.setdefault(q, set()).add(f)

        def ctor_only(f, seen=()):
            if f.d.get('ctor'):
                return True
            cs = callers.get(f.q, set())
            return bool(cs) and all(g is f or (g not in seen and ctor_only(g, seen + (f,))) for g in cs)
        cache = set(field_writes(loc)) if cq == L + 'Interpolation' else set()
        helper_fields = set(fl['name'] for fl in prog.classes[cq]['fields'] if fl['ty'] == L + 'Interpolation')
        for name in names:
            for fn in [f for f in members if f.name == name]:
                # transitive in-class callees except the search
                todo, seen = [fn], set()
                reads = {}
                while todo:
                    g = todo.pop()
                    if g.sig in seen or g.q in search:
                        continue
                    seen.add(g.sig)
                    for fld, node in field_reads(g).items():
                        reads.setdefault(fld, g)
                    for fld in field_writes(g):
                        reads.setdefault(fld, g)
                    for c_ in calls(g):
                        cc = c_.get('callee') or {}
                        if cc.get('cls') == cq and cc.get('inrepo'):
                            for h in prog.fns(cc['q']):
                                todo.append(h)
                bad = []
                for fld, g in reads.items():
                    ws = writers.get(fld, set())
                    if all(ctor_only(w) for w in ws):
                        continue
                    if ws and all(w.d.get('ctor') or w.name in ('Set_Prefactor', 'Multiply') for w in ws):
                        continue
                    if fld in cache or fld in helper_fields:
                        continue
                    bad.append('%s (read in %s, written by %s)' % (fld, g.name, sorted(w.name for w in ws if not w.d.get('ctor'))))
                inst = '%s::%s:state' % (cq.replace(L, ''), name)
                if not bad:
                    ctx.holds('C08.f', inst, fn, 'reads only construction-time fields, the prefactor and the search cache (%d fields)' % len(reads))
                    continue
                # cached state: definitely stale if some writer of an input of the cache does not touch the cache at all
                B = set(b_.split(' ')[0] for b_ in bad)
                fillers = set(w for fld in B for w in writers.get(fld, set()) if not w.d.get('ctor'))
                stale = []
                def reads_closure(w_):
                    todo_, seen_, out_ = [w_], set(), set()
                    while todo_:
                        g_ = todo_.pop()
                        if g_.sig in seen_ or g_.q in search:
                            continue
                        seen_.add(g_.sig)
                        out_ |= set(field_reads(g_))
                        for c2_ in calls(g_):
                            cc2 = c2_.get('callee') or {}
                            if cc2.get('cls') == cq and cc2.get('inrepo'):
                                todo_ += prog.fns(cc2['q'])
                    return out_
                for w in fillers:
                    for p in reads_closure(w):
                        if p in B:
                            continue
                        for S_ in writers.get(p, set()):
                            if S_.d.get('ctor') or S_ in fillers or ctor_only(S_):
                                continue
                            if not (set(field_writes(S_)) & B):
                                stale.append('%s changes `%s` (an input of the cached value computed in %s) without touching the cache' % (S_.name, p, w.name))
                if stale:
                    ctx.violated('C08.f', inst, fn, 'returns cached state %s that goes stale: %s' % (sorted(B), sorted(set(stale))),
                                 witness={'fields': bad, 'stale': sorted(set(stale))})
                else:
                    ctx.undecided('C08.f', inst, fn, 'depends on cached state %s whose invalidation protocol is outside the understood fragment' % bad)

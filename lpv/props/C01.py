"""C01 - Interpolants reproduce the data and never overshoot it (structural clauses, over the reals)."""
import sympy as sp
from sympy import Symbol, Function, S
from ..ir import AnalysisBroken, Undecided, show, strip, strip_casts, walk_stmts, stmt_exprs, walk_expr, calls, all_exprs
from ..symx import Symx, Arr, is_zero, equal
from .. import symx as SX

Q = 'libphysica::Interpolation::'
Q2 = 'libphysica::Interpolation_2D::'


def applied(t, name_pred=None):
    out = []
    for a in t.atoms(sp.core.function.AppliedUndef):
        if name_pred is None or name_pred(a.func.__name__):
            out.append(a)
    return out


EXTRA_PATHS = []


def evaluator_roles(prog, ctx):
    """From Interpolate(): infer prefactor, abscissa array X, coefficient arrays F0..F3, the Locate term."""
    f = prog.fn(Q + 'Interpolate', 1)
    sx = Symx(prog, f)
    outs = [o for o in sx.run() if o.kind == 'return']
    # the evaluator is the returning path whose value goes through Locate(); any other returning path is a shortcut that
    # has to be justified (see check(): Interpolate:every-path)
    main = [o for o in outs if isinstance(o.value, sp.Basic) and any(a.func.__name__ == Q + 'Locate' for a in applied(o.value))]
    if len(main) > 1:
        # several paths use the located segment: the evaluator is the one of highest degree in x (the others are range
        # shortcuts, judged by Interpolate:every-path)
        xs_ = sx.symbol(f.params[0]['name'], 'double')

        def deg(o):
            try:
                v_ = o.value.replace(lambda e_: isinstance(e_, sp.Pow) and e_.exp.is_Float and e_.exp == int(e_.exp), lambda e_: sp.Pow(e_.base, int(e_.exp)))
                v_ = v_.xreplace({a_: Symbol('j', integer=True) for a_ in applied(v_) if a_.func.__name__ == Q + 'Locate'})
                return sp.Poly(sp.expand(v_), xs_).degree()
            except Exception:
                return -1
        ds = sorted(((deg(o), n_) for n_, o in enumerate(main)), reverse=True)
        if ds[0][0] > ds[1][0]:
            main = [main[ds[0][1]]]
    if len(main) != 1:
        raise Undecided('Interpolate has %d return paths through Locate()' % len(main))
    EXTRA_PATHS[:] = [o for o in outs if o is not main[0]]
    T = main[0].value
    x = sx.symbol(f.params[0]['name'], 'double')
    loc = [a for a in applied(T) if a.func.__name__ == Q + 'Locate']
    if len(loc) != 1:
        raise Undecided('Interpolate: expected exactly one Locate(...) term, found %d' % len(loc))
    J = loc[0]
    j = Symbol('j', integer=True)
    Tj = T.subs(J, j)
    t = Symbol('t', real=True)
    roles = None
    for cand in applied(Tj):
        if cand.args != (j,):
            continue
        P = sp.expand(Tj.subs(x, cand + t))
        if P.has(x):
            continue
        try:
            poly = sp.Poly(P, t)
        except sp.PolynomialError:
            continue
        if poly.degree() != 3:
            continue
        coeffs = [poly.coeff_monomial(t ** k) for k in range(4)]
        names, prefs = [], []
        ok = True
        for c in coeffs:
            fs = [a for a in applied(c)]
            if len(fs) != 1 or fs[0].args != (j,):
                ok = False
                break
            rest = sp.cancel(c / fs[0])
            if rest.has(fs[0]) or applied(rest):
                ok = False
                break
            names.append(fs[0].func)
            prefs.append(rest)
        if not ok:
            continue
        if any(not is_zero(p - prefs[0]) for p in prefs):
            continue
        roles = {'X': cand.func, 'F': names, 'pref': prefs[0], 'J': J, 'T': Tj, 'x': x, 'j': j, 'fn': f,
                 'Jargs': J.args}
        break
    return f, T, roles


def check(prog, ctx):
    ctx.rule('C01.a', 'Hermite conditions: with the coefficient fields F0..F3 named by the evaluator '
             'pref*sum_k Fk[j](x-X[j])^k, the values stored by the coefficient routine satisfy F0=Y(i), F1=DY(i), '
             'sum Fk h^k = Y(i+1), sum k Fk h^(k-1) = DY(i+1) identically (h=X(i+1)-X(i))', 5)
    ctx.rule('C01.b', 'Limiter: the slope stored in each position case is (sgn A + sgn B)*T with T a min/max lattice over '
             'c|E| leaves; {A,B} are the adjacent secant slopes (interior) resp. {p, edge secant} (ends); the least u with '
             'T<=u|s| satisfies 2u<=3 for every adjacent secant s (Fritsch-Carlson box) and T is a minimum containing |p|/2', 3)
    ctx.rule('C01.c', 'Parabola slope: with s(k)=alpha(X(k)+X(k+1))+beta substituted, p equals 2 alpha X(i)+beta in all three cases', 3)
    ctx.rule('C01.d', 'Derivative(x,n), n=1..3 equals d^n/dx^n of the Interpolate term for the same segment; n=0 delegates; else 0', 5)
    ctx.rule('C01.e', 'All subscripts in Interpolate/Derivative use the single index Locate(x) of the same x', 2)
    ctx.rule('C01.f', 'Interpolation_2D::Interpolate equals pref*[(1-t)(1-u)G(i,j)+t(1-u)G(i+1,j)+tuG(i+1,j+1)+(1-t)uG(i,j+1)]', 1)
    ctx.rule('C01.g', 'Constructor: abscissae/ordinates are scaled by x_dim/f_dim before domain and coefficients are computed; '
             'fields are initialised from the matching parameters', 3)

    f_eval, T, roles = evaluator_roles(prog, ctx)
    if roles is None:
        ctx.undecided('C01.a', 'Interpolate:evaluator-form', f_eval,
                      'returned term is not pref*sum_{k<=3} Fk[j]*(x-X[j])^k: ' + str(T)[:300])
        return
    Xf, F, pref, j, x = roles['X'], roles['F'], roles['pref'], roles['j'], roles['x']
    ctx.holds('C01.a', 'Interpolate:evaluator-form', f_eval,
              'evaluator is %s*sum_k Fk[j]*(x-%s[j])^k with F0..F3 = %s' % (pref, Xf, [str(n) for n in F]),
              form=str(roles['T']))
    # shortcuts: a returning path that does not evaluate the segment polynomial is only admissible at an exactly tested point
    probs = []
    for o in EXTRA_PATHS:
        ats = list(o.cond.args) if isinstance(o.cond, sp.And) else [o.cond]
        if not any(isinstance(a_, sp.Equality) and a_.has(x) for a_ in ats):
            probs.append('under [%s] Interpolate returns %s instead of the segment polynomial: the curve, its derivative and the '
                         'reproduction of straight-line data are lost on that whole range of x' % (o.cond, str(o.value)[:80]))
    ctx.decide('C01.a', 'Interpolate:every-path', f_eval, not probs, 'every returning path evaluates the segment polynomial (%d exact-point shortcuts)' % len(EXTRA_PATHS),
               '; '.join(probs), witness={'reproducer': 'linear data y=2x+1: evaluate just beyond the last abscissa'} if probs else None)
    # C01.e for Interpolate
    bad = [a for a in applied(roles['T']) if a.args != (j,)]
    okJ = len(roles['Jargs']) == 2 and roles['Jargs'][1] == x
    ctx.decide('C01.e', 'Interpolate:index', f_eval, not bad and okJ,
               'every subscript is j=Locate(x)', 'subscripts not equal to Locate(x): %s; Locate args %s' % (bad, roles['Jargs']))

    # ---- coefficient routine: the member function that writes F0..F3
    fnames = [n.__name__ for n in F]     # 'this.d' ...
    writer = None
    for fn in prog.all_functions():
        if fn.cls != 'libphysica::Interpolation' or fn.d.get('ctor'):
            continue
        for c in calls(fn):
            if c.get('kind') == 'method' and (c.get('callee') or {}).get('name') == 'push_back':
                o = strip(c['obj'])
                if o['k'] == 'Member' and 'this.' + o['name'] in fnames:
                    writer = fn
        for e in walk_assign_targets(fn):
            if e['k'] == 'Member' and 'this.' + e['name'] in fnames:
                writer = fn
    if writer is None:
        raise AnalysisBroken('no member function of Interpolation writes the coefficient fields %s' % fnames)
    ctx.touch(writer)
    # role discovery run (nothing opaque)
    sx0 = Symx(prog, writer)
    outs0 = [o for o in sx0.run() if o.kind != 'exit']
    if len(outs0) != 1:
        raise Undecided('%s has %d non-exit paths' % (writer.name, len(outs0)))
    env0 = outs0[0].state.env
    k = Symbol('k', integer=True)
    Xa = lambda m: Xf(m)
    # ordinate array: the array read by F0
    arrF0 = env0.get(fnames[0])
    if not isinstance(arrF0, Arr):
        raise Undecided('coefficient field %s is not summarised as an array' % fnames[0])
    t0 = arrF0.read((k,))
    if not (isinstance(t0, sp.core.function.AppliedUndef) and t0.args == (k,)):
        ctx.violated('C01.a', 'coefficients:F0', writer, 'F0[i] is not the tabulated ordinate Y(i): %s' % t0, form=str(t0))
        return
    Yf = t0.func
    ctx.holds('C01.a', 'coefficients:F0', writer, 'F0[i] = %s(i)' % Yf, form=str(t0))
    h_of = lambda m: Xf(m + 1) - Xf(m)
    s_of = lambda m: (Yf(m + 1) - Yf(m)) / h_of(m)
    # find local arrays playing h, s and the slope array
    names = {}
    for key, v in env0.items():
        if isinstance(v, Arr) and not str(v.name).startswith('this.'):
            try:
                tv = v.read((k,))
            except Exception:
                continue
            if tv.has(sp.Piecewise):
                continue
            if is_zero(tv - h_of(k)):
                names['h'] = v.name
            elif is_zero(tv - s_of(k)):
                names['s'] = v.name
    # slope array: the array whose element is stored into F1
    slope = None
    for c in calls(writer):
        if c.get('kind') == 'method' and (c.get('callee') or {}).get('name') == 'push_back':
            o = strip(c['obj'])
            if o['k'] == 'Member' and 'this.' + o['name'] == fnames[1]:
                a = strip_casts(c['args'][0])
                if a['k'] == 'Index' and strip(a['base'])['k'] == 'Ref':
                    slope = strip(a['base'])['name']
    if slope is None:
        for e in all_assignments(writer):
            l = strip(e['lhs'])
            if l['k'] == 'Index' and strip(l['base'])['k'] == 'Member' and 'this.' + strip(l['base'])['name'] == fnames[1]:
                a = strip_casts(e['rhs'])
                if a['k'] == 'Index' and strip(a['base'])['k'] == 'Ref':
                    slope = strip(a['base'])['name']
    if slope is None or 's' not in names:
        raise Undecided('could not identify the slope array / secant array by role (slope=%s, found=%s)' % (slope, names))

    # ---- C01.a: Hermite conditions with the slope array opaque
    sx1 = Symx(prog, writer, opaque_arrays={slope})
    env1 = [o for o in sx1.run() if o.kind != 'exit'][0].state.env
    DY = Function(slope, real=True)
    Fk = []
    for n in fnames:
        a = env1.get(n)
        if not isinstance(a, Arr):
            raise Undecided('coefficient field %s not summarised' % n)
        tv = a.read((k,))
        if tv.has(sp.Piecewise):
            raise Undecided('coefficient %s is case-dependent: %s' % (n, str(tv)[:200]))
        Fk.append(tv)
    h = h_of(k)
    obl = [
        ('F1', Fk[1] - DY(k), 'F1[i] = DY(i)'),
        ('value-at-right-knot', Fk[0] + Fk[1] * h + Fk[2] * h ** 2 + Fk[3] * h ** 3 - Yf(k + 1), 'sum Fk h^k = Y(i+1)'),
        ('slope-at-right-knot', Fk[1] + 2 * Fk[2] * h + 3 * Fk[3] * h ** 2 - DY(k + 1), 'sum k Fk h^(k-1) = DY(i+1)'),
    ]
    for inst, resid, text in obl:
        z = is_zero(resid)
        ctx.decide('C01.a', 'coefficients:' + inst, writer, z, text + ' holds identically',
                   text + ' FAILS', witness={'residual': str(sp.factor(sp.together(sp.expand(resid))))[:400]},
                   form=str(sp.simplify(resid)) if not z else text)
    # the coefficient arrays have N-1 entries (one per segment)
    # ---- C01.b / C01.c: limiter and parabola slope, secants and spacings opaque
    opq = {names['s']} | ({names['h']} if 'h' in names else set())
    sx2 = Symx(prog, writer, opaque_arrays=opq)
    env2 = [o for o in sx2.run() if o.kind != 'exit'][0].state.env
    sl = None
    for key, v in env2.items():
        if isinstance(v, Arr) and v.name == slope:
            sl = v
    if sl is None:
        raise Undecided('slope array not found in summary')
    Sf = Function(names['s'], real=True)
    Hf = Function(names.get('h', 'h?'), real=True)
    Nsym = [s_ for s_ in sl.length.free_symbols] if sl.length is not None else []
    if len(Nsym) != 1:
        raise Undecided('slope array length is not a single symbol expression: %s' % sl.length)
    Nsym = Nsym[0]
    Nval = 10
    cases = {'first': 0, 'interior': 5, 'last': Nval - 1}
    alpha, beta = sp.symbols('alpha beta', real=True)

    def to_parabola(t):
        t = t.replace(Sf, lambda m: alpha * (Xf(m) + Xf(m + 1)) + beta)
        t = t.replace(Hf, lambda m: Xf(m + 1) - Xf(m))
        return t

    for cname, kval in cases.items():
        term = None
        pieces = []
        for kvs, guard, tv in reversed(sl.defs):
            g = guard.subs({kvs[0]: kval, Nsym: Nval}) if guard is not S.true else S.true
            if g == S.true:
                term = tv.subs(kvs[0], k)
                break
            if g != S.false and isinstance(g, sp.Basic):
                # the definition applies at this position under a condition on the data: back to the symbolic index
                gk = g.replace(lambda e_: isinstance(e_, sp.core.function.AppliedUndef) and len(e_.args) == 1 and e_.args[0].is_Integer,
                               lambda e_: e_.func(k + (e_.args[0] - kval)))
                pieces.append((tv.subs(kvs[0], k), gk))
        if term is None:
            raise Undecided('no slope definition covers the %s position' % cname)
        if pieces:
            term = sp.Piecewise(*(pieces + [(term, True)]))
        if cname == 'interior':
            adj = {'left': Sf(k - 1), 'right': Sf(k)}
        elif cname == 'first':
            adj = {'edge': Sf(k)}
        else:
            adj = {'edge': Sf(k - 1)}
        inst = 'slope:' + cname
        if term.has(sp.Piecewise):
            # the slope is chosen by a test on the data (a shortcut next to the limiter): every alternative must respect the
            # limiter's guarantees; decided on a table of secant slopes and spacings that contains zeros, both signs, equal,
            # tiny (1e-20) and huge (1e6) magnitudes
            pw = piecewise_slope(term, adj, cname, Sf, Hf, k, env2, kval, Nsym, Nval)
            if pw.get('undecided'):
                ctx.undecided('C01.b', inst, writer, pw['undecided'])
            else:
                ctx.decide('C01.b', inst, writer, not pw['bad'], 'every alternative of the slope keeps it inside the monotonicity box of the adjacent secants '
                           '(zero at a sign change, same sign and at most 3 min|s| otherwise) on %d sample configurations' % pw['n'],
                           'an alternative of the slope leaves the limiter\'s box: with secants %s and spacings %s the slope is %s' %
                           ((pw['bad'][0]['s'], pw['bad'][0]['h'], pw['bad'][0]['slope']) if pw['bad'] else ('', '', '')),
                           witness={'cases': pw['bad'][:3]} if pw['bad'] else None, form=str(term)[:300])
            continue
        res = analyse_limiter(term, adj, cname)
        if res.get('undecided'):
            ctx.undecided('C01.b', inst, writer, res['undecided'])
            continue
        ctx.decide('C01.b', inst, writer, not res['problems'],
                   'slope = (sgn A+sgn B)*T, T=%s; bounds %s' % (res['T'], res['bounds']),
                   '; '.join(res['problems']), witness=res.get('witness'), form=str(term))
        # C01.c: the p-expression
        pexpr = res.get('p')
        if pexpr is None:
            ctx.undecided('C01.c', 'parabola:' + cname, writer, 'no parabola-slope leaf found in the limiter')
            continue
        # p may be an opaque p(k) if the routine stores it in an array: resolve through env2
        pe = pexpr
        for key, v in env2.items():
            if isinstance(v, Arr) and not v.opaque:
                fnm = Function(v.name, real=True)
                if pe.has(fnm):
                    pe = pe.replace(fnm, lambda m, v=v: resolve_case(v, m, kval, Nsym, Nval, k))
        resid = to_parabola(pe) - (2 * alpha * Xf(k) + beta)
        z = is_zero(resid)
        ctx.decide('C01.c', 'parabola:' + cname, writer, z,
                   'p equals the slope at X(i) of the parabola through the three nearest points',
                   'p is not the parabola slope at X(i)', witness={'residual': str(sp.factor(sp.together(sp.expand(resid))))[:400]},
                   form=str(pe))

    ctx.sub('check_derivative', check_derivative, prog, ctx, roles)
    # dependency: knot reproduction and continuity need the segment search to return the segment that contains x
    from . import C09
    ctx.rule('C01.h', 'dependency on the segment search: the index searches behind Locate agree on the segment of a knot and clamp to the '
             'table ends (rules C09.b/C09.c evaluated here because a wrong segment breaks knot reproduction)', 5)
    loc, closure = C09.locate_and_helpers(prog)
    C09.search_rules(prog, ctx, loc, closure, 'C01.h', 'C01.h')
    ctx.sub('keyed_early_returns', C09.keyed_early_returns, prog, ctx, 'C01.h')   # an argument-keyed shortcut in Locate answers from a placeholder (C09.g)
    ctx.sub('check_bilinear', check_bilinear, prog, ctx)
    ctx.sub('check_ctor', check_ctor, prog, ctx, roles, Yf, writer)


def piecewise_slope(term, adj, cname, Sf, Hf, k, env2, kval, Nsym, Nval):
    import itertools
    AU = sp.core.function.AppliedUndef
    t = term
    for _ in range(3):
        for key, v in env2.items():
            if isinstance(v, Arr) and not v.opaque:
                fnm = Function(v.name, real=True)
                if t.has(fnm):
                    t = t.replace(fnm, lambda m, v=v: resolve_case(v, m, kval, Nsym, Nval, k))
    vals = [0.0, 1e-20, -1e-20, 1.0, -1.0, 2.5, -0.4, 1e6, -1e6]
    hs = [(1.0, 1.0), (1.0, 3.0), (0.01, 5.0)]
    eps = {x_: sp.Float(2.220446049250313e-16) for x_ in t.atoms(AU) | t.free_symbols if 'epsilon' in str(x_)}
    tiny = {x_: sp.Float(2.2250738585072014e-308) for x_ in t.atoms(AU) | t.free_symbols if 'numeric_limits<double>::min' in str(x_)}
    bad, n = [], 0
    for (sl, sr), (hl, hr) in itertools.product(itertools.product(vals, vals), hs):
        sub = dict(eps)
        sub.update(tiny)
        sub.update({Sf(k - 1): sp.Float(sl), Sf(k): sp.Float(sr), Hf(k - 1): sp.Float(hl), Hf(k): sp.Float(hr),
                    Sf(k + 1): sp.Float(sr), Hf(k + 1): sp.Float(hr)})
        if cname == 'first':
            sub.update({Sf(k): sp.Float(sl), Sf(k + 1): sp.Float(sr), Hf(k): sp.Float(hl), Hf(k + 1): sp.Float(hr)})
        if cname == 'last':
            sub.update({Sf(k - 2): sp.Float(sl), Sf(k - 1): sp.Float(sr), Hf(k - 2): sp.Float(hl), Hf(k - 1): sp.Float(hr)})
        try:
            v = sp.N(t.xreplace(sub))
            v = float(v)
        except (TypeError, ValueError):
            return {'undecided': 'slope alternative does not evaluate on the sample table: %s' % str(t.xreplace(sub))[:160]}
        n += 1
        if cname == 'interior':
            a_, b_ = sl, sr
            lim = 3 * min(abs(a_), abs(b_))
            ok = (v == 0.0) if a_ * b_ <= 0 else (v * a_ >= 0 and abs(v) <= lim * (1 + 1e-12))
        else:
            e_ = sl if cname == 'first' else sr
            ok = v * e_ >= 0 and abs(v) <= 3 * abs(e_) * (1 + 1e-12)
        if not ok:
            bad.append({'s': [sl, sr], 'h': [hl, hr], 'slope': v})
    return {'bad': bad, 'n': n}


def resolve_case(arr, m, kval, Nsym, Nval, k):
    """Read arr at index m where position case is decided at the concrete k=kval."""
    shift = sp.simplify(m - k)
    for kvs, guard, tv in reversed(arr.defs):
        g = guard.subs({kvs[0]: kval + shift, Nsym: Nval}) if guard is not S.true else S.true
        if g == S.true:
            return tv.subs(kvs[0], m)
    return Function(arr.name, real=True)(m)


def walk_assign_targets(fn):
    for e in all_assignments(fn):
        l = strip(e['lhs'])
        while l['k'] == 'Index':
            l = strip(l['base'])
        yield l


def all_assignments(fn):
    for s in walk_stmts(fn.body):
        for e in stmt_exprs(s):
            for n in walk_expr(e):
                if n['k'] == 'Bin' and n['op'] in ('=', '+=', '-=', '*=', '/='):
                    yield n


INF = sp.oo


def analyse_limiter(term, adj, cname):
    """term == (sign(A)+sign(B)) * T ?  returns dict(T, bounds, problems, p)."""
    term = sp.factor_terms(term)
    facs = sp.Mul.make_args(term)
    signsum = None
    rest = []
    for fct in facs:
        if isinstance(fct, sp.Add) and all(isinstance(a, sp.sign) for a in fct.args) and len(fct.args) == 2:
            signsum = fct
        else:
            rest.append(fct)
    if signsum is None:
        return {'undecided': 'slope is not of the form (sgn A + sgn B)*T: %s' % str(term)[:200]}
    Tm = sp.Mul(*rest)
    A, B = [a.args[0] for a in signsum.args]
    problems = []
    # leaves
    leaves = []

    def ub(t, sigma):
        if isinstance(t, sp.Min):
            return min(ub(a, sigma) for a in t.args)
        if isinstance(t, sp.Max):
            return max(ub(a, sigma) for a in t.args)
        c, r = t.as_coeff_Mul()
        if isinstance(r, sp.Abs):
            E = r.args[0]
            leaves.append((c, E))
            if is_zero(E - sigma) or is_zero(E + sigma):
                return c if c >= 0 else INF
            return INF
        raise Undecided('limiter leaf is not c*|E|: %s' % t)

    try:
        bounds = {name: ub(Tm, sg) for name, sg in adj.items()}
    except Undecided as e:
        return {'undecided': str(e)}
    # the p-leaf: the leaf whose E is not an adjacent secant
    pl = []
    seen = []
    for c, E in leaves:
        if any(is_zero(E - sg) or is_zero(E + sg) for sg in adj.values()):
            continue
        if not any(is_zero(E - e2) for e2 in seen):
            seen.append(E)
            pl.append((c, E))
    witness = {}
    for name, u in bounds.items():
        if u == INF:
            problems.append('T is not bounded by any multiple of the %s secant slope (|slope| can exceed 3|s|: overshoot)' % name)
            witness[name] = 'unbounded: make |%s| small and the other leaves large' % adj[name]
        elif 2 * u > 3:
            problems.append('2*u=%s > 3 for the %s secant (outside the Fritsch-Carlson monotonicity box)' % (2 * u, name))
            witness[name] = str(u)
    p = None
    if len(pl) != 1:
        problems.append('expected exactly one parabola-slope leaf, found %d' % len(pl))
    else:
        cp, p = pl[0]
        if not isinstance(Tm, sp.Min):
            problems.append('T is not a minimum')
        else:
            top = [a.as_coeff_Mul() for a in Tm.args]
            if not any(isinstance(r, sp.Abs) and is_zero(r.args[0] - p) and c == sp.Rational(1, 2) for c, r in top):
                problems.append('T does not contain |p|/2 at top level (coefficient of |p| is %s): a limiter that is inactive no longer yields DY=p' % cp)
    # sign arguments
    if cname == 'interior':
        want = list(adj.values())
        ok = (is_zero(A - want[0]) and is_zero(B - want[1])) or (is_zero(A - want[1]) and is_zero(B - want[0]))
        if not ok:
            problems.append('sign arguments are {%s, %s}, expected the two adjacent secant slopes' % (A, B))
    else:
        e = adj['edge']
        if p is not None:
            ok = (is_zero(A - e) and is_zero(B - p)) or (is_zero(B - e) and is_zero(A - p))
            if not ok:
                problems.append('sign arguments are {%s, %s}, expected {p, edge secant}' % (A, B))
    return {'T': str(Tm), 'bounds': {k2: str(v) for k2, v in bounds.items()}, 'problems': problems, 'p': p,
            'witness': witness or None}


def check_derivative(prog, ctx, roles):
    f = prog.fn(Q + 'Derivative', 2)
    sx = Symx(prog, f)
    outs = sx.run()
    x = sx.symbol(f.params[0]['name'], 'double')
    n = sx.symbol(f.params[1]['name'], f.params[1]['ty'])
    j = roles['j']
    T = roles['T'].subs(roles['x'], x)
    seen = set()
    for o in outs:
        if o.kind != 'return':
            ctx.violated('C01.d', 'Derivative:exit', f, 'Derivative has a non-return path')
            continue
        cond = o.cond
        val = o.value
        # which n satisfy the path condition?
        ns = [m for m in range(0, 8) if cond.subs(n, m) == S.true]
        if not ns:
            ctx.undecided('C01.d', 'Derivative:path', f, 'path condition not decided by the order alone: %s' % cond)
            continue
        locs = [a for a in applied(val) if a.func.__name__ == Q + 'Locate']
        v = val
        for L in locs:
            if len(L.args) == 2 and L.args[1] == x:
                v = v.subs(L, j)
        for m in ns:
            seen.add(m)
        m = ns[0]
        inst = 'Derivative:order-%s' % ('%d' % m if len(ns) == 1 else '>=%d' % m)
        if m == 0:
            ok = isinstance(v, sp.core.function.AppliedUndef) and v.func.__name__ == Q + 'Interpolate' and v.args[-1] == x
            ctx.decide('C01.d', inst, f, ok, 'order 0 delegates to Interpolate(x)', 'order 0 returns %s' % v, form=str(v))
        elif len(ns) == 1:
            want = sp.diff(T, x, m)
            z = is_zero(v - want)
            ctx.decide('C01.d', inst, f, z, 'equals d^%d/dx^%d of the evaluator term' % (m, m),
                       'differs from d^%d/dx^%d of the evaluator term' % (m, m),
                       witness={'returned': str(v), 'expected': str(sp.expand(want))}, form=str(v))
            bad = [a for a in applied(v) if a.args != (j,)]
            if bad:
                ctx.violated('C01.e', inst + ':index', f, 'subscripts not equal to Locate(x): %s' % bad)
        else:
            z = all(is_zero(v - sp.diff(T, x, mm)) for mm in ns)
            ctx.decide('C01.d', inst, f, z, 'orders %s return the (vanishing) derivative' % ns,
                       'orders %s return %s' % (ns, v), form=str(v))
    ctx.decide('C01.e', 'Derivative:index', f, True, 'subscripts checked per order')
    missing = [m for m in range(0, 8) if m not in seen]
    if missing:
        ctx.violated('C01.d', 'Derivative:coverage', f, 'orders %s have no return path' % missing)


def check_bilinear(prog, ctx):
    f = prog.fn(Q2 + 'Interpolate', 2)
    sx = Symx(prog, f)
    outs = [o for o in sx.run() if o.kind == 'return']
    if len(outs) != 1:
        raise Undecided('Interpolation_2D::Interpolate has %d return paths' % len(outs))
    T = outs[0].value
    x = sx.symbol(f.params[0]['name'], 'double')
    y = sx.symbol(f.params[1]['name'], 'double')
    locs = [a for a in applied(T) if a.func.__name__ == Q + 'Locate']
    I = [a for a in locs if a.args[-1] == x]
    J = [a for a in locs if a.args[-1] == y]
    if len(I) != 1 or len(J) != 1 or len(locs) != 2:
        ctx.violated('C01.f', 'Interpolate2D:indices', f, 'expected one Locate(x) and one Locate(y), found %s' % locs)
        return
    i, j = sp.symbols('i j', integer=True)
    Tij = T.subs({I[0]: i, J[0]: j})
    # roles come from the constructor: the helper object used with x was built from the x-abscissae, etc.
    ctor = prog.fn(Q2 + 'Interpolation_2D', 6)
    built = {}
    for e in all_assignments(ctor):
        l = strip(e['lhs'])
        if l['k'] == 'Member':
            r = strip(e['rhs'])
            if r['k'] == 'Construct' and r['args']:
                a0 = strip(r['args'][0])
                if a0['k'] == 'Member':
                    built['this.' + l['name']] = 'this.' + a0['name']
    hx = str(I[0].args[0]).replace('obj:', '')
    hy = str(J[0].args[0]).replace('obj:', '')
    if hx not in built or hy not in built or hx == hy:
        ctx.violated('C01.f', 'Interpolate2D:indices', f, 'index helpers %s/%s are not distinct objects built from abscissa fields (%s)' % (hx, hy, built))
        return
    Xf, Yf = Function(built[hx], real=True), Function(built[hy], real=True)
    G = [a for a in applied(Tij) if len(a.args) == 2]
    if not G or len(set(a.func for a in G)) != 1:
        if flat_grid(prog, ctx, f, ctor, Tij, i, j, Xf, Yf):
            return
        ctx.undecided('C01.f', 'Interpolate2D:form', f, 'cannot identify the grid array in %s' % str(Tij)[:300])
        return
    Gf = G[0].func
    problems = []
    P = sp.together(Tij)
    try:
        px = sp.Poly(sp.expand(sp.numer(P)), x, y)
        den = sp.denom(P)
        if den.has(x) or den.has(y) or any(mx > 1 or my > 1 for (mx, my) in px.monoms()):
            problems.append('not of degree <= 1 in x and in y')
    except sp.PolynomialError:
        problems.append('not polynomial in x, y')
    corners = {'(i,j)': (Xf(i), Yf(j), Gf(i, j)), '(i+1,j)': (Xf(i + 1), Yf(j), Gf(i + 1, j)),
               '(i,j+1)': (Xf(i), Yf(j + 1), Gf(i, j + 1)), '(i+1,j+1)': (Xf(i + 1), Yf(j + 1), Gf(i + 1, j + 1))}
    ratios = []
    for name, (xv, yv, gv) in corners.items():
        val = sp.cancel(sp.together(Tij.subs({x: xv, y: yv})))
        ratio = sp.cancel(val / gv)
        if ratio == 0 or applied(ratio) or ratio.has(x) or ratio.has(y):
            problems.append('at grid node %s the value is %s, not a multiple of %s' % (name, str(val)[:120], gv))
        else:
            ratios.append(ratio)
    if not problems and any(not is_zero(r_ - ratios[0]) for r_ in ratios):
        problems.append('corner factors differ: %s' % ratios)
    ctx.decide('C01.f', 'Interpolate2D:form', f, not problems,
               'bilinear in (x,y) and equal to %s*G at the four corners of cell (i,j): the bilinear interpolant' % (ratios[0] if ratios else '?'),
               'not the bilinear interpolant of the cell: ' + '; '.join(problems), witness={'problems': problems}, form=str(Tij))
    ctx.decide('C01.g', 'Interpolation_2D:helpers', ctor, True,
               'index helpers are built from the abscissa arrays they index: %s' % built)


def flat_grid(prog, ctx, f, ctor, Tij, i, j, Xf, Yf):
    """The cell corners are read from a one-dimensional member at i*S + j (+S, +1): a flat copy of the grid.  The constructor appends the
    rows of the table, each as long as the second abscissa list, so the stride S must be the member initialised with the size of the list
    that also initialises the array indexed by j.  A stride taken from the other list is decided (violated: the layouts agree only on
    square grids); anything else about a second storage is left undecided.  Returns True when it reported."""
    F1 = [a for a in applied(Tij) if len(a.args) == 1 and a.func not in (Xf, Yf) and a.args[0].has(i) and a.args[0].has(j)]
    if not F1 or len(set(a.func for a in F1)) != 1:
        return False
    fld = F1[0].func.__name__.replace('this.', '')
    strides = set()
    for a in F1:
        try:
            pl = sp.Poly(sp.expand(a.args[0]), i, j)
        except sp.PolynomialError:
            return False
        if pl.total_degree() != 1 or pl.coeff_monomial(j) != 1:
            return False
        strides.add(pl.coeff_monomial(i))
    if len(strides) != 1:
        return False
    S = strides.pop()
    if not isinstance(S, sp.Symbol) or not str(S).startswith('this.'):
        return False
    init = {m['field']: strip_casts(m['init']) for m in ctor.inits if m.get('field') and m.get('init') is not None}

    def size_param(e):
        e = strip_casts(e or {})
        while e.get('k') in ('Cast', 'Construct') and (e.get('e') or e.get('args')):
            e = strip_casts(e['e']) if e.get('k') == 'Cast' else strip_casts(e['args'][0])
        if e.get('k') == 'Call' and e.get('kind') == 'method' and (e.get('callee') or {}).get('name') == 'size':
            o = strip_casts(e['obj'])
            if o.get('k') == 'Ref' and o.get('rk') == 'param':
                return o['name']
        return None

    def ref_param(e):
        e = strip_casts(e or {})
        while e.get('k') in ('Construct', 'Copy') and (e.get('args') or e.get('e')):
            e = strip_casts(e['args'][0]) if e.get('k') == 'Construct' else strip_casts(e['e'])
        return e['name'] if e.get('k') == 'Ref' and e.get('rk') == 'param' else None
    sp_ = size_param(init.get(str(S).replace('this.', '')))
    yp = ref_param(init.get(Yf.__name__.replace('this.', '')))
    xp = ref_param(init.get(Xf.__name__.replace('this.', '')))
    # the writer: rows appended one after the other inside a loop of the constructor
    appended = False
    for e_ in all_exprs(ctor):
        if e_.get('k') == 'Call' and e_.get('kind') == 'method' and (e_.get('callee') or {}).get('name') in ('insert', 'push_back') \
                and strip_casts(e_.get('obj') or {}).get('k') == 'Member' and strip_casts(e_['obj']).get('name') == fld:
            appended = True
    if sp_ is None or yp is None or xp is None or not appended:
        return False
    if sp_ == xp and sp_ != yp:
        ctx.violated('C01.f', 'Interpolate2D:form', f, 'the cell corners are read from the flat copy `%s` at i*%s + j, but the constructor appends the rows of the table one after the other and a row '
                     'has as many entries as `%s` (the list behind %s, indexed by j), while %s is the size of `%s`: reader and writer agree only on square grids - on any other grid '
                     'the four values are not the corners of cell (i,j)' % (fld, S, yp, Yf.__name__, S, xp),
                     witness={'grid': '3 x 7: node (1,0) is read at offset 3 but stored at offset 7', 'stride': str(S), 'row_length': 'size of ' + yp}, form=str(Tij)[:300])
        return True
    return False


def check_ctor(prog, ctx, roles, Yf, writer):
    ctor = prog.fn(Q + 'Interpolation', 4)
    ps = [p['name'] for p in ctor.params]
    Xname = roles['X'].__name__.replace('this.', '')
    Yname = Yf.__name__.replace('this.', '')
    init = {i['field']: strip(i['init']) for i in ctor.inits if i.get('field')}
    okx = init.get(Xname, {}).get('k') == 'Ref' and init[Xname]['name'] == ps[0]
    oky = init.get(Yname, {}).get('k') == 'Ref' and init[Yname]['name'] == ps[1]
    ctx.decide('C01.g', 'Interpolation:field-init', ctor, okx and oky,
               'abscissae <- 1st parameter, ordinates <- 2nd parameter',
               'field initialisers do not match the parameter roles: %s=%s %s=%s' % (Xname, show(init.get(Xname)), Yname, show(init.get(Yname))))
    # statement order: scaling loops precede domain assignment and coefficient computation
    body = ctor.body['body']
    pos = {}
    for idx, s in enumerate(body):
        for s2 in walk_stmts(s):
            for e in stmt_exprs(s2):
                for n in walk_expr(e):
                    if n['k'] == 'Bin' and n['op'] == '*=':
                        l = strip(n['lhs'])
                        if l['k'] == 'Index' and strip(l['base'])['k'] == 'Member':
                            r = strip_casts(n['rhs'])
                            pos.setdefault(('scale', strip(l['base'])['name'], r.get('name')), idx)
                    if n['k'] == 'Bin' and n['op'] == '=' and strip(n['lhs'])['k'] == 'Member' and strip(n['lhs'])['name'] == 'domain':
                        pos['domain'] = idx
                    if n['k'] == 'Call' and (n.get('callee') or {}).get('q') == writer.q:
                        pos['coeff'] = idx
    sx_ = pos.get(('scale', Xname, ps[2]))
    sy_ = pos.get(('scale', Yname, ps[3]))
    ok = sx_ is not None and sy_ is not None and 'domain' in pos and 'coeff' in pos and \
        max(sx_, sy_) < min(pos['domain'], pos['coeff'])
    ctx.decide('C01.g', 'Interpolation:unit-order', ctor, ok,
               'abscissae*=x_dim and ordinates*=f_dim precede domain and coefficient computation',
               'unit scaling / domain / coefficient order is wrong or missing: %s' % {str(k2): v for k2, v in pos.items()})

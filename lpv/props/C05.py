"""C05 - Inverse and Determinant are correct for every square matrix (structural clauses)."""
import sympy as sp
from sympy import Symbol, Function, S
from ..ir import (AnalysisBroken, Undecided, show, strip, strip_casts, walk_stmts, stmt_exprs, walk_expr, calls,
                  all_exprs, stmt_children, exchanges)
from ..symx import Symx, State, Arr, is_zero
from .. import guards as G

L = 'libphysica::'
M = L + 'Matrix::'


def diag_index(e, var=None):
    """e == W[v][v] -> (W name, v name)"""
    e = strip_casts(e)
    if e.get('k') != 'Index':
        return None
    inner = strip_casts(e['base'])
    if inner.get('k') != 'Index':
        return None
    i0, i1 = strip_casts(inner['idx']), strip_casts(e['idx'])
    w = strip(inner['base'])
    if i0.get('k') == 'Ref' and i1.get('k') == 'Ref' and i0['id'] == i1['id'] and w.get('k') == 'Ref':
        return w['name'], i0['name'], i0['id']
    return None


def elem_index(e):
    """e == W[p][q] -> (W, show(p), show(q))"""
    e = strip_casts(e)
    if e.get('k') != 'Index':
        return None
    inner = strip_casts(e['base'])
    if inner.get('k') != 'Index':
        return None
    w = strip(inner['base'])
    if w.get('k') != 'Ref':
        return None
    return w['name'], show(strip_casts(inner['idx'])), show(strip_casts(e['idx']))


def loop_var(s):
    if s['k'] != 'For' or not s.get('init') or s['init']['k'] != 'Decl' or len(s['init']['decls']) != 1:
        return None
    return s['init']['decls'][0]


def enclosing(body, pred):
    """[(node, [enclosing statements outermost first])] for expression nodes satisfying pred."""
    res = []

    def rec(s, stack):
        for e in stmt_exprs(s):
            for n in walk_expr(e):
                if pred(n):
                    res.append((n, stack + [s]))
        for c in stmt_children(s):
            rec(c, stack + [s])
    rec(body, [])
    return res


def stmt_stack(body, target):
    """Statements enclosing statement `target` under `body`, outermost first (target included)."""
    def rec(s, stack):
        if s is target:
            return stack + [s]
        for c in stmt_children(s):
            r = rec(c, stack + [s])
            if r:
                return r
        return None
    return rec(body, []) or []


def check(prog, ctx):
    ctx.rule('C05.a', 'pivot selection precedes every elimination division: in the elimination sweep over column i the ratio W[j][i]/W[i][i] '
             'is computed only after a scan over the rows k>=i of column i that selects by magnitude and an exchange of whole rows of the work array', 1)
    ctx.rule('C05.b', 'Laplace expansion: cofactor of column j uses Sub_Matrix(0,j), sign + for even j and - for odd j, 1x1 and 2x2 closed forms, '
             'sum over all columns', 4)
    ctx.rule('C05.e', 'Determinant is a function of the current entries: it keeps no state in the object, or every member function that can change what it '
             'reads (writes the entries or the shape, assigns the object, or hands out a mutable reference into the entries) resets that state', 1)
    ctx.rule('C05.c', 'gates: Invertible <=> Square and Determinant()!=0; Inverse exits iff not square or not invertible; any other exit is a '
             'zero pivot after pivot selection', 3)
    ctx.rule('C05.d', 'augmentation [M | I], final row scaling by the diagonal, extraction of columns N..2N-1', 3)
    inv = prog.fn(M + 'Inverse')
    # ---- C05.a
    # a divisor may be the diagonal element itself or a local that was initialised with it and never reassigned
    # (the value is then read where the local is declared)
    loc_def = {}
    for s_ in walk_stmts(inv.body):
        if s_['k'] == 'Decl':
            for d_ in s_['decls']:
                if d_.get('init') is not None and diag_index(d_['init']) is not None:
                    loc_def[d_['id']] = (d_, s_)
    reassigned = set(strip(e_['lhs']).get('id') for e_ in all_exprs(inv) if e_.get('k') == 'Bin' and e_['op'] in ('=', '+=', '-=', '*=', '/=')
                     and strip(e_['lhs']).get('k') == 'Ref')
    loc_def = {k_: v_ for k_, v_ in loc_def.items() if k_ not in reassigned}

    def diag_of(e_):
        d0 = diag_index(e_)
        if d0 is not None:
            return d0, None
        r_ = strip_casts(e_)
        if r_.get('k') == 'Ref' and r_.get('id') in loc_def:
            d_, s_ = loc_def[r_['id']]
            return diag_index(d_['init']), s_
        return None, None
    divs = enclosing(inv.body, lambda n: n.get('k') == 'Bin' and n['op'] == '/' and diag_of(n['rhs'])[0] is not None)
    elim = []
    scale = []
    read_at = {}
    for n, stack in divs:
        (w, v, vid), decl_stmt = diag_of(n['rhs'])
        if decl_stmt is not None:
            read_at[id(n)] = decl_stmt
        num = elem_index(n['lhs'])
        loops = [s for s in stack if s['k'] == 'For']
        outer = [s for s in loops if loop_var(s) and loop_var(s)['id'] == vid]
        if not outer:
            continue
        if num and num[0] == w and num[2] == v and num[1] != v:
            elim.append((n, outer[0], w, v, stack))
        else:
            scale.append((n, outer[0], w, v, stack))
    if not elim:
        raise AnalysisBroken('no elimination ratio W[j][i]/W[i][i] found in Matrix::Inverse')
    for n, outer, w, v, stack in elim:
        body = outer['body']['body'] if outer['body']['k'] == 'Compound' else [outer['body']]
        # index of the top-level body statement containing the division
        pos = None
        for idx, s in enumerate(body):
            if any(x is n for s2 in walk_stmts(s) for e in stmt_exprs(s2) for x in walk_expr(e)):
                pos = idx
        if id(n) in read_at:
            # the pivot value was read into a local: that declaration is where the division's operand is taken
            for idx, s in enumerate(body):
                if any(s2 is read_at[id(n)] for s2 in walk_stmts(s)):
                    pos = idx if pos is None else min(pos, idx)
        before = body[:pos] if pos is not None else []
        # (1) scan selecting by magnitude
        sel_var = None
        scan_ok = False
        scan_detail = 'no magnitude scan over the rows of column %s' % v
        for s in before:
            for lp in walk_stmts(s):
                if lp['k'] != 'For' or not loop_var(lp):
                    continue
                kv = loop_var(lp)
                for st in walk_stmts(lp['body']):
                    if st['k'] != 'If':
                        continue
                    c = strip(st['cond'])
                    if c.get('k') != 'Bin' or c['op'] not in ('>', '>=', '<', '<='):
                        continue
                    sides = []
                    for side in (c['lhs'], c['rhs']):
                        side = strip_casts(side)
                        if side.get('k') == 'Call' and (side.get('callee') or {}).get('name') in ('fabs', 'abs') and side.get('args'):
                            sides.append(elem_index(side['args'][0]))
                        else:
                            sides.append(None)
                    if None in sides:
                        continue
                    big, small = (sides[0], sides[1]) if c['op'] in ('>', '>=') else (sides[1], sides[0])
                    # candidate row is the scan variable, column is the outer variable
                    if big[0] == w and big[1] == kv['name'] and big[2] == v and small[0] == w and small[2] == v:
                        # the then-branch records the row
                        for a in walk_stmts(st['then']):
                            for e in stmt_exprs(a):
                                e = strip(e)
                                if e.get('k') == 'Bin' and e['op'] == '=' and show(strip_casts(e['rhs'])) == kv['name'] and \
                                        strip(e['lhs']).get('k') == 'Ref' and strip(e['lhs'])['name'] == small[1]:
                                    sel_var = small[1]
                        # range of the scan: from i or i+1 to the same upper bound as the sweep
                        lo = show(strip_casts(kv['init'])).replace(' ', '')
                        hi_scan = show(strip(lp['cond'])['rhs']) if strip(lp['cond']).get('k') == 'Bin' else '?'
                        hi_outer = show(strip(outer['cond'])['rhs']) if strip(outer['cond']).get('k') == 'Bin' else '??'
                        # the scan must run in every sweep: no condition between the sweep loop and the scan loop
                        guarded = [x for n_, stk in enclosing(outer['body'], lambda y: y is c) for x in stk if x['k'] == 'If' and x is not st
                                   and any(z is lp for z in walk_stmts(x))]
                        if guarded:
                            scan_detail = 'the pivot search only runs when %s: pivots that are small but above that threshold are used unexchanged' % show(guarded[0]['cond'])
                        elif sel_var and lo in (v, v + '+1') and hi_scan == hi_outer and strip(lp['cond'])['op'] == strip(outer['cond'])['op']:
                            scan_ok = True
                            scan_detail = 'rows %s..%s of column %s are scanned by magnitude into `%s`' % (lo, hi_scan, v, sel_var)
                        else:
                            scan_detail = 'scan range [%s,%s) does not cover the rows below the diagonal up to %s' % (lo, hi_scan, hi_outer)
        # (2) exchange of whole rows
        swap_ok = False
        for s in before:
            for a0, a1, e, xst in exchanges(s):
                if True:
                    if a0.get('k') == 'Index' and a1.get('k') == 'Index' and strip(a0['base']).get('name') == w and strip(a1['base']).get('name') == w:
                        ids = {show(strip_casts(a0['idx'])), show(strip_casts(a1['idx']))}
                        if sel_var and ids == {v, sel_var}:
                            # the exchange must happen whenever the selected row differs from the diagonal row
                            anchor = xst[0]
                            stk = [st_ for st_ in stmt_stack(s, anchor) if st_ is not anchor and st_['k'] in ('If', 'For', 'While', 'Do')]
                            conds_ok = True
                            for st_ in stk:
                                if st_['k'] != 'If':
                                    conds_ok = False
                                    continue
                                ct = show(st_['cond']).replace(' ', '')
                                in_then = any(s2 is anchor for s2 in walk_stmts(st_['then']))
                                if not (in_then and ct in ('%s!=%s' % (sel_var, v), '%s!=%s' % (v, sel_var))):
                                    conds_ok = False
                            swap_ok = conds_ok
        # the selected variable starts at the diagonal row
        init_ok = False
        for s in before:
            if s['k'] == 'Decl':
                for d in s['decls']:
                    if d['name'] == sel_var and d.get('init') is not None and show(strip_casts(d['init'])) == v:
                        init_ok = True
        ok = scan_ok and swap_ok and init_ok
        why = []
        if not scan_ok:
            why.append(scan_detail)
        if not swap_ok:
            why.append('no exchange of the rows %s[%s] and %s[<selected>] before the division' % (w, v, w))
        if scan_ok and not init_ok:
            why.append('the selected row does not start at the diagonal row')
        ctx.decide('C05.a', 'Inverse:elimination-pivot', inv, ok,
                   '%s; rows exchanged before dividing by %s[%s][%s]' % (scan_detail, w, v, v),
                   'elimination divides by the natural diagonal %s[%s][%s]: %s' % (w, v, v, '; '.join(why)),
                   witness={'reproducer': '[[0,1],[1,0]] -> exit "Diagonal element is zero"; [[1e-20,1],[1,1]] -> X[0][0]=0 instead of -1'} if not ok else None,
                   line=n.get('l'))
    # ---- C05.d the row operation of the elimination acts on the WHOLE row of the work array: with row exchanges the pivot row
    # is in general non-zero in every column of both halves
    ctx.sub('row_update_range', row_update_range, prog, ctx, inv, elim)
    # ---- C05.c gates
    invt = prog.fn(M + 'Invertible')
    f = G.bool_summary(prog, invt)
    txt = G.f_show(f).replace(' ', '')
    okg = 'Square()' in txt and 'Determinant()!=0' in txt and f[0] == 'and' and len(f[1]) == 2 and not txt.startswith('!')
    # exact: (Square()) && (Determinant() != 0.0)
    okg = okg and all(a[0] == 'atom' for a in f[1])
    ctx.decide('C05.c', 'Invertible', invt, okg, 'Invertible() <=> Square() && Determinant() != 0', 'Invertible() is true iff %s' % G.f_show(f), form=G.f_show(f))
    wr = G.find_wrappers(prog)
    sites = G.exit_sites(prog, inv, wr)
    kinds = []
    for st in sites:
        t = G.f_show(st.reach).replace(' ', '')
        if t == '!(this.Square())':
            kinds.append('nonsquare')
        elif t == '(this.Square())&&(!(this.Invertible()))':
            kinds.append('singular')
        elif G.f_has_loop(st.reach) and '==0' in t:
            kinds.append('zero-pivot')
        else:
            kinds.append('other:' + t[:80])
    okk = kinds[:2] == ['nonsquare', 'singular'] and all(k == 'zero-pivot' for k in kinds[2:])
    ctx.decide('C05.c', 'Inverse:gates', inv, okk, 'exits: not square; not invertible; (zero pivot after selection)', 'exit sites of Inverse: %s' % kinds)
    # the zero-pivot test, if present, must come after the row exchange (it is then unreachable for invertible input)
    det = prog.fn(M + 'Determinant')
    sd = G.exit_sites(prog, det, wr)
    ctx.decide('C05.c', 'Determinant:gate', det, len(sd) == 1 and G.f_show(sd[0].reach).replace(' ', '') == '!(this.Square())',
               'Determinant exits iff not square', 'exit sites: %s' % [G.f_show(s.reach) for s in sd])
    ctx.sub('laplace', laplace, prog, ctx, det)
    ctx.sub('det_cache', det_cache, prog, ctx, det)
    ctx.sub('extraction', extraction, prog, ctx, inv, elim, scale)


def det_cache(prog, ctx, det):
    from ..state import member_cache_protocol
    from .C09 import field_reads, field_writes
    r = member_cache_protocol(prog, det.cls, det, field_reads, field_writes)
    if r is None:
        ctx.holds('C05.e', 'Determinant:stateless', det, 'Determinant writes no field of its object: its value is a function of the current entries')
        return
    cache, problems = r
    ctx.decide('C05.e', 'Determinant:cache', det, not problems, 'the stored determinant (%s) is reset by every member that can change the entries' % '/'.join(cache),
               'a stored determinant goes stale: ' + '; '.join(problems[:3]),
               witness={'stale_after': problems, 'reproducer': 'M.Determinant(); M[0][0] = ...; M.Determinant() returns the old value'} if problems else None)


def laplace(prog, ctx, det):
    R = 'C05.b'
    A = Function('this.components', real=True)
    sx = Symx(prog, det)
    outs = sx.run()
    rows = Symbol('this.rows', integer=True)
    r1 = [o for o in outs if o.kind == 'return' and sp.Eq(rows, 1) in o.state.conds]
    r2 = [o for o in outs if o.kind == 'return' and sp.Eq(rows, 2) in o.state.conds]
    ok1 = len(r1) == 1 and is_zero(r1[0].value - A(0, 0))
    ok2 = len(r2) == 1 and is_zero(r2[0].value - (A(0, 0) * A(1, 1) - A(0, 1) * A(1, 0)))
    ctx.decide(R, 'Determinant:1x1', det, ok1, 'det of 1x1 is the entry', '1x1 branch returns %s' % [str(o.value) for o in r1])
    ctx.decide(R, 'Determinant:2x2', det, ok2, 'det of 2x2 is a00 a11 - a01 a10', '2x2 branch returns %s' % [str(o.value) for o in r2])
    gen = [o for o in outs if o.kind == 'return' and o not in r1 and o not in r2]
    if len(gen) > 1:
        # a path that returns a stored value is judged by C05.e; the expansion is the path that recurses
        rec_ = [o for o in gen if isinstance(o.value, sp.Basic) and any(a_.func.__name__ == M + 'Determinant' for a_ in o.value.atoms(sp.core.function.AppliedUndef))]
        if len(rec_) == 1:
            gen = rec_
    if len(gen) != 1:
        ctx.undecided(R, 'Determinant:expansion', det, 'general branch not unique (%d)' % len(gen))
        return
    v = gen[0].value
    DET = Function(M + 'Determinant', real=True)
    SUB = Function(M + 'Sub_Matrix', real=True)
    this = Symbol('obj:this')
    cols = Symbol('this.columns', integer=True)
    sums = list(v.atoms(sp.Sum)) if isinstance(v, sp.Basic) else []
    if len(sums) == 1 and is_zero(v - sums[0]):
        jv, lo, hi = sums[0].limits[0]
        term = sums[0].function
        bad = []
        for n in range(4):
            got = sp.simplify(term.subs(jv, n))
            want = (-1) ** n * A(0, n) * DET(SUB(this, 0, n))
            if not is_zero(got - want):
                bad.append('j=%d: %s' % (n, got))
        okb = lo == 0 and sp.simplify(hi - (cols - 1)) == 0 or lo == 0 and sp.simplify(hi - (rows - 1)) == 0
        ctx.decide(R, 'Determinant:signs', det, not bad, 'term j is (-1)^j a[0][j] det(Sub_Matrix(0,j))', 'Laplace terms are wrong: %s' % bad[:2],
                   witness={'terms': bad} if bad else None, form=str(term)[:300])
        ctx.decide(R, 'Determinant:expansion', det, okb, 'sum over all columns j=0..columns-1', 'expansion runs over j in [%s,%s]' % (lo, hi))
    else:
        running_sign(prog, ctx, det, R, A, DET, SUB, this)
    sub = prog.fn(M + 'Sub_Matrix')
    from ..symx import call_arg_terms
    try:
        cs = [(n_, str(a_[0]) if a_ else '') for n_, a_ in call_arg_terms(prog, sub, lambda c: c.get('kind') == 'method' and c['callee'].get('inrepo'))]
    except Undecided:
        cs = []
    oks = ('Delete_Row', sub.params[0]['name']) in cs and ('Delete_Column', sub.params[1]['name']) in cs
    ctx.decide(R, 'Sub_Matrix', sub, oks, 'Sub_Matrix(r,c) deletes row r and column c', 'Sub_Matrix calls %s' % cs)


def row_update_range(prog, ctx, inv, elim):
    n, outer, w, v, stack = elim[0]
    # the loop that updates W[j][k] -= ratio * W[i][k]: a loop nested in the sweep that stores into W with the pivot-row read W[v][.]
    upd = None
    for lp in walk_stmts(outer['body']):
        if lp['k'] != 'For' or not loop_var(lp):
            continue
        kv = loop_var(lp)['name']
        body_stmts = [x_ for x_ in walk_stmts(lp['body'])]
        if any(x_['k'] in ('For', 'While') for x_ in body_stmts):
            continue
        for x_ in body_stmts:
            for e_ in stmt_exprs(x_):
                e_ = strip(e_)
                if e_.get('k') == 'Bin' and e_['op'] in ('=', '-=') and elem_index(e_['lhs']) and elem_index(e_['lhs'])[0] == w and elem_index(e_['lhs'])[2] == kv \
                        and any(elem_index(y_) and elem_index(y_)[0] == w and elem_index(y_)[1] == v and elem_index(y_)[2] == kv for y_ in walk_expr(e_['rhs'])):
                    upd = lp
    if upd is None:
        ctx.undecided('C05.d', 'Inverse:row-update-range', inv, 'row update W[j][k] -= ratio*W[%s][k] not found' % v)
        return
    sx = Symx(prog, inv)
    sts = sx.states_at(inv, upd)
    if not sts:
        raise Undecided('no path reaches the row update')
    cl = sx.counted(upd, sts[0])
    if cl is None:
        ctx.undecided('C05.d', 'Inverse:row-update-range', inv, 'row update loop is not a counted loop', line=upd['l'])
        return
    var, lo, hi = cl
    rows_ = Symbol('this.rows', integer=True)
    warr = [v_ for v_ in sts[0].env.values() if isinstance(v_, Arr) and getattr(v_, 'dims', None) and str(v_.name).split('@')[0] == w]
    full = [2 * rows_] + ([warr[0].dims[1]] if warr else [])
    okr = lo == 0 and any(sp.simplify(hi - f_) == 0 for f_ in full) or (lo == 0 and str(hi).endswith('.columns'))
    ctx.decide('C05.d', 'Inverse:row-update-range', inv, bool(okr), 'the row operation runs over all columns [0, 2N) of the work array',
               'the row operation only covers columns [%s, %s) of the work array: after a row exchange the pivot row is non-zero outside that band '
               '(the identity half carries a 1 in the column of the ORIGINAL row), so the result is not the inverse' % (lo, hi),
               witness={'reproducer': 'Inverse({{1,2},{3,4}}): X*M differs from the identity by O(1)'} if not okr else None, line=upd['l'])


def extraction(prog, ctx, inv, elim, scale):
    R = 'C05.d'
    # augmentation: W[i][j] = components[i][j]; W[i][j+N] = (i==j)
    w = elim[0][2]
    # the work array when the elimination sweep starts, from the summary of the loops before it, evaluated on every
    # element for N = 1, 2, 3: left half = the matrix, right half = the identity
    from ..symx import strict_ranges
    outer_loop = elim[0][1]
    probs = []
    try:
        sxa = Symx(prog, inv)
        with strict_ranges():
            sts = sxa.states_at(inv, outer_loop)
            if len(sts) != 1:
                raise Undecided('%d paths reach the elimination sweep' % len(sts))
            warr = [v_ for v_ in sts[0].env.values() if isinstance(v_, Arr) and str(v_.name) == w]
            if len(warr) != 1:
                raise Undecided('work array `%s` has no summary' % w)
            kk, ll = sp.symbols('k l', integer=True)
            term = warr[0].read((kk, ll))
        Nsym = Symbol('this.rows', integer=True, nonnegative=True)
        Nsym2 = [x_ for x_ in term.free_symbols if str(x_) == 'this.rows']
        C = Function('this.components', real=True)
        for nv in (1, 2, 3):
            for kv in range(nv):
                for lv in range(2 * nv):
                    t_ = term.subs({x_: nv for x_ in Nsym2}).subs({kk: kv, ll: lv})
                    t_ = sp.simplify(t_) if not isinstance(t_, (sp.Integer, sp.Float)) else t_
                    want = C(kv, lv) if lv < nv else sp.Integer(1 if lv - nv == kv else 0)
                    if t_.free_symbols or not is_zero(t_ - want):
                        if len(probs) < 3:
                            probs.append('N=%d: W[%d][%d] = %s, expected %s' % (nv, kv, lv, t_, want))
    except Undecided as ex_:
        ctx.undecided(R, 'Inverse:augmentation', inv, 'augmentation loops outside the understood fragment: %s' % ex_)
        probs = None
    if probs is not None:
        ctx.decide(R, 'Inverse:augmentation', inv, not probs, 'work array is [M | I] (all elements for N = 1, 2, 3 from the loop summary)',
                   'augmentation is not [M | I]: ' + '; '.join(probs), witness={'elements': probs} if probs else None)
    # final scaling: W[i][j] = W[i][j] / W[i][i] for j in [N, 2N)
    oksc = False
    for n, outer, w2, v, stack in scale:
        num = elem_index(n['lhs'])
        loops = [s for s in stack if s['k'] == 'For']
        if num and num[0] == w2 and num[1] == v and len(loops) == 2:
            inner = loops[-1]
            lv = loop_var(inner)
            lo = show(strip_casts(lv['init']))
            hi = show(strip(inner['cond'])['rhs']).replace(' ', '')
            # assigned back to the same element
            par = [s for s in stack if s['k'] == 'Expr']
            tgt = elem_index(strip(par[-1]['e'])['lhs']) if par and strip(par[-1]['e']).get('k') == 'Bin' else None
            if lo == 'N' and hi in ('2*N', 'N*2', '2.0*N') and tgt == num:
                oksc = True
    ctx.decide(R, 'Inverse:row-scaling', inv, oksc, 'right half of every row is divided by its diagonal element', 'final row scaling not recognised')
    # extraction: N times Delete_Column(0), return W
    dc = [c for c in calls(inv) if (c.get('callee') or {}).get('q') == M + 'Delete_Column']
    okx = len(dc) == 1 and show(strip_casts(dc[0]['args'][0])) == '0' and strip(dc[0]['obj']).get('name') == w
    rets = [s for s in walk_stmts(inv.body) if s['k'] == 'Return']
    okx = okx and any(show(strip(r['e'])) == w for r in rets if r.get('e'))
    lps = enclosing(inv.body, lambda n: n is dc[0]) if dc else []
    okn = bool(lps) and any(s['k'] == 'For' and show(strip(s['cond'])['rhs']) == 'N' for s in lps[0][1])
    ctx.decide(R, 'Inverse:extraction', inv, okx and okn, 'the first N columns are removed and the right half returned', 'extraction not recognised')


def running_sign(prog, ctx, det, R, A, DET, SUB, this):
    """Expansion written with a running sign variable: it must flip on EVERY path through the loop body."""
    loops = [s for s in walk_stmts(det.body) if s['k'] == 'For']
    cand = None
    sx = Symx(prog, det)
    for lp in loops:
        st = State({})
        try:
            entry, cond, live, done, n0 = sx.loop_step(lp, st)
        except Undecided:
            continue
        ents = {k: v for k, v in entry.items() if isinstance(v, Symbol)}
        paths = [(p.env, p.conds[n0:], 'next') for p in live] + [(o.state.env, o.state.conds[n0:], o.kind) for o in done if o.kind == 'continue']
        for k, sgn in ents.items():
            if any(env.get(k) is not None and is_zero(env.get(k) + sgn) for env, _c, _k in paths):
                cand = (lp, k, sgn, ents, paths)
    if cand is None:
        ctx.undecided(R, 'Determinant:expansion', det, 'cofactor expansion not recognised (neither a parity sign nor a running sign)')
        return
    lp, ks, sgn, ents, paths = cand
    noflip = [(conds, kind) for env, conds, kind in paths if env.get(ks) is None or not is_zero(env.get(ks) + sgn)]
    ctx.decide(R, 'Determinant:signs', det, not noflip, 'the running sign is flipped on every path through the loop body',
               'the cofactor sign is a running variable that is NOT flipped on the path %s: every column after it gets the wrong sign'
               % [str(c_) for c_, _k in noflip][:2],
               witness={'paths': [str(c_) for c_, _k in noflip], 'reproducer': 'a permutation matrix with a zero in the first row: det has the wrong sign'} if noflip else None,
               line=lp['l'])
    # accumulated term on the paths that add something
    jk = [k for k, v_ in ents.items() if any(env.get(k) is not None and is_zero(env.get(k) - v_ - 1) for env, _c, _k in paths)]
    okterm = False
    for env, conds, kind in paths:
        for k, v_ in ents.items():
            if k in (ks,) or k in jk or env.get(k) is None:
                continue
            d = sp.expand(env[k] - v_)
            if d != 0 and jk:
                j = ents[jk[0]]
                if is_zero(d - sgn * A(0, j) * DET(SUB(this, 0, j))):
                    okterm = True
    ctx.decide(R, 'Determinant:expansion', det, okterm, 'each step adds sign*a[0][j]*det(Sub_Matrix(0,j))', 'accumulated term not recognised')

"""C13 - named 1D methods and nested multi-dimensional integrals (dispatch and wiring clauses)."""
import sympy as sp
from sympy import Symbol, Function, S
from ..ir import (AnalysisBroken, Undecided, show, strip, strip_casts, walk_stmts, stmt_exprs, walk_expr, calls,
                  all_exprs, local_decls)
from ..symx import Symx, State, Arr, is_zero
from ..guardtable import METHODS_1D, METHODS_MC
from ..state import static_locals

L = 'libphysica::'
HELPER = L + 'Check_Integration_Limits'


def method_of(cond_atoms):
    """From a path condition: the method name that is accepted on this path (the one positive string comparison)."""
    pos = []
    for a in cond_atoms:
        if isinstance(a, sp.Ne) and a.rhs == 0:
            f = a.lhs
            if isinstance(f, sp.core.function.AppliedUndef) and f.func.__name__.startswith('op==') and str(f.args[1]).startswith('str:'):
                pos.append(str(f.args[1])[4:])
    return pos


def atoms_of(cond):
    if isinstance(cond, sp.And):
        return list(cond.args)
    return [cond]


def check(prog, ctx):
    ctx.rule('C13.a', 'dispatch: equal limits return 0; on every path of every recognised method the result is s*integrator(f, lo, hi, ...) with '
             '(lo,hi) the ordered limits and s=-1 exactly when they were exchanged; the ordering helper is used at most once per sign variable '
             '(it assigns the sign, it does not flip it); the names accepted by the nested 2D/3D branch are the names Integrate accepts', 16)
    ctx.rule('C13.b', 'axis wiring of the nested integrals: level k integrates its lambda parameter over the k-th pair of limits and the user '
             'integrand receives the variable of axis k in position k', 2)
    ctx.rule('C13.c', 'spherical wrapper: the integrand is r^2 f(v) with v = (r sin t cos p, r sin t sin p, r cos t), t = acos(c), and (r,c,phi) '
             'are bound to the limit pairs (r1,r2), (cos1,cos2), (phi1,phi2) in that order', 2)
    ctx.rule('C13.d', 'Monte-Carlo front ends build region={lower...,upper...} and pass args[k] in position k', 2)
    ctx.rule('C13.e', 'the dispatchers keep no state: no function-local static object whose initialiser depends on an argument', 4)
    f1 = prog.fn(L + 'Integrate', pred=lambda f: any(p['name'] == 'method' for p in f.params) or any('basic_string' in p['ty'] for p in f.params))
    sx = Symx(prog, f1, inline={HELPER})
    outs = sx.run()
    a, b = sx.symbol(f1.params[1]['name'], 'double'), sx.symbol(f1.params[2]['name'], 'double')
    seen = {}
    # equal limits: the returning path(s) whose condition contains a == b (possibly together with "the method is one of the
    # recognised names", so that an unknown name is still rejected)
    eqpath = [o for o in outs if o.kind == 'return' and sp.Eq(a, b) in atoms_of(o.cond)]
    ctx.decide('C13.a', 'Integrate:equal-limits', f1, len(eqpath) >= 1 and all(o.value == 0 for o in eqpath), 'a==b returns 0 before any evaluation',
               'equal limits are not short-cut to 0')
    for o in outs:
        if o.kind != 'return' or o in eqpath:
            continue
        ats = atoms_of(o.cond)
        ms = method_of(ats)
        swapped = any(at == sp.Gt(a, b) or at == sp.Lt(b, a) for at in ats)
        plain = any(at == sp.Le(a, b) or at == sp.Ge(b, a) for at in ats)
        if len(ms) != 1 or swapped == plain:
            ctx.undecided('C13.a', 'Integrate:path', f1, 'path condition not recognised: %s' % str(o.cond)[:200])
            continue
        m = ms[0]
        v = o.value
        apps = [t for t in v.atoms(sp.core.function.AppliedUndef) if not t.func.__name__.startswith(('F:', 'op=='))
                and any(arg == a for arg in t.args) and any(arg == b for arg in t.args)]
        outer = [t for t in apps if not any(t in u.args or any(t in w.atoms() for w in u.args) for u in apps if u is not t)]
        inst = 'Integrate:%s:%s' % (m, 'reversed' if swapped else 'ordered')
        if len(outer) != 1:
            seen.setdefault(m, []).extend([False, True])
            ctx.undecided('C13.a', inst, f1, 'result %s is not a single integrator call on the limits (outside the understood fragment)' % str(v)[:200])
            continue
        I = outer[0]
        s = sp.cancel(v / I)
        lo, hi = (b, a) if swapped else (a, b)
        args = list(I.args)
        pos_ok = any(args[i] == lo and args[i + 1] == hi for i in range(len(args) - 1))
        sign_ok = (s == -1) if swapped else (s == 1)
        seen.setdefault(m, []).append(swapped)
        ctx.decide('C13.a', inst, f1, pos_ok and sign_ok,
                   '%s*%s(.., %s, %s, ..)' % (s, I.func.__name__.split('::')[-1], lo, hi),
                   'for method "%s" with %s limits the result is %s*%s%s; expected sign %s and limits (%s, %s)'
                   % (m, 'reversed' if swapped else 'ordered', s, I.func.__name__.split('::')[-1], tuple(I.args[1:3]), -1 if swapped else 1, lo, hi),
                   form=str(v)[:300])
    missing = [m for m in METHODS_1D if not ({False, True} <= set(seen.get(m, [])))]
    extra = [m for m in seen if m not in METHODS_1D]
    ctx.decide('C13.a', 'Integrate:methods', f1, not missing and not extra, 'all six method names are dispatched for both orientations',
               'method table differs: missing %s, unexpected %s' % (missing, extra))
    ctx.sub('helper_discipline', helper_discipline, prog, ctx)
    ctx.sub('nested', nested, prog, ctx)
    ctx.sub('spherical', spherical, prog, ctx)
    from .C14 import layout as _l   # front ends: shared rule with C14.c
    ctx.sub('front_ends', front_ends, prog, ctx)
    ctx.sub('statics', statics, prog, ctx)
    ctx.rule('C13.f', 'dependency: the spherical overload builds its vectors with Spherical_Coordinates(r, theta, phi); it inherits the obligations '
             'of C16 about that function (components r sin(theta) cos(phi), r sin(theta) sin(phi), r cos(theta) for every azimuth)', 1)
    ctx.inherit('C16', lambda o: o.rule == 'C16.c' and o.instance.startswith('Spherical_Coordinates'), 'C13.f', 'the spherical integrals')


def helper_discipline(prog, ctx):
    h = prog.fn(HELPER)
    # summary: how does the helper write its sign parameter
    mode = None
    for e in all_exprs(h):
        if e.get('k') == 'Bin' and strip(e['lhs']).get('k') == 'Ref' and strip(e['lhs']).get('rk') == 'param' and strip(e['lhs'])['idx'] == 2:
            mode = 'assign' if e['op'] == '=' else ('flip' if e['op'] == '*=' else e['op'])
    # semantic summary of the helper: (a, b, sign) -> (a, b, sign) on a <= b and (b, a, -1 | -sign) on a > b
    ok, why = False, 'helper paths not understood'
    try:
        sxh = Symx(prog, h)
        outs = [o for o in sxh.run() if o.kind in ('return', 'end')]
        pa, pb, ps = h.params[0], h.params[1], h.params[2]
        a0, b0, s0 = (sxh.symbol(p_['name'], p_['ty']) for p_ in (pa, pb, ps))
        rows = []
        for o in outs:
            env = o.state.env
            rows.append((o.cond, env.get(pa['id'], a0), env.get(pb['id'], b0), env.get(ps['id'], s0)))
        probs = []
        seen_sw = seen_pl = False
        for cnd, a1, b1, s1 in rows:
            ats = list(cnd.args) if isinstance(cnd, sp.And) else [cnd]
            rev = any(at in (sp.Gt(a0, b0), sp.Lt(b0, a0)) for at in ats)
            if rev:
                seen_sw = True
                if not (a1 == b0 and b1 == a0):
                    probs.append('under a>b the limits leave the helper as (%s,%s)' % (a1, b1))
                if not (s1 == -1 or s1 == -s0):
                    probs.append('under a>b the sign leaves the helper as %s' % s1)
            else:
                seen_pl = True
                if not (a1 == a0 and b1 == b0):
                    probs.append('with ordered limits the helper rewrites them to (%s,%s)' % (a1, b1))
                if mode == 'assign' and s1 not in (1, s0) or mode == 'flip' and s1 != s0:
                    probs.append('with ordered limits the sign leaves the helper as %s' % s1)
        if not (seen_sw and seen_pl):
            probs.append('no path distinguishes a>b from a<=b')
        ok, why = not probs, '; '.join(probs)
    except Undecided as ex:
        ctx.undecided('C13.a', 'Check_Integration_Limits:summary', h, 'ordering helper outside the understood fragment: %s' % ex)
        ok = None
    if ok is not None:
        ok = ok and mode in ('assign', 'flip')
        ctx.decide('C13.a', 'Check_Integration_Limits:summary', h, ok, 'exchanges the limits when a>b and %ss the sign' % mode,
                   'ordering helper: %s (sign write: %s)' % (why, mode))
    for fn in prog.repo_functions():
        cs = [c for c in calls(fn, into_lambdas=False) if (c.get('callee') or {}).get('q') == HELPER]
        if not cs:
            continue
        by = {}
        for c in cs:
            by.setdefault(show(c['args'][2]), []).append(c)
        bad = {k: len(v) for k, v in by.items() if len(v) > 1}
        if mode == 'assign':
            ctx.decide('C13.a', '%s:sign-variable' % fn.name + ('/%d' % len(fn.params)), fn, not bad,
                       'the ordering helper is applied once per sign variable',
                       'the ordering helper, which ASSIGNS sign=-1, is applied %s times to the same sign variable: two exchanged axes give -1 instead of +1' % bad,
                       witness={'calls': bad})


def nested(prog, ctx):
    for name, naxes in (('Integrate_2D', 2), ('Integrate_3D', 3)):
        fn = prog.fn(L + name, pred=lambda f: 'Vector' not in f.params[0]['ty'])
        lim = [(fn.params[1 + 2 * k]['name'], fn.params[2 + 2 * k]['name']) for k in range(naxes)]
        fname = fn.params[0]['name']
        # names accepted by the nested branch
        ifs = [s for s in fn.body['body'] if s['k'] == 'If']
        names_nested = set()
        branch = None
        if ifs:
            for n_ in walk_expr(ifs[0]['cond']):
                if n_.get('k') == 'Lit' and n_.get('lk') == 'str':
                    names_nested.add(n_['v'])
            branch = ifs[0]['then']
        ctx.decide('C13.a', name + ':nested-names', fn, names_nested == set(METHODS_1D),
                   'the nested branch accepts exactly the six 1D method names', 'nested branch accepts %s, Integrate accepts %s' % (sorted(names_nested), METHODS_1D))
        # limits must reach the nest unmodified
        written = []
        for e in all_exprs(fn, into_lambdas=True):
            if e.get('k') == 'Bin' and e['op'] in ('=', '+=', '-=', '*=', '/=') and strip(e['lhs']).get('rk') == 'param' and \
                    strip(e['lhs'])['name'] in [x for p in lim for x in p]:
                written.append(strip(e['lhs'])['name'])
        # walk the nest
        chain = []
        cur_body = branch
        ok = branch is not None
        detail = ''
        lambdas = {}
        level = 0
        while ok and cur_body is not None and level <= naxes:
            decls = {}
            for s in walk_stmts(cur_body):
                if s['k'] == 'Decl':
                    for d in s['decls']:
                        if d.get('init') is not None and strip(d['init']).get('k') == 'Lambda':
                            decls[d['name']] = strip(d['init'])
                        elif d.get('init') is not None and strip(d['init']).get('k') == 'Construct' and strip(d['init'])['args'] and \
                                strip(strip(d['init'])['args'][0]).get('k') == 'Lambda':
                            decls[d['name']] = strip(strip(d['init'])['args'][0])
            rets = [s for s in (cur_body['body'] if cur_body['k'] == 'Compound' else [cur_body]) if s['k'] == 'Return']
            if len(rets) != 1:
                ok = False
                detail = 'level %d: expected one return' % level
                break
            r = strip(rets[0]['e'])
            if level == naxes:
                # innermost: the user integrand
                if r.get('k') == 'Call' and r.get('kind') == 'stdfn' and strip(r['fn']).get('name') == fname:
                    args = [show(strip_casts(x)) for x in r['args']]
                    chain.append(('call', args))
                else:
                    ok = False
                    detail = 'innermost level does not call the user integrand: %s' % show(r)
                break
            if not (r.get('k') == 'Call' and (r.get('callee') or {}).get('q') == L + 'Integrate' and len(r['args']) >= 5):
                ok = False
                detail = 'level %d returns %s' % (level, show(r)[:100])
                break
            lam_name = show(strip_casts(r['args'][0]))
            l0 = r['args'][0]
            while strip(l0).get('k') in ('Construct', 'Copy') and (strip(l0).get('args') or strip(l0).get('e')):
                l0 = strip(l0)['args'][0] if strip(l0).get('k') == 'Construct' else strip(l0)['e']
            lam_name = show(strip_casts(l0))
            lam = decls.get(lam_name)
            if lam is None:
                ok = False
                detail = 'level %d: integrand `%s` is not a lambda declared at this level' % (level, lam_name)
                break
            chain.append(('level', lam['fn']['params'][0]['name'], show(strip_casts(r['args'][1])), show(strip_casts(r['args'][2])),
                          show(strip_casts(r['args'][3])), show(strip_casts(r['args'][4]))))
            cur_body = lam['fn']['body']
            level += 1
        probs = []
        if not ok:
            ctx.undecided('C13.b', name + ':axes', fn, 'nest not recognised: ' + detail)
            continue
        variables = []
        for k, lv in enumerate([c for c in chain if c[0] == 'level']):
            _, var, lo, hi, meth, par = lv
            variables.append(var)
            if (lo, hi) != lim[k]:
                probs.append('level %d integrates `%s` over (%s,%s), expected (%s,%s)' % (k, var, lo, hi, lim[k][0], lim[k][1]))
            if meth != 'method' or par != 'method_parameter':
                probs.append('level %d passes method arguments (%s,%s)' % (k, meth, par))
        call = [c for c in chain if c[0] == 'call']
        if not call or call[0][1] != variables:
            probs.append('the user integrand is called with %s, expected %s' % (call[0][1] if call else None, variables))
        if written:
            probs.append('limit parameters %s are modified before the nest' % written)
        ctx.decide('C13.b', name + ':axes', fn, not probs, 'levels integrate %s over %s and the integrand receives them in this order' % (variables, lim),
                   '; '.join(probs), witness={'chain': str(chain)} if probs else None)


def spherical(prog, ctx):
    fn = prog.fn(L + 'Integrate_3D', pred=lambda f: 'Vector' in f.params[0]['ty'])
    rets = [s for s in fn.body['body'] if s['k'] == 'Return']
    lam = None
    for d in local_decls(fn):
        pass
    for s in fn.body['body']:
        if s['k'] == 'Decl':
            for d in s['decls']:
                if d.get('init') is not None and strip(d['init']).get('k') == 'Lambda':
                    lam = (d['name'], strip(d['init']))
    if lam is None or len(rets) != 1:
        ctx.undecided('C13.c', 'Integrate_3D(spherical):integrand', fn, 'wrapper lambda / single return not found')
        return
    lname, lnode = lam
    ps = [p['name'] for p in lnode['fn']['params']]
    sx = Symx(prog, fn)
    from ..symx import LambdaVal
    st = State({})
    r_, c_, p_ = [sx.symbol(n, 'double') for n in ps]
    sub = State({})
    for p in lnode['fn']['params']:
        sub.env[p['id']] = sx.symbol(p['name'], 'double')
    outs = sx.exec_body(lnode['fn']['body'], sub)
    outs = [o for o in outs if o.kind == 'return']
    ok = False
    detail = ''
    if len(outs) == 1:
        v = outs[0].value
        fs = [t for t in v.atoms(sp.core.function.AppliedUndef) if t.func.__name__.startswith('F:')]
        if len(fs) == 1:
            jac = sp.cancel(v / fs[0])
            arg = fs[0].args[0]
            vec_ok = False
            if isinstance(arg, sp.core.function.AppliedUndef) and arg.func.__name__ == L + 'Spherical_Coordinates':
                vec_ok = tuple(arg.args) == (r_, sp.acos(c_), p_)
                detail = 'vector = %s' % arg
            else:
                # explicit vector: resolve through the environment
                vv = None
                for key, val in outs[0].state.env.items():
                    if isinstance(val, Arr) and ('arr:' + str(val.name)) == str(arg):
                        vv = val
                if vv is not None:
                    comp = [vv.read((sp.Integer(i),)) for i in range(3)]
                    s_t = sp.sqrt(1 - c_ ** 2)
                    want = [r_ * s_t * sp.cos(p_), r_ * s_t * sp.sin(p_), r_ * c_]
                    comp = [sp.simplify(x.subs(sp.sin(sp.acos(c_)), s_t)) for x in comp]
                    vec_ok = all(is_zero(sp.simplify(x - w)) for x, w in zip(comp, want))
                    detail = 'vector = %s' % comp
                else:
                    detail = 'vector argument %s' % arg
            ok = vec_ok and is_zero(jac - r_ ** 2)
            detail += '; jacobian %s' % jac
    ctx.decide('C13.c', 'Integrate_3D(spherical):integrand', fn, ok, 'r^2 f(Spherical_Coordinates(r, acos(c), phi))',
               'spherical integrand is wrong: ' + detail)
    r = strip(rets[0]['e'])
    okl = False
    if r.get('k') == 'Call' and (r.get('callee') or {}).get('q') == L + 'Integrate_3D':
        args = [show(strip_casts(x)) for x in r['args']]
        l0 = r['args'][0]
        while strip(l0).get('k') in ('Construct', 'Copy'):
            l0 = strip(l0)['args'][0] if strip(l0).get('k') == 'Construct' else strip(l0)['e']
        want = [p['name'] for p in fn.params[1:]]
        okl = show(strip_casts(l0)) == lname and args[1:] == want
    ctx.decide('C13.c', 'Integrate_3D(spherical):limits', fn, okl, 'limits passed as (r1,r2,cos1,cos2,phi1,phi2,method,parameter) for lambda(r,cos,phi)',
               'spherical wrapper forwards %s' % (show(r)[:200]))


def front_ends(prog, ctx):
    for name, want in (('Integrate_2D', ['x1', 'y1', 'x2', 'y2']), ('Integrate_3D', ['x1', 'y1', 'z1', 'x2', 'y2', 'z2'])):
        fn = prog.fn(L + name, pred=lambda f: 'Vector' not in f.params[0]['ty'])
        ps = [p['name'] for p in fn.params]
        nax = len(want) // 2
        want = [ps[1 + 2 * k] for k in range(nax)] + [ps[2 + 2 * k] for k in range(nax)]
        got = None
        for d in local_decls(fn):
            if d['ty'].startswith('std::vector<double') and d.get('init') is not None:
                got = [n['name'] for n in walk_expr(d['init']) if n.get('k') == 'Ref' and n.get('rk') == 'param']
        lam_ok = False
        for e in all_exprs(fn, into_lambdas=False):
            if e.get('k') == 'Lambda' and len(e['fn']['params']) == 2:
                rs = [s for s in walk_stmts(e['fn']['body']) if s['k'] == 'Return']
                if rs:
                    c0 = strip(rs[0]['e'])
                    if c0.get('k') == 'Call' and c0.get('kind') == 'stdfn':
                        idx = [show(strip_casts(x)).replace(' ', '') for x in c0['args']]
                        pn = e['fn']['params'][0]['name']
                        lam_ok = idx == ['%s[%d]' % (pn, i) for i in range(nax)]
        mcnames = set()
        ifs = [s for s in walk_stmts(fn.body) if s['k'] == 'If']
        for i_ in ifs[1:2]:
            for n_ in walk_expr(i_['cond']):
                if n_.get('k') == 'Lit' and n_.get('lk') == 'str':
                    mcnames.add(n_['v'])
        ctx.decide('C13.d', name + ':region', fn, got == want and lam_ok and mcnames == set(METHODS_MC),
                   'region = %s, integrand receives args[k] in position k, Monte-Carlo names %s' % (want, sorted(mcnames)),
                   'front end builds region %s (expected %s), integrand wiring ok=%s, names %s' % (got, want, lam_ok, sorted(mcnames)))


def statics(prog, ctx):
    names = ('Integrate', 'Integrate_2D', 'Integrate_3D', 'Integrate_Gauss_Legendre', 'Find_Epsilon', 'Adaptive_Simpson_Integration',
             'Compute_Gauss_Legendre_Roots_and_Weights')
    for fn in prog.repo_functions():
        if fn.name not in names or not fn.q.startswith(L):
            continue
        from ..state import history_dependence
        bad = [d_ for n_, v_, d_ in history_dependence(prog, fn) if v_ == 'violated']
        ctx.decide('C13.e', '%s/%d:stateless' % (fn.name, len(fn.params)), fn, not bad, 'no persistent state',
                   'keeps state across calls: %s - the first call decides the value used by all later calls' % bad, witness={'statics': bad} if bad else None)

"""C03 - adaptive Simpson: exact on quintics, error request, evaluation budget (structural clauses)."""
import sympy as sp
from sympy import Symbol, Function, S, Rational
from ..ir import AnalysisBroken, Undecided, show, strip, strip_casts, walk_stmts, stmt_exprs, walk_expr, calls, all_exprs
from ..symx import Symx, State, is_zero

L = 'libphysica::'
HELPER = L + 'Check_Integration_Limits'


def applied(t, pred):
    return [a for a in t.atoms(sp.core.function.AppliedUndef) if pred(a.func.__name__)]


def check(prog, ctx):
    ctx.rule('C03.a', 'accepted-panel rule is Boole\'s rule: with the coarse estimate S=(b-a)/6 (fa+4fc+fb) handed in, the value returned on the '
             'accepting path is (b-a)/90 (7fa+32fd+12fc+32fe+7fb) on the five equidistant samples', 1)
    ctx.rule('C03.b', 'recursion wiring (parameter contract fa=F(a), fb=F(b), fc=F((a+b)/2), S=Simpson(a,b)): every call site - the two recursive '
             'ones on [a,c] and [c,b] and the top-level one - passes arguments that satisfy the contract for the sub-interval it passes', 2)
    ctx.rule('C03.c', 'tolerance and depth: recursive calls pass epsilon/2 and depth-1; base case depth<=0; acceptance |S2-S| <= 15 epsilon with '
             '15 the Richardson denominator of C03.a; the only accept without that test (depth exhausted) sets the non-convergence flag', 3)
    ctx.rule('C03.d', 'evaluation budget and locations: the helper evaluates the integrand exactly twice per activation (quarter points), the '
             'entry three times (a, b, midpoint), and recurses twice with depth-1: at most 2^(depth+2)+1 evaluations, all inside [a,b]', 2)
    ctx.rule('C03.e', 'front matter: a==b returns 0 before any evaluation; limits are ordered by the helper and the result carries the sign '
             'exactly once; epsilon enters only through its absolute value', 3)
    entry = prog.fn(L + 'Integrate', pred=lambda f: len(f.params) == 5 and f.params[3]['ty'] == 'double')
    # the recursive helper: the in-repo callee of the entry that receives the three samples
    helper = None
    for c in calls(entry):
        cc = c.get('callee') or {}
        if cc.get('inrepo') and len(c.get('args', [])) >= 8:
            helper = prog.by_sig(cc['sig'])
    if helper is None:
        raise AnalysisBroken('recursive Simpson helper not found from Integrate(func,a,b,epsilon,depth)')
    HQ = helper.q
    sx = Symx(prog, helper)
    outs = sx.run()
    names = [p['name'] for p in helper.params]
    # parameter roles by position: (func, a, b, epsilon, S, fa, fb, fc, depth, warning)
    a, b, eps, Sx, fa, fb, fc = [sx.symbol(n, 'double') for n in names[1:8]]
    depth = sx.symbol(names[8], 'int')
    F = lambda t: Function('F:' + names[0], real=True)(t)
    contract = {fa: F(a), fb: F(b), fc: F((a + b) / 2), Sx: (b - a) / 6 * (F(a) + 4 * F((a + b) / 2) + F(b))}
    rec = [o for o in outs if o.kind == 'return' and applied(o.value, lambda n: n == HQ)]
    acc = [o for o in outs if o.kind == 'return' and not applied(o.value, lambda n: n == HQ)]
    if len(rec) != 1 or not acc:
        raise Undecided('helper paths: %d recursive, %d accepting' % (len(rec), len(acc)))
    # ---- C03.a Boole
    vals = set()
    for o in acc:
        vals.add(sp.expand(o.value))
    boole_ok = False
    detail = ''
    if len(vals) == 1:
        v = list(vals)[0].subs(contract)
        fd, fe = F((3 * a + b) / 4), F((a + 3 * b) / 4)
        want = (b - a) / 90 * (7 * F(a) + 32 * fd + 12 * F((a + b) / 2) + 32 * fe + 7 * F(b))
        boole_ok = is_zero(v - want)
        samples = [F(a), fd, F((a + b) / 2), fe, F(b)]
        coeffs = [sp.simplify(sp.expand(v).coeff(s_) * 90 / (b - a)) for s_ in samples]
        detail = 'coefficients (b-a)/90*%s' % coeffs
    ctx.decide('C03.a', 'accepted-panel', helper, boole_ok, 'accepted value is Boole\'s rule (7,32,12,32,7)/90: ' + detail,
               'accepted value is not Boole\'s rule: ' + detail + ' (exactness on quintics is lost)', witness={'coefficients': detail}, form=detail)
    # ---- C03.b recursive call sites
    calls_ = applied(rec[0].value, lambda n: n == HQ)
    total = sp.expand(rec[0].value - sum(calls_))
    ok_sum = total == 0 and len(calls_) == 2
    c_mid = (a + b) / 2
    want_iv = [(a, c_mid), (c_mid, b)]
    got_iv = []
    probs = []
    for cl in calls_:
        args = list(cl.args)
        a2, b2, e2, S2, fa2, fb2, fc2, d2 = args[1:9]
        got_iv.append((a2, b2))
        sub = lambda t: sp.expand(t.subs(contract))
        if not is_zero(sub(fa2) - F(a2)):
            probs.append('on [%s,%s] the left-sample slot receives %s, not F(%s)' % (a2, b2, fa2, a2))
        if not is_zero(sub(fb2) - F(b2)):
            probs.append('on [%s,%s] the right-sample slot receives %s, not F(%s)' % (a2, b2, fb2, b2))
        if not is_zero(sub(fc2) - F(sp.expand((a2 + b2) / 2))) and not is_zero(sub(fc2) - F((a2 + b2) / 2)):
            # compare arguments
            fs = applied(sub(fc2), lambda n: n.startswith('F:'))
            if not (len(fs) == 1 and is_zero(fs[0].args[0] - (a2 + b2) / 2) and is_zero(sub(fc2) - fs[0])):
                probs.append('on [%s,%s] the mid-sample slot receives %s, not F of the midpoint' % (a2, b2, fc2))
        wantS = (b2 - a2) / 6 * (F(a2) + 4 * F((a2 + b2) / 2) + F(b2))
        gotS = sub(S2)
        # normalise F arguments
        norm = lambda t: t.replace(lambda x: isinstance(x, sp.core.function.AppliedUndef), lambda x: x.func(sp.expand(x.args[0])) if len(x.args) == 1 else x)
        if not is_zero(norm(sp.expand(gotS)) - norm(sp.expand(wantS))):
            probs.append('on [%s,%s] the coarse-estimate slot receives %s, not Simpson\'s rule on that sub-interval' % (a2, b2, S2))
        if not is_zero(e2 - eps / 2):
            probs.append('tolerance passed down is %s, not epsilon/2' % e2)
        if not is_zero(d2 - (depth - 1)):
            probs.append('depth passed down is %s, not depth-1' % d2)
    iv_ok = sorted([(str(sp.expand(x)), str(sp.expand(y))) for x, y in got_iv]) == sorted([(str(sp.expand(x)), str(sp.expand(y))) for x, y in want_iv])
    wiring = [p for p in probs if 'slot' in p]
    ctx.decide('C03.b', 'recursive-calls', helper, ok_sum and iv_ok and not wiring,
               'the two halves [a,c], [c,b] are integrated with samples and coarse estimates of their own sub-interval and added',
               'recursion wiring is wrong: %s' % (wiring or ('sub-intervals %s' % got_iv if not iv_ok else 'result is not the sum of the two halves')),
               witness={'problems': wiring})
    tol = [p for p in probs if 'slot' not in p]
    ctx.decide('C03.c', 'tolerance-and-depth', helper, not tol, 'recursive calls pass epsilon/2 and depth-1', '; '.join(tol))
    # acceptance predicate from the recursive path's condition: recursion happens iff depth>0 and |S2-S| > 15 eps
    S2expr = None
    cond = rec[0].cond
    # evaluate the predicate on a grid of (depth, |S2-S| vs 15 eps)
    absd = [t for t in cond.atoms(sp.Abs)]
    okacc = False
    detail = str(cond)[:200]
    if len(absd) >= 1:
        D = Symbol('DIFF', nonnegative=True)
        c2 = cond.subs(absd[0], D)
        if not c2.atoms(sp.Abs):
            rows = []
            ok_rows = True
            for dv in (-1, 0, 1, 5):
                for diff, ev in ((0.0, 1.0), (14.9, 1.0), (15.0, 1.0), (15.1, 1.0), (100.0, 1.0)):
                    got = c2.subs({depth: dv, D: diff, eps: ev})
                    want = (dv > 0) and (diff > 15 * ev)
                    if bool(got) != want:
                        ok_rows = False
                        rows.append((dv, diff, ev, bool(got)))
            # the compared difference is S2 - S with S2 = Sleft + Sright
            inner = sp.expand(absd[0].args[0].subs(contract))
            fd, fe = F((3 * a + b) / 4), F((a + 3 * b) / 4)
            S2w = (b - a) / 12 * (F(a) + 4 * fd + F((a + b) / 2)) + (b - a) / 12 * (F((a + b) / 2) + 4 * fe + F(b))
            Sw = (b - a) / 6 * (F(a) + 4 * F((a + b) / 2) + F(b))
            nrm = lambda t: sp.expand(t.replace(lambda x: isinstance(x, sp.core.function.AppliedUndef), lambda x: x.func(sp.expand(x.args[0])) if len(x.args) == 1 else x))
            diff_ok = is_zero(nrm(inner) - nrm(S2w - Sw)) or is_zero(nrm(inner) + nrm(S2w - Sw))
            okacc = ok_rows and diff_ok
            detail = 'recurses iff depth>0 and |S2-S| > 15*epsilon' if okacc else 'acceptance rows differ %s, difference term ok=%s' % (rows[:3], diff_ok)
    ctx.decide('C03.c', 'acceptance', helper, okacc, detail, 'acceptance test is not "depth<=0 or |S2-S| <= 15*epsilon" (absolute): ' + detail,
               witness={'condition': str(cond)[:300]})
    # an accept without the error test (depth exhausted, |S2-S| > 15 eps) is the one place where the returned value need not
    # meet the error request: it must at least be flagged through the by-reference status parameter
    flag = [p for p in helper.params if p.get('byref') and not p.get('constref') and p['ty'] == 'bool']
    if len(absd) >= 1 and len(flag) == 1:
        D2 = Symbol('DIFF', nonnegative=True)
        unflagged = []
        n_unconv = 0
        for o in acc:
            c3 = o.cond.subs(absd[0], D2)
            try:
                hit = bool(c3.subs({depth: 0, D2: 100.0, eps: 1.0}))
            except TypeError:
                hit = None
            if hit is None:
                unflagged = None
                break
            if hit:
                n_unconv += 1
                fv = o.state.env.get(flag[0]['id'])
                if fv not in (S.true, True, 1, sp.Integer(1)):
                    unflagged.append(str(fv))
        if unflagged is None:
            ctx.undecided('C03.c', 'unconverged-accept-flagged', helper, 'accepting path condition does not evaluate on (depth, difference, epsilon)')
        else:
            ctx.decide('C03.c', 'unconverged-accept-flagged', helper, n_unconv >= 1 and not unflagged,
                       'a panel accepted only because the depth is exhausted sets the status flag `%s` (reported by Integrate as a non-convergence warning)' % flag[0]['name'],
                       'a panel accepted with |S2-S| > 15*epsilon at depth 0 does not set the status flag `%s` (value %s): an unconverged result is returned silently' % (flag[0]['name'], unflagged[:1]))
    if len(flag) == 1:
        # ... and the entry point reports a set flag
        fpos = [i_ for i_, p_ in enumerate(helper.params) if p_ is flag[0]][0]
        passed = [strip_casts(c_['args'][fpos]) for c_ in calls(entry) if (c_.get('callee') or {}).get('sig') == helper.sig and len(c_.get('args', [])) > fpos]
        ids = set(x_.get('id') for x_ in passed if x_.get('k') == 'Ref')
        reported = False
        for s_ in walk_stmts(entry.body):
            if s_['k'] == 'If' and any(n_.get('k') == 'Ref' and n_.get('id') in ids for n_ in walk_expr(s_['cond'])):
                for t_ in walk_stmts(s_['then']):
                    for e_ in stmt_exprs(t_):
                        if any(n_.get('k') == 'Call' and n_.get('kind') == 'op' and n_.get('op') == '<<' for n_ in walk_expr(e_)):
                            reported = True
        ctx.decide('C03.c', 'unconverged-reported', entry, bool(ids) and reported, 'Integrate prints a warning when the helper set the non-convergence flag',
                   'the non-convergence flag of the helper is not reported by Integrate (an unconverged value is returned silently)')
    # ---- C03.d evaluation budget
    evals = [c for c in calls(helper, into_lambdas=False) if c.get('kind') == 'stdfn' and strip(c.get('fn', {})).get('name') == names[0]]
    recs = [c for c in calls(helper, into_lambdas=False) if (c.get('callee') or {}).get('q') == HQ]
    pts = sorted(str(sp.expand(sx.sym(c['args'][0], State({})))) for c in evals) if len(evals) == 2 else []
    sxh = Symx(prog, helper)
    st0 = State({})
    for s in helper.body['body']:
        if s['k'] == 'Decl':
            sxh.exec(s, [st0])
    pts = [sp.expand(sxh.sym(c['args'][0], st0)) for c in evals]
    okq = len(evals) == 2 and len(recs) == 2 and sorted(map(str, pts)) == sorted(map(str, [sp.expand((3 * a + b) / 4), sp.expand((a + 3 * b) / 4)]))
    in_loop = any(s['k'] in ('For', 'While', 'Do') for s in walk_stmts(helper.body))
    ctx.decide('C03.d', 'helper-evaluations', helper, okq and not in_loop, 'two evaluations per activation, at the quarter points; two recursive calls',
               'helper evaluates the integrand %d times at %s and recurses %d times' % (len(evals), pts, len(recs)))
    # ---- entry
    sxe = Symx(prog, entry, inline={HELPER})
    eouts = sxe.run()
    ea, eb = sxe.symbol(entry.params[1]['name'], 'double'), sxe.symbol(entry.params[2]['name'], 'double')
    eeps = sxe.symbol(entry.params[3]['name'], 'double')
    edepth = sxe.symbol(entry.params[4]['name'], 'int')
    Fe = lambda t: Function('F:' + entry.params[0]['name'], real=True)(t)
    def is_eq_path(o):
        try:
            return all(o.cond.subs({ea: x, eb: x}) == S.true for x in (1, -2.5)) and all(o.cond.subs({ea: x, eb: y}) == S.false for x, y in ((1, 2), (3, -1)))
        except Exception:
            return False
    eq = [o for o in eouts if o.kind == 'return' and is_eq_path(o)]
    ok0 = len(eq) == 1 and eq[0].value == 0
    first_eval = min([c['l'] for c in calls(entry) if c.get('kind') == 'stdfn'] or [10 ** 9])
    ret0 = [s for s in walk_stmts(entry.body) if s['k'] == 'Return' and s['l'] < first_eval]
    ctx.decide('C03.e', 'equal-limits', entry, ok0 and len(ret0) >= 1, 'a==b returns 0 before any evaluation', 'equal limits are not short-cut before the first evaluation')
    probs = []
    eps_probs = []
    ncalls = 0
    for o in eouts:
        if o.kind != 'return' or o in eq:
            continue
        v = o.value
        cs = applied(v, lambda n: n == HQ)
        if len(cs) != 1:
            probs.append('path %s returns %s' % (o.cond, str(v)[:100]))
            continue
        ncalls += 1
        cl = cs[0]
        sgn = sp.cancel(v / cl)
        swapped = any(at in (sp.Gt(ea, eb), sp.Lt(eb, ea)) for at in (o.cond.args if isinstance(o.cond, sp.And) else [o.cond]))
        args = list(cl.args)
        a2, b2, e2, S2, fa2, fb2, fc2, d2 = args[1:9]
        lo, hi = (eb, ea) if swapped else (ea, eb)
        if not (a2 == lo and b2 == hi):
            probs.append('%s limits: helper receives (%s,%s)' % ('reversed' if swapped else 'ordered', a2, b2))
        if sgn != (-1 if swapped else 1):
            probs.append('%s limits: result carries the factor %s' % ('reversed' if swapped else 'ordered', sgn))
        nrm = lambda t: sp.expand(t.replace(lambda x: isinstance(x, sp.core.function.AppliedUndef), lambda x: x.func(sp.expand(x.args[0])) if len(x.args) == 1 else x))
        if not (is_zero(fa2 - Fe(a2)) and is_zero(fb2 - Fe(b2)) and is_zero(nrm(fc2) - nrm(Fe((a2 + b2) / 2)))):
            probs.append('%s limits: sample slots receive (%s,%s,%s)' % ('reversed' if swapped else 'ordered', fa2, fb2, fc2))
        wantS = (b2 - a2) / 6 * (Fe(a2) + 4 * Fe((a2 + b2) / 2) + Fe(b2))
        if not is_zero(nrm(S2) - nrm(wantS)):
            probs.append('%s limits: the coarse estimate handed to the helper is %s, not Simpson\'s rule on (%s,%s)' % ('reversed' if swapped else 'ordered', S2, a2, b2))
        if e2 != sp.Abs(eeps):
            eps_probs.append('tolerance handed to the helper is %s, not |epsilon|' % e2)
        if d2 != edepth:
            probs.append('depth handed down is %s' % d2)
    ctx.decide('C03.b', 'top-level-call', entry, not probs and ncalls >= 2, 'both orientations hand (lo, hi, Simpson(lo,hi), F(lo), F(hi), F(mid)) to the helper and apply the sign once',
               '; '.join(sorted(set(probs))) or 'no helper call found', witness={'problems': sorted(set(probs))} if probs else None)
    ctx.decide('C03.e', 'orientation-sign', entry, not [p for p in probs if 'factor' in p or 'limits: helper' in p] and ncalls >= 2,
               'reversed limits are exchanged and the result negated exactly once', '; '.join(p for p in probs if 'factor' in p or 'limits: helper' in p))
    ctx.decide('C03.e', 'epsilon-sign', entry, not eps_probs and ncalls >= 2, 'epsilon enters only through |epsilon|', '; '.join(sorted(set(eps_probs))))
    ev_e = [c for c in calls(entry, into_lambdas=False) if c.get('kind') == 'stdfn' and strip(c.get('fn', {})).get('name') == entry.params[0]['name']]
    ctx.decide('C03.d', 'entry-evaluations', entry, len(ev_e) == 3, 'three evaluations in the entry (a, b, midpoint): total <= 3+2(2^(d+1)-1) = 2^(d+2)+1',
               'the entry evaluates the integrand %d times' % len(ev_e))

"""C15 - QR factors and eigenpairs satisfy their defining equations (structural clauses; two recorded findings)."""
import sympy as sp
from sympy import Symbol, Function, S
from ..ir import (AnalysisBroken, Undecided, show, strip, strip_casts, walk_stmts, stmt_exprs, walk_expr, calls,
                  all_exprs, local_decls)
from ..symx import Symx, State, Arr, is_zero
from .. import guards as G

L = 'libphysica::'


def unwrap(e):
    e = strip(e)
    while e.get('k') in ('Construct', 'Copy') and (e.get('args') or e.get('e')):
        e = strip(e['args'][0]) if e.get('k') == 'Construct' and len([a for a in e['args'] if a.get('k') != 'DefaultArg']) == 1 else (strip(e['e']) if e.get('k') == 'Copy' else e)
        if e.get('k') == 'Construct' and len([a for a in e['args'] if a.get('k') != 'DefaultArg']) != 1:
            break
    return e


def closure(prog, root):
    seen, todo = {}, [root]
    while todo:
        f = todo.pop()
        if f.sig in seen:
            continue
        seen[f.sig] = f
        for c in calls(f):
            cc = c.get('callee') or {}
            if cc.get('inrepo'):
                g = prog.by_sig(cc['sig'])
                if g is not None:
                    todo.append(g)
    return list(seen.values())


def check(prog, ctx):
    ctx.rule('C15.a', 'reflector: Householder_Matrix returns I - 2 u u^T with u the normalised x - alpha e1, alpha = Sign(|x|, -x0), on every path '
             '(an exceptional path is admissible only under an exact degeneracy test, not under a tolerance)', 2)
    ctx.rule('C15.b', 'QR loop invariant: in each sweep the same embedded reflector P (identity block of size i, zero blocks, reflector block of the '
             'current sub-matrix) is applied as R <- P R and Q <- Q P (P^2 = I keeps Q R invariant); then the entries below the diagonal of column i are zeroed', 4)
    ctx.rule('C15.c', 'QR iteration: A <- R Q (similarity), eigenvalues read from the diagonal, convergence measure = sum |sub-diagonal| / sum |diagonal| '
             '(both sums of absolute values), iteration cap with a diagnostic exit', 3)
    ctx.rule('C15.d', 'every iteration in the closure of Eigensystem is bounded: each loop is counted or tests a counter against a bound', 4)
    ctx.rule('C15.e', 'inverse iteration: the matrix handed to Inverse (which exits on singular input) is not M - lambda I with lambda an unperturbed '
             'computed eigenvalue; every eigenvector search starts from a fixed vector, not from a previously found eigenvector', 2)
    householder(prog, ctx)
    qr(prog, ctx)
    eigenvalues(prog, ctx)
    bounded(prog, ctx)
    inverse_iteration(prog, ctx)


def householder(prog, ctx):
    fn = prog.fn(L + 'Householder_Matrix')
    sx = Symx(prog, fn)
    outs = sx.run()
    rets = [o for o in outs if o.kind == 'return']
    M = fn.params[0]['name']
    X = Function(L + 'Matrix::Return_Column', real=True)(Symbol('obj:' + M), 0)
    main = []
    other = []
    for o in rets:
        v = o.value
        txt = str(v)
        if 'Outer_Vector_Product' in txt and 'Identity_Matrix' in txt:
            main.append(o)
        else:
            other.append(o)
    ok = False
    detail = 'no path returns Identity - 2*Outer(u,u)'
    if len(main) == 1:
        v = main[0].value
        # structure: op-(Identity_Matrix(n), op*(2, Outer(u,u)))
        calls_ = {c['callee']['name']: c for c in calls(fn) if c.get('callee')}
        want_seq = []
        # IR-level verification of each ingredient
        decls = {d['name']: d for d in local_decls(fn)}
        ingredients = []
        xs = [d for d in decls.values() if d.get('init') is not None and 'Return_Column' in show(d['init'])]
        okx = len(xs) == 1 and show(xs[0]['init']).replace(' ', '') == '%s.Return_Column(0)' % M
        xn = xs[0]['name'] if xs else '?'
        al = [d for d in decls.values() if d.get('init') is not None and show(unwrap(d['init'])).replace(' ', '') in
              ('Sign(%s.Norm(),-%s[0])' % (xn, xn), 'Sign(norm,-%s[0])' % xn)]
        oka = len(al) == 1
        an = al[0]['name'] if al else '?'
        e1 = [d for d in decls.values() if d.get('init') is not None and show(strip(d['init'])).replace(' ', '') in ('Vector(%s.Size(),0.0)' % xn, 'Vector(%s.Size(),0)' % xn)]
        en = e1[0]['name'] if e1 else '?'
        e1set = any(e.get('k') == 'Bin' and e['op'] == '=' and show(e['lhs']).replace(' ', '') == '%s[0]' % en and strip_casts(e['rhs']).get('val') in ('1.0', '1')
                    for e in all_exprs(fn))
        us = [d for d in decls.values() if d.get('init') is not None and show(unwrap(d['init'])).replace(' ', '') in
              ('(%s-(%s*%s))' % (xn, an, en), '(%s-%s*%s)' % (xn, an, en), '%s-%s*%s' % (xn, an, en))]
        un = us[0]['name'] if us else '?'
        norm = any(c.get('kind') == 'method' and c['callee']['name'] == 'Normalize' and show(c['obj']) == un for c in calls(fn))
        rv = [show(unwrap(d['init'])).replace(' ', '') for d in decls.values() if d.get('init') is not None and 'Outer_Vector_Product' in show(d['init'])]
        okq = any(t in ('(Identity_Matrix(%s.Size())-(2.0*Outer_Vector_Product(%s,%s)))' % (xn, un, un), '(Identity_Matrix(%s.Size())-2.0*Outer_Vector_Product(%s,%s))' % (xn, un, un))
                  for t in rv) or any('Identity_Matrix(%s.Size())' % xn in t and 'Outer_Vector_Product(%s,%s)' % (un, un) in t and '2.0*' in t and '-' in t for t in rv)
        ok = okx and oka and bool(e1) and e1set and bool(us) and norm and okq
        detail = 'x=%s alpha=%s e1=%s(set %s) u=%s normalised=%s Q=%s' % (okx, oka, bool(e1), e1set, bool(us), norm, okq)
    ctx.decide('C15.a', 'Householder:reflector', fn, ok, 'I - 2 u u^T with u = normalised(x - Sign(|x|,-x0) e1)', 'reflector construction not recognised: ' + detail)
    probs = []
    for o in other:
        conds = o.state.conds
        exact = all(isinstance(c, sp.Equality) and (c.rhs == 0 or c.lhs == 0) for c in conds) and conds
        if not exact:
            probs.append('a path under `%s` returns %s instead of the reflector: QR_Decomposition zeroes the sub-column regardless, so Q*R != M for '
                         'columns that are only approximately reduced' % (' and '.join(str(c)[:80] for c in conds), str(o.value)[:60]))
    ctx.decide('C15.a', 'Householder:every-path', fn, not probs, 'the reflector is returned on every path (%d exceptional exact-degeneracy paths)' % len(other),
               '; '.join(probs), witness={'paths': probs} if probs else None)


def qr(prog, ctx):
    R = 'C15.b'
    fn = prog.fn(L + 'QR_Decomposition')
    loops = [s for s in fn.body['body'] if s['k'] == 'For']
    if len(loops) != 1:
        ctx.undecided(R, 'QR:sweep', fn, 'sweep loop not found')
        return
    lp = loops[0]
    iv = lp['init']['decls'][0]['name']
    body = lp['body']['body']
    decl = {}
    asg = []
    for s in body:
        if s['k'] == 'Decl':
            for d in s['decls']:
                decl[d['name']] = show(unwrap(d['init'])).replace(' ', '') if d.get('init') is not None else None
        if s['k'] == 'Expr':
            e = strip(s['e'])
            if e.get('k') == 'Bin' and e['op'] == '=':
                asg.append((show(e['lhs']).replace(' ', ''), show(unwrap(e['rhs'])).replace(' ', '')))
    # names by role
    refl = [n for n, t in decl.items() if t and t.startswith('Householder_Matrix(')]
    if len(refl) != 1:
        ctx.undecided(R, 'QR:sweep', fn, 'reflector of the current sub-matrix not found')
        return
    ps = refl[0]
    sub = decl[ps][len('Householder_Matrix('):-1]
    okupd = ('%s' % sub, '(%s*%s)' % (ps, sub)) in asg and (sub, '%s.Sub_Matrix(0,0)' % sub) in asg and \
        asg.index((sub, '(%s*%s)' % (ps, sub))) < asg.index((sub, '%s.Sub_Matrix(0,0)' % sub))
    ctx.decide(R, 'QR:submatrix', fn, okupd, 'the working sub-matrix is reflected and then reduced by its first row and column', 'sub-matrix updates: %s' % asg[:3])
    # embedded reflector: the matrix built from a 2x2 list of blocks
    okemb = False
    pn = None
    blocks = None
    for s in body:
        if s['k'] != 'Decl':
            continue
        for d in s['decls']:
            if d.get('init') is None or d['ty'] != L + 'Matrix':
                continue
            leaves = []
            for n_ in walk_expr(d['init']):
                if n_.get('k') == 'Call' and (n_.get('callee') or {}).get('q') == L + 'Identity_Matrix':
                    leaves.append('I(%s)' % show(strip_casts(n_['args'][0])).replace(' ', ''))
                elif n_.get('k') == 'Ref' and n_.get('ty') == L + 'Matrix' and n_.get('rk') == 'local':
                    leaves.append(n_['name'])
            if len(leaves) == 4 and leaves[0].startswith('I('):
                blocks = leaves
                pn = d['name']
    if blocks:
        z1, z2 = blocks[1], blocks[2]
        s1, s2 = decl.get(z1) or '', decl.get(z2) or ''
        # Zero_1 is i x (n-i), Zero_2 is (n-i) x i, bottom-right block is the reflector of the sub-matrix
        okemb = blocks[0] == 'I(%s)' % iv and blocks[3] == ps and s1.replace(' ', '').startswith('Matrix(%s,' % iv) and \
            s2.replace(' ', '').endswith(',%s,0.0)' % iv) and s1.split(',')[1] == s2.split('(')[1].split(',')[0]
    emb = {pn: blocks}
    ctx.decide(R, 'QR:embedding', fn, okemb, 'P = [[I_i, 0],[0, reflector]] with conforming zero blocks', 'embedded reflector not recognised: %s' % emb)
    if pn:
        rn = [l for l, r in asg if r == '(%s*%s)' % (pn, l)]
        qn = [l for l, r in asg if r == '(%s*%s)' % (l, pn)]
        okapp = len(rn) == 1 and len(qn) == 1 and rn[0] != qn[0]
        rets = [s for s in fn.body['body'] if s['k'] == 'Return']
        rt = show(rets[0]['e']).replace(' ', '') if rets else ''
        okapp = okapp and (rt.endswith('{%s,%s}' % (qn[0], rn[0])) or ('%s,%s' % (qn[0], rn[0])) in rt) if okapp else False
        ctx.decide(R, 'QR:application', fn, okapp, 'R <- P R and Q <- Q P with the same P; (Q, R) returned in this order',
                   'the embedded reflector is applied as %s / %s, returned %s' % (rn, qn, rt))
        # zeroing
        zl = [s for s in body if s['k'] == 'For']
        okz = False
        if len(zl) == 1 and rn:
            z = zl[0]
            jv = z['init']['decls'][0]['name']
            lo = show(strip_casts(z['init']['decls'][0]['init'])).replace(' ', '')
            hi = show(z['cond']).replace(' ', '')
            w = [show(strip(e)).replace(' ', '') for x in walk_stmts(z['body']) for e in stmt_exprs(x)]
            okz = lo == '%s+1' % iv and hi == '%s<m' % jv and w == ['%s[%s][%s]=0.0' % (rn[0], jv, iv)]
        ctx.decide(R, 'QR:zeroing', fn, okz, 'entries below the diagonal of column i are set to zero after the reflection', 'zeroing loop not recognised')


def eigenvalues(prog, ctx):
    R = 'C15.c'
    fn = prog.fn(L + 'Eigenvalues')
    asg = [(show(e['lhs']).replace(' ', ''), show(unwrap(e['rhs'])).replace(' ', '')) for e in all_exprs(fn) if e.get('k') == 'Bin' and e['op'] == '=']
    oksim = any(r in ('(qr.second*qr.first)',) for l, r in asg)
    ctx.decide(R, 'Eigenvalues:similarity', fn, oksim, 'A <- R Q', 'similarity step not recognised: %s' % [a for a in asg if 'qr' in a[1]])
    # convergence measure: both accumulators add absolute values
    accs = [(show(e['lhs']).replace(' ', ''), strip_casts(e['rhs'])) for e in all_exprs(fn) if e.get('k') == 'Bin' and e['op'] == '+=']
    tests = [s for s in walk_stmts(fn.body) if s['k'] == 'If' and strip(s['cond']).get('k') == 'Bin' and strip(s['cond'])['op'] in ('<', '<=')
             and strip_casts(strip(s['cond'])['lhs']).get('k') == 'Bin' and strip_casts(strip(s['cond'])['lhs'])['op'] == '/']
    probs = []
    if len(tests) != 1:
        probs.append('convergence test ratio < tolerance not found')
    else:
        ratio = strip_casts(strip(tests[0]['cond'])['lhs'])
        num, den = show(ratio['lhs']).replace(' ', ''), show(ratio['rhs']).replace(' ', '')
        for nm, role, want_ix in ((num, 'numerator', 'off'), (den, 'denominator', 'diag')):
            adds = [r for l, r in accs if l == nm]
            if not adds:
                probs.append('%s `%s` is not accumulated' % (role, nm))
                continue
            for r in adds:
                if not (r.get('k') == 'Call' and (r.get('callee') or {}).get('name') in ('fabs', 'abs')):
                    probs.append('the %s `%s` of the convergence measure adds %s, not an absolute value: with a negative trace the ratio is negative and '
                                 'the test passes before convergence' % (role, nm, show(r)))
                else:
                    ix = show(r['args'][0]).replace(' ', '')
                    if want_ix == 'diag' and not (ix.endswith('[j][j]') or ix.endswith('[k][k]') or ix.endswith('[i][i]')):
                        probs.append('denominator sums %s, not the diagonal' % ix)
    ctx.decide(R, 'Eigenvalues:convergence-measure', fn, not probs, 'sum |sub-diagonal| / sum |diagonal| < tolerance', '; '.join(probs),
               witness={'reproducer': 'a symmetric matrix with negative trace: unconverged diagonals are returned after 12 sweeps'} if probs else None)
    wr = G.find_wrappers(prog)
    sites = G.exit_sites(prog, fn, wr)
    loops = [s for s in fn.body['body'] if s['k'] == 'For']
    okcap = len(sites) == 1 and len(loops) == 1
    ctx.decide(R, 'Eigenvalues:cap', fn, okcap, 'iteration cap with a diagnostic exit', 'cap/exit structure not recognised')


def loop_bound_kind(prog, fn, s):
    if s['k'] == 'RangeFor':
        return 'range'
    if s['k'] == 'For':
        sx = Symx(prog, fn)
        try:
            cl = sx.counted(s, State({}), allow_extra_inc=True)
        except Undecided:
            cl = None
        if cl:
            return 'counted'
        if s.get('cond') is None:
            # for(;;): bounded if the body tests a counter against a bound with an exit
            return None
    # while/do: look for an integer counter compared in the condition and incremented in the body
    cond = s.get('cond')
    if cond is not None:
        for n in walk_expr(cond):
            if n.get('k') == 'Ref' and n.get('ty') in ('int', 'unsigned int', 'long', 'unsigned long'):
                for e in all_exprs(s['body']):
                    if e.get('k') == 'Un' and e['op'] in ('++', '--') and strip(e['e']).get('id') == n.get('id'):
                        return 'counter'
                    if e.get('k') == 'Bin' and e['op'] in ('+=', '-=') and strip(e['lhs']).get('id') == n.get('id'):
                        return 'counter'
    return None


def bounded(prog, ctx):
    R = 'C15.d'
    es = prog.fn(L + 'Eigensystem')
    only = (L + 'Eigensystem', L + 'Eigenvectors', L + 'Eigenvalues', L + 'Find_Eigenvector_Rayleigh', L + 'QR_Decomposition', L + 'Householder_Matrix')
    for fn in sorted(closure(prog, es), key=lambda f: (f.file, f.line)):
        if fn.q not in only:
            continue
        ordinal = 0
        for s in walk_stmts(fn.body):
            if s['k'] not in ('For', 'While', 'Do', 'RangeFor'):
                continue
            ordinal += 1
            kind = loop_bound_kind(prog, fn, s)
            txt = show(s['cond']).replace(' ', '')[:40] if s.get('cond') is not None else s['k']
            inst = '%s:loop#%d:%s' % (fn.name, ordinal, s['k'].lower())
            if kind:
                ctx.holds(R, inst, fn, 'bounded (%s)' % kind, line=s['l'])
            else:
                ctx.violated(R, inst, fn, 'the loop `%s(%s)` exits only on a floating-point convergence test; no counter bounds it' % (s['k'].lower(), txt),
                             witness={'reproducer': 'Eigensystem on symmetric matrices whose Rayleigh iteration stagnates does not terminate'}, line=s['l'])


def inverse_iteration(prog, ctx):
    R = 'C15.e'
    fn = prog.fn(L + 'Find_Eigenvector_Rayleigh')
    invs = [c for c in calls(fn) if c.get('kind') == 'method' and c['callee']['q'] == L + 'Matrix::Inverse']
    if len(invs) != 1:
        ctx.undecided(R, 'Rayleigh:shift', fn, 'call of Inverse not found')
    else:
        obj = show(unwrap(invs[0]['obj'])).replace(' ', '')
        ev = fn.params[1]['name']
        mm = fn.params[0]['name']
        plain = obj in ('(%s-(%s*I))' % (mm, ev), '(%s-%s*I)' % (mm, ev), '%s-(%s*I)' % (mm, ev), '(%s-((%s*I)))' % (mm, ev))
        # is there a dominating test that keeps the call away from a singular argument?
        guarded = any(s['k'] == 'If' and ('Invertible' in show(s['cond']) or 'Determinant' in show(s['cond'])) for s in walk_stmts(fn.body))
        if plain and not guarded:
            ctx.violated(R, 'Rayleigh:singular-shift', fn, 'Inverse() - which exits on singular input - receives M - lambda*I with lambda the unperturbed value from '
                         'Eigenvalues(M): whenever an eigenvalue is computed exactly (diagonal, block-diagonal matrices) the process exits with '
                         '"Matrix is not invertible"', witness={'reproducer': 'Eigensystem(diag(2,1,0.5)) -> "Matrix is not invertible", exit 1'}, line=invs[0]['l'])
        else:
            ctx.holds(R, 'Rayleigh:singular-shift', fn, 'the shifted matrix is guarded or perturbed before inversion: %s' % obj)
    # fixed start vector / no loop-carried state between eigenvector searches
    es = prog.fn(L + 'Eigensystem')
    probs = []
    for lp in [s for s in walk_stmts(es.body) if s['k'] in ('RangeFor', 'For', 'While')]:
        body = lp['body']
        written = {}
        for e in all_exprs(body):
            if e.get('k') == 'Bin' and e['op'] in ('=', '+=', '-=', '*=') and strip(e['lhs']).get('k') == 'Ref' and strip(e['lhs']).get('rk') == 'local':
                written[strip(e['lhs'])['id']] = strip(e['lhs'])['name']
        inner = set(d['id'] for s in walk_stmts(body) if s['k'] == 'Decl' for d in s['decls'])
        carried = {i: n for i, n in written.items() if i not in inner}
        for c in calls(body):
            if (c.get('callee') or {}).get('q') == fn.q:
                for a in c['args']:
                    for n in walk_expr(a):
                        if n.get('k') == 'Ref' and n.get('id') in carried:
                            probs.append('the eigenvector search is started from `%s`, which carries the previous result into the next search: for a symmetric '
                                         'matrix that vector is orthogonal to the next eigenvector and the same eigenpair is returned again' % carried[n['id']])
    start = [d for d in local_decls(fn) if d['ty'] == L + 'Vector' and d.get('init') is not None]
    fixed = any(show(strip(d['init'])).replace(' ', '') in ('Vector(%s.Rows(),1.0)' % fn.params[0]['name'],) for d in start)
    if not fixed and not probs:
        # start vector comes from somewhere else: only acceptable if no caller passes loop-carried state (checked above)
        pass
    ctx.decide(R, 'Eigensystem:independent-searches', es, not probs, 'each eigenvector search is independent of the previous ones (fixed start vector: %s)' % fixed,
               '; '.join(sorted(set(probs))), witness={'reproducer': 'symmetric 3x3 matrix: lambda = {7.288, 7.288, 7.288} with three times the same vector'} if probs else None)

"""C15 - QR factors and eigenpairs satisfy their defining equations (structural clauses; two recorded findings)."""
import sympy as sp
from sympy import Symbol, Function, S
from ..ir import (AnalysisBroken, Undecided, show, strip, strip_casts, walk_stmts, stmt_exprs, walk_expr, calls,
                  all_exprs, local_decls)
from ..symx import Symx, State, Arr, is_zero, Sign2
from ..objterms import ObjSymx, canon
from .. import guards as G

L = 'libphysica::'


def unwrap(e):
    e = strip(e)
    while e.get('k') in ('Construct', 'Copy') and (e.get('args') or e.get('e')):
        e = strip(e['args'][0]) if e.get('k') == 'Construct' and len([a for a in e['args'] if a.get('k') != 'DefaultArg']) == 1 else (strip(e['e']) if e.get('k') == 'Copy' else e)
        if e.get('k') == 'Construct' and len([a for a in e['args'] if a.get('k') != 'DefaultArg']) != 1:
            break
    return e


def closure(prog, root):
    seen, todo = {}, [root]
    while todo:
        f = todo.pop()
        if f.sig in seen:
            continue
        seen[f.sig] = f
        for c in calls(f):
            cc = c.get('callee') or {}
            if cc.get('inrepo'):
                g = prog.by_sig(cc['sig'])
                if g is not None:
                    todo.append(g)
    return list(seen.values())


def check(prog, ctx):
    ctx.rule('C15.a', 'reflector: Householder_Matrix returns I - 2 u u^T with u the normalised x - alpha e1, alpha = Sign(|x|, -x0), on every path '
             '(an exceptional path is admissible only under an exact degeneracy test, not under a tolerance)', 2)
    ctx.rule('C15.b', 'QR loop invariant: in each sweep the same embedded reflector P (identity block of size i, zero blocks, reflector block of the '
             'current sub-matrix) is applied as R <- P R and Q <- Q P (P^2 = I keeps Q R invariant); then the entries below the diagonal of column i are zeroed', 4)
    ctx.rule('C15.c', 'QR iteration: A <- R Q (similarity), eigenvalues read from the diagonal, convergence measure = sum |sub-diagonal| / sum |diagonal| '
             '(both sums of absolute values), iteration cap with a diagnostic exit', 3)
    ctx.rule('C15.d', 'every iteration in the closure of Eigensystem is bounded: each loop is counted or tests a counter against a bound', 4)
    ctx.rule('C15.e', 'inverse iteration: the matrix handed to Inverse (which exits on singular input) is not M - lambda I with lambda an unperturbed '
             'computed eigenvalue; every eigenvector search starts from a fixed vector, not from a previously found eigenvector', 2)
    ctx.sub('householder', householder, prog, ctx)
    ctx.sub('qr', qr, prog, ctx)
    ctx.sub('eigenvalues', eigenvalues, prog, ctx)
    ctx.sub('bounded', bounded, prog, ctx)
    ctx.sub('inverse_iteration', inverse_iteration, prog, ctx)
    ctx.rule('C15.f', 'dependency: the reflector is built with Vector::Norm / Normalize, Outer_Vector_Product, Identity_Matrix, Matrix::operator* and '
             'Sub_Matrix and the block constructor; QR and the eigen routines inherit the obligations of C04 about those functions', 6)
    ctx.inherit('C04', lambda o: o.rule == 'C04.b' and o.instance in ('Vector::Norm', 'Vector::Normalize', 'Vector::Normalized', 'Outer_Vector_Product', 'Identity_Matrix',
                                                                        'Matrix::Product(Matrix)', 'Matrix::Sub_Matrix', 'Matrix(blocks)', 'Matrix::Return_Column', 'Vector::Dot'),
                'C15.f', 'QR_Decomposition and Eigenvalues')


def householder(prog, ctx):
    """C15.a on the normal form of the returned matrix (object-valued terms, lpv/objterms.py): independent of
    temporaries, statement order and of where the scalar stands in a product."""
    fn = prog.fn(L + 'Householder_Matrix')
    M = Symbol('obj:' + fn.params[0]['name'])
    F = lambda n: Function(n, real=True)
    x = F(L + 'Matrix::Return_Column')(M, 0)
    n = F(L + 'Vector::Size')(x)
    x0 = x.func(*(tuple(x.args) + (sp.Integer(0),)))
    alpha = Sign2(F(L + 'Vector::Norm')(x), -x0)
    e1 = F('UPD')(F('VFILL')(n, 0), 0, 1)
    u = F('op-:' + L + 'Vector::operator-')(x, F('op*:' + L + 'operator*')(alpha, e1))
    un = F(L + 'Vector::Normalize!')(u)
    want = F('op-:' + L + 'Matrix::operator-')(F(L + 'Identity_Matrix')(n), F('op*:' + L + 'operator*')(2, F(L + 'Outer_Vector_Product')(un, un)))
    want_c = canon(want)
    try:
        osx = ObjSymx(prog, fn)
        outs = osx.run()
    except Undecided as ex_:
        ctx.undecided('C15.a', 'Householder:reflector', fn, 'construction outside the understood fragment: %s' % ex_)
        return
    rets = [o for o in outs if o.kind == 'return']
    main, other = [], []
    for o in rets:
        try:
            same = canon(o.value) == want_c
        except Exception:
            same = False
        (main if same else other).append(o)
    if main:
        ctx.holds('C15.a', 'Householder:reflector', fn, 'I - 2 u u^T with u = normalised(x - Sign(|x|,-x0) e1), x the first column')
    else:
        # which ingredient differs?  compare the canonical trees of the closest returned value
        cand = [o for o in rets if isinstance(o.value, sp.Basic) and 'Outer_Vector_Product' in str(o.value)]
        if not cand:
            ctx.undecided('C15.a', 'Householder:reflector', fn, 'no returned value is built from Outer_Vector_Product: the construction is outside the understood fragment')
        else:
            got_c = canon(cand[0].value)
            ctx.violated('C15.a', 'Householder:reflector', fn, 'the returned matrix is not I - 2 u u^T with u = normalised(x - Sign(|x|,-x0) e1): %s' % tree_diff(want_c, got_c),
                         witness={'returned': str(cand[0].value)[:400], 'expected': str(want)[:400],
                                  'reproducer': 'QR_Decomposition({{3,1},{4,2}}): Q*R differs from M / Q is not orthogonal'})
        other = [o for o in other if o not in cand[:1]]
    probs = []
    for o in other:
        conds = o.state.conds
        exact = all(isinstance(c, sp.Equality) and (c.rhs == 0 or c.lhs == 0) for c in conds) and conds
        if not exact:
            probs.append('a path under `%s` returns %s instead of the reflector: QR_Decomposition zeroes the sub-column regardless, so Q*R != M for '
                         'columns that are only approximately reduced' % (' and '.join(str(c)[:80] for c in conds), str(o.value)[:60]))
    ctx.decide('C15.a', 'Householder:every-path', fn, not probs, 'the reflector is returned on every path (%d exceptional exact-degeneracy paths)' % len(other),
               '; '.join(probs), witness={'paths': probs} if probs else None)


def tree_diff(a, b, path='result'):
    """First place where two canonical trees differ, as text."""
    if a == b:
        return 'identical'
    if not isinstance(a, tuple) or not isinstance(b, tuple) or len(a) != len(b) or (a and b and a[0] != b[0] and isinstance(a[0], str)):
        return 'at %s: expected %s, found %s' % (path, short(a), short(b))
    for i, (x, y) in enumerate(zip(a, b)):
        if x != y:
            if isinstance(x, tuple) and isinstance(y, tuple):
                return tree_diff(x, y, '%s/%s' % (path, a[0] if isinstance(a[0], str) else i))
            return 'at %s: expected %s, found %s' % (path, short(x), short(y))
    return 'differ'


def short(t, n=160):
    s_ = str(t).replace('libphysica::', '')
    return s_ if len(s_) <= n else s_[:n] + '...'


def qr(prog, ctx):
    """C15.b on one iteration of the sweep, in object-valued terms."""
    R = 'C15.b'
    fn = prog.fn(L + 'QR_Decomposition')
    loops = [s for s in fn.body['body'] if s['k'] == 'For']
    if len(loops) != 1:
        ctx.undecided(R, 'QR:sweep', fn, 'sweep loop not found')
        return
    lp = loops[0]
    F = lambda n: Function(n, real=True)
    Mn = Symbol('obj:' + fn.params[0]['name'])
    try:
        osx = ObjSymx(prog, fn)
        sts = osx.states_at(fn, lp)
        if len(sts) != 1:
            raise Undecided('%d paths reach the sweep' % len(sts))
        st0 = sts[0]
        cl = osx.counted(lp, st0)
        if cl is None:
            raise Undecided('the sweep is not a counted loop')
        ivar, lo, hi = cl
        # roles by initial value and by what is returned: (Q, R) returned; Q starts as the identity, R and the working sub-matrix as M
        rets = [s for s in fn.body['body'] if s['k'] == 'Return']
        if len(rets) != 1:
            raise Undecided('single return after the sweep expected')
        rv = strip_casts(rets[0]['e'])
        names = [n_.get('id') for n_ in walk_expr(rv) if n_.get('k') == 'Ref' and n_.get('ty') == L + 'Matrix']
        if len(names) != 2:
            raise Undecided('the returned pair is not built from two matrices')
        qid, rid = names
        rows = F(L + 'Matrix::Rows')(Mn)
        cols = F(L + 'Matrix::Columns')(Mn)
        init_ok = canon(st0.env.get(qid)) == canon(F(L + 'Identity_Matrix')(rows)) and st0.env.get(rid) == Mn
        subs_ = [k_ for k_, v_ in st0.env.items() if v_ == Mn and k_ not in (rid,)]
        ctx.decide(R, 'QR:initial', fn, init_ok and len(subs_) == 1 and lo == 0 and hi == cols,
                   'Q = I_m, R = M, working sub-matrix = M; one sweep per column', 'initial values Q=%s R=%s sub-matrices=%d sweep=[%s,%s)'
                   % (short(st0.env.get(qid)), short(st0.env.get(rid)), len(subs_), lo, hi))
        if len(subs_) != 1:
            raise Undecided('working sub-matrix not identified')
        sid = subs_[0]
        # one iteration, statement by statement; the zeroing loop is looked at separately
        body = lp['body']['body'] if lp['body']['k'] == 'Compound' else [lp['body']]
        i = Symbol(ivar['name'] + '@it', integer=True, nonnegative=True)
        st = st0.fork()
        Qin, Rin, Sin = Symbol('arr:Q@in'), Symbol('arr:R@in'), Symbol('arr:S@in')
        st.env[qid], st.env[rid], st.env[sid], st.env[ivar['id']] = Qin, Rin, Sin, i
        inner = [s for s in body if s['k'] in ('For', 'While') and rid in osx.assigned_in(s)]      # the loop(s) storing into R: the zeroing
        # all paths of one sweep (a `continue` ends the sweep early); the zeroing loop is looked at separately
        rest_body = {'k': 'Compound', 'body': [s_ for s_ in body if s_ not in inner]}
        live, dn = osx.exec_loop_body(rest_body, [st])
        early = [o_ for o_ in dn if o_.kind == 'continue']
        if [o_ for o_ in dn if o_.kind not in ('continue',)]:
            raise Undecided('the sweep body breaks or exits')
        # a path that reaches the end of the sweep without having reduced the working sub-matrix is cut short just like an early continue
        class _P:
            pass
        for lv_ in list(live):
            if lv_.env.get(sid) == Sin or lv_.env.get(rid) == Rin:
                p_ = _P()
                p_.state = lv_
                early.append(p_)
                live.remove(lv_)
        if len(live) > 1 or (not live and not early):
            raise Undecided('the sweep body branches')
        for o_ in early:
            if o_.state.env.get(sid) == Sin or o_.state.env.get(rid) == Rin:
                ctx.violated(R, 'QR:submatrix', fn, 'under [%s] the sweep is cut short: the working sub-matrix is not reduced by its first row and column (and R/Q are not '
                             'updated), so every later sweep works on the wrong block while the zeroing loop hides the unreduced entries'
                             % ' and '.join(str(c_)[:100] for c_ in o_.state.conds[len(st.conds):]),
                             witness={'reproducer': 'QR of {{2,1,1},{0,3,4},{0,5,6}}: Q*R differs from M by O(1)'})
                return
        if early or not live:
            raise Undecided('the sweep has early-continue paths')
        env = live[0].env
    except Undecided as ex_:
        ctx.undecided(R, 'QR:sweep', fn, 'sweep outside the understood fragment: %s' % ex_)
        return
    H = F(L + 'Householder_Matrix')(Sin)
    mul = lambda a_, b_: F('op*:' + L + 'Matrix::operator*')(a_, b_)
    want_S = F(L + 'Matrix::Sub_Matrix')(mul(H, Sin), 0, 0)
    ctx.decide(R, 'QR:submatrix', fn, canon(env.get(sid)) == canon(want_S), 'the working sub-matrix is reflected and then reduced by its first row and column',
               'working sub-matrix becomes %s: %s' % (short(env.get(sid)), tree_diff(canon(want_S), canon(env.get(sid)))))
    # the embedded reflector: whatever multiplies R from the left
    Rout, Qout = env.get(rid), env.get(qid)
    P = None
    cr = canon(Rout) if isinstance(Rout, sp.Basic) else None
    if cr and cr[0] == 'mul' and cr[2] == canon(Rin):
        P = cr[1]
    n_i = cols - i
    zero = lambda r_, c_: F('FILL')(r_, c_, 0)
    want_P = [canon(F('BLOCKS')(sp.Tuple(sp.Tuple(F(L + 'Identity_Matrix')(i), zero(i, d_)), sp.Tuple(zero(d_, i), H)))) for d_ in (n_i, rows - i)]
    okP = P is not None and P in want_P
    ctx.decide(R, 'QR:embedding', fn, okP, 'P = [[I_i, 0],[0, reflector of the current sub-matrix]] with conforming zero blocks',
               'R is multiplied from the left by %s: %s' % (short(P), tree_diff(want_P[0], P) if P is not None else 'R <- P*R not found (R becomes %s)' % short(Rout)))
    okQ = P is not None and isinstance(Qout, sp.Basic) and canon(Qout) == ('mul', canon(Qin), P)
    ctx.decide(R, 'QR:application', fn, okQ, 'R <- P R and Q <- Q P with the same P (P^2 = I keeps Q R invariant); (Q, R) returned in this order',
               'Q becomes %s while R <- P*R with P = %s' % (short(Qout), short(P)))
    # zeroing of the sub-column: rows i+1..m-1 of column i of R, after the reflection
    okz = False
    detail = 'zeroing loop not found'
    if len(inner) == 1 and body.index(inner[0]) > max(body.index(s_) for s_ in body if s_ not in inner and any(
            x_.get('k') == 'Ref' and x_.get('id') == rid for e_ in stmt_exprs(s_) for x_ in walk_expr(e_)) or s_['k'] == 'Decl'):
        z = inner[0]
        try:
            zst = live[0].fork()
            zc = osx.counted(z, zst) if z['k'] == 'For' else None
            if zc is not None:
                jv, zlo, zhi = zc
                zst.env[jv['id']] = Symbol('j@z', integer=True)
                zst.env[rid] = Symbol('arr:R@z')
                zl, zd = osx.exec(z['body'], [zst])
                if not zd and len(zl) == 1:
                    rz = zl[0].env.get(rid)
                    want_z = F('UPD')(Symbol('arr:R@z'), Symbol('j@z', integer=True), i, 0)
                    others = [k_ for k_ in zl[0].env if zl[0].env[k_] is not zst.env.get(k_) and k_ not in (rid, jv['id'])]
                    okz = rz == want_z and sp.simplify(zlo - (i + 1)) == 0 and zhi in (rows, cols)
                    detail = 'loop over [%s,%s) writes %s' % (zlo, zhi, short(rz))
        except Undecided as ex_:
            detail = str(ex_)
    ctx.decide(R, 'QR:zeroing', fn, okz, 'entries below the diagonal of column i are set to zero after the reflection', 'zeroing of the sub-column not recognised: ' + detail)


def eigenvalues(prog, ctx):
    R = 'C15.c'
    fn = prog.fn(L + 'Eigenvalues')
    F = lambda n: Function(n, real=True)
    AU = sp.core.function.AppliedUndef
    loops = [s for s in fn.body['body'] if s['k'] in ('For', 'While')]
    try:
        if len(loops) != 1:
            raise Undecided('one iteration loop expected')
        osx = ObjSymx(prog, fn)
        sts = osx.states_at(fn, loops[0])
        if len(sts) != 1:
            raise Undecided('%d paths reach the iteration' % len(sts))
        entry, cond, live, done, n0 = osx.loop_step(loops[0], sts[0])
        # the iterated matrix: the matrix-typed variable carried by the loop
        mats = [k_ for k_, v_ in entry.items() if isinstance(v_, Arr) and any(
            d_['id'] == k_ and d_['ty'] == L + 'Matrix' for d_ in local_decls(fn))]
        if len(mats) != 1:
            raise Undecided('iterated matrix not identified (%d candidates)' % len(mats))
        aid = mats[0]
        Ain = Symbol('arr:' + str(entry[aid].name))
        QR = F(L + 'QR_Decomposition')(Ain)
        want_A = F('op*:' + L + 'Matrix::operator*')(F('.second')(QR), F('.first')(QR))
        outs_A = set(canon(p_.env.get(aid)) for p_ in live if isinstance(p_.env.get(aid), sp.Basic))
        ctx.decide(R, 'Eigenvalues:similarity', fn, outs_A == {canon(want_A)}, 'A <- R Q with (Q, R) the QR factors of the current A',
                   'the iterate becomes %s: %s' % ([short(p_.env.get(aid)) for p_ in live][:1], tree_diff(canon(want_A), sorted(outs_A, key=str)[0]) if outs_A else 'no matrix term'))
        Aout = want_A
        rets = [o for o in done if o.kind == 'return']
        if len(rets) != 1:
            raise Undecided('%d returning paths in one iteration' % len(rets))
        ro = rets[0]
        probs = []
        # convergence test on the returning path: sum |sub-diagonal| / sum |diagonal| < tolerance
        tests = [c_ for c_ in ro.state.conds[n0:] if isinstance(c_, (sp.StrictLessThan, sp.LessThan)) and c_.atoms(sp.Sum)]
        if len(tests) != 1:
            probs.append('convergence test ratio < tolerance not found')
        else:
            ratio, tol = tests[0].lhs, tests[0].rhs
            num, den = sp.fraction(sp.together(ratio))
            el = lambda r_, c_: Aout.func(*(tuple(Aout.args) + (r_, c_)))
            for nm, t_, want_kind in (('numerator', num, 'sub'), ('denominator', den, 'diag')):
                sums = [x_ for x_ in [t_] if isinstance(x_, sp.Sum)]
                if len(sums) != 1:
                    probs.append('%s of the convergence measure is %s, not a sum over matrix entries' % (nm, short(t_)))
                    continue
                body_, lims = sums[0].function, sums[0].limits
                if not (isinstance(body_, sp.Abs)):
                    probs.append('the %s of the convergence measure adds %s, not an absolute value: with a negative trace the ratio is negative and '
                                 'the test passes before convergence' % (nm, short(body_)))
                    continue
                ent = body_.args[0]
                if not (isinstance(ent, AU) and ent.func == Aout.func and tuple(ent.args[:len(Aout.args)]) == tuple(Aout.args) and len(ent.args) == len(Aout.args) + 2):
                    probs.append('%s sums %s, not entries of the iterate' % (nm, short(ent)))
                    continue
                r_, c_ = ent.args[-2:]
                rows_ = F(L + 'Matrix::Rows')(Aout)
                if want_kind == 'diag':
                    okd = r_ == c_ and len(lims) == 1 and lims[0][0] == r_ and lims[0][1] == 0 and sp.simplify(lims[0][2] - (rows_ - 1)) == 0
                    if not okd:
                        probs.append('denominator sums %s over %s, not the whole diagonal' % (short(ent), [str(l_) for l_ in lims]))
                else:
                    lim = {l_[0]: (l_[1], l_[2]) for l_ in lims}
                    oks = len(lims) == 2 and r_ in lim and c_ in lim and sp.simplify(lim[r_][0] - (c_ + 1)) == 0 and sp.simplify(lim[r_][1] - (rows_ - 1)) == 0 \
                        and lim[c_][0] == 0 and sp.simplify(lim[c_][1] - (rows_ - 1)) == 0
                    if not oks:
                        probs.append('numerator sums %s over %s, not the entries below the diagonal' % (short(ent), [str(l_) for l_ in lims]))
            if not (tol.is_number and 0 < float(tol) <= 1e-6):
                probs.append('tolerance is %s' % tol)
        # the returned values are the diagonal of the iterate
        rv = ro.value
        kk = Symbol('k', integer=True)
        if not (isinstance(rv, Arr) and rv.read((kk,)) == Aout.func(*(tuple(Aout.args) + (kk, kk)))):
            probs.append('the returned list is %s, not the diagonal of the iterate' % (short(rv.read((kk,))) if isinstance(rv, Arr) else short(rv)))
        ctx.decide(R, 'Eigenvalues:convergence-measure', fn, not probs, 'sum |sub-diagonal| / sum |diagonal| < tolerance, then the diagonal is returned', '; '.join(probs),
                   witness={'reproducer': 'a symmetric matrix with negative trace: unconverged diagonals are returned after 12 sweeps'} if probs else None)
    except Undecided as ex_:
        ctx.undecided(R, 'Eigenvalues:iteration', fn, 'QR iteration outside the understood fragment: %s' % ex_)
    wr = G.find_wrappers(prog)
    sites = G.exit_sites(prog, fn, wr)
    loops = [s for s in fn.body['body'] if s['k'] == 'For']
    okcap = len(sites) == 1 and len(loops) == 1
    ctx.decide(R, 'Eigenvalues:cap', fn, okcap, 'iteration cap with a diagnostic exit', 'cap/exit structure not recognised')


def loop_bound_kind(prog, fn, s):
    if s['k'] == 'RangeFor':
        return 'range'
    if s['k'] == 'For':
        sx = Symx(prog, fn)
        try:
            cl = sx.counted(s, State({}), allow_extra_inc=True)
        except Undecided:
            cl = None
        if cl:
            return 'counted'
        if s.get('cond') is None:
            # for(;;): bounded if the body tests a counter against a bound with an exit
            return None
    # while/do: look for an integer counter compared in the condition and incremented in the body
    cond = s.get('cond')
    if cond is not None:
        for n in walk_expr(cond):
            if n.get('k') == 'Ref' and n.get('ty') in ('int', 'unsigned int', 'long', 'unsigned long'):
                for e in all_exprs(s['body']):
                    if e.get('k') == 'Un' and e['op'] in ('++', '--') and strip(e['e']).get('id') == n.get('id'):
                        return 'counter'
                    if e.get('k') == 'Bin' and e['op'] in ('+=', '-=') and strip(e['lhs']).get('id') == n.get('id'):
                        return 'counter'
    return None


def bounded(prog, ctx):
    R = 'C15.d'
    es = prog.fn(L + 'Eigensystem')
    only = (L + 'Eigensystem', L + 'Eigenvectors', L + 'Eigenvalues', L + 'Find_Eigenvector_Rayleigh', L + 'QR_Decomposition', L + 'Householder_Matrix')
    for fn in sorted(closure(prog, es), key=lambda f: (f.file, f.line)):
        if fn.q not in only:
            continue
        ordinal = 0
        for s in walk_stmts(fn.body):
            if s['k'] not in ('For', 'While', 'Do', 'RangeFor'):
                continue
            ordinal += 1
            kind = loop_bound_kind(prog, fn, s)
            txt = show(s['cond']).replace(' ', '')[:40] if s.get('cond') is not None else s['k']
            inst = '%s:loop#%d:%s' % (fn.name, ordinal, s['k'].lower())
            if kind:
                ctx.holds(R, inst, fn, 'bounded (%s)' % kind, line=s['l'])
            else:
                ctx.violated(R, inst, fn, 'the loop `%s(%s)` exits only on a floating-point convergence test; no counter bounds it' % (s['k'].lower(), txt),
                             witness={'reproducer': 'Eigensystem on symmetric matrices whose Rayleigh iteration stagnates does not terminate'}, line=s['l'])


def inverse_iteration(prog, ctx):
    R = 'C15.e'
    fn = prog.fn(L + 'Find_Eigenvector_Rayleigh')
    invs = [c for c in calls(fn) if c.get('kind') == 'method' and c['callee']['q'] == L + 'Matrix::Inverse']
    if len(invs) != 1:
        ctx.undecided(R, 'Rayleigh:shift', fn, 'call of Inverse not found')
    else:
        obj = show(unwrap(invs[0]['obj'])).replace(' ', '')
        ev = fn.params[1]['name']
        mm = fn.params[0]['name']
        plain = obj in ('(%s-(%s*I))' % (mm, ev), '(%s-%s*I)' % (mm, ev), '%s-(%s*I)' % (mm, ev), '(%s-((%s*I)))' % (mm, ev))
        # is there a dominating test that keeps the call away from a singular argument?
        guarded = any(s['k'] == 'If' and ('Invertible' in show(s['cond']) or 'Determinant' in show(s['cond'])) for s in walk_stmts(fn.body))
        if plain and not guarded:
            ctx.violated(R, 'Rayleigh:singular-shift', fn, 'Inverse() - which exits on singular input - receives M - lambda*I with lambda the unperturbed value from '
                         'Eigenvalues(M): whenever an eigenvalue is computed exactly (diagonal, block-diagonal matrices) the process exits with '
                         '"Matrix is not invertible"', witness={'reproducer': 'Eigensystem(diag(2,1,0.5)) -> "Matrix is not invertible", exit 1'}, line=invs[0]['l'])
        else:
            ctx.holds(R, 'Rayleigh:singular-shift', fn, 'the shifted matrix is guarded or perturbed before inversion: %s' % obj)
    # fixed start vector / no loop-carried state between eigenvector searches
    es = prog.fn(L + 'Eigensystem')
    probs = []
    for lp in [s for s in walk_stmts(es.body) if s['k'] in ('RangeFor', 'For', 'While')]:
        body = lp['body']
        written = {}
        for e in all_exprs(body):
            if e.get('k') == 'Bin' and e['op'] in ('=', '+=', '-=', '*=') and strip(e['lhs']).get('k') == 'Ref' and strip(e['lhs']).get('rk') == 'local':
                written[strip(e['lhs'])['id']] = strip(e['lhs'])['name']
        inner = set(d['id'] for s in walk_stmts(body) if s['k'] == 'Decl' for d in s['decls'])
        carried = {i: n for i, n in written.items() if i not in inner}
        for c in calls(body):
            if (c.get('callee') or {}).get('q') == fn.q:
                for a in c['args']:
                    for n in walk_expr(a):
                        if n.get('k') == 'Ref' and n.get('id') in carried:
                            probs.append('the eigenvector search is started from `%s`, which carries the previous result into the next search: for a symmetric '
                                         'matrix that vector is orthogonal to the next eigenvector and the same eigenpair is returned again' % carried[n['id']])
    start = [d for d in local_decls(fn) if d['ty'] == L + 'Vector' and d.get('init') is not None]
    fixed = any(show(strip(d['init'])).replace(' ', '') in ('Vector(%s.Rows(),1.0)' % fn.params[0]['name'],) for d in start)
    if not fixed and not probs:
        # start vector comes from somewhere else: only acceptable if no caller passes loop-carried state (checked above)
        pass
    ctx.decide(R, 'Eigensystem:independent-searches', es, not probs, 'each eigenvector search is independent of the previous ones (fixed start vector: %s)' % fixed,
               '; '.join(sorted(set(probs))), witness={'reproducer': 'symmetric 3x3 matrix: lambda = {7.288, 7.288, 7.288} with three times the same vector'} if probs else None)

"""C19 - partition, grid, search, list and summary-statistics helpers (structural clauses)."""
import itertools
import sympy as sp
from sympy import Symbol, Function, S, Sum
from ..ir import (AnalysisBroken, Undecided, show, strip, strip_casts, walk_stmts, stmt_exprs, walk_expr, calls,
                  all_exprs)
from ..symx import Symx, State, Arr, is_zero
from .. import guards as G

L = 'libphysica::'
UMAX = 4294967295


def check(prog, ctx):
    ctx.rule('C19.a', 'grids end where asked: Linear_Space element i is min+i*(max-min)/(steps-1), Log_Space exp(log min+i*log(max/min)/(steps-1)), '
             'i=0..steps-1 (so the last element is max identically); both return {min} iff steps<2 or min==max', 4)
    ctx.rule('C19.b', 'list templates by schema (type-checked instantiations): Lists_Equal, Combine_Lists, Transpose_Lists, Flatten_List, '
             'List_Contains, Find_Indices; Sub_List: on the complete table of (i1,i2,size) the copied range [i1\', i2\'+1) lies inside the list and '
             'equals the elements i1..i2 clipped to the list', 7)
    ctx.rule('C19.c', 'summary statistics: mean = sum/size, variance = sum (x-mean)^2/(size-1), standard deviation = sqrt(variance), weighted '
             'average = sum wx/sum w and its Cochran error reduces to s^2/N for equal weights; Median selects by nth_element at size/2 '
             '(and size/2-1, each read right after its own selection)', 5)
    ctx.rule('C19.d', 'Workload_Distribution: the closed form of the returned index list (from the loop summaries) has workers+1 entries, starts '
             'at 0, ends at tasks, is non-decreasing and its consecutive differences differ by at most one - on the complete domain '
             '1<=workers<=128, 0<=tasks<=1024', 1)
    ctx.rule('C19.e', 'Range(min,max,step) enumerates min, min+-step, ... strictly before max, descending exactly when min>max: the summary of the '
             'returned list (element k and length as terms in min,max,step; a strided loop has ceil(|max-min|/step) iterations) equals the stated '
             'half-open range on the complete domain min,max in [-40,40], step 1..40; when no closed form is obtained, the two enumeration loops are '
             'checked by shape (ascending with i<max, descending with i>max exactly when min>max and step>0); Range(max) = Range(0,max,1)', 2)
    ctx.rule('C19.f', 'Locate_Closest_Location: with u = upper_bound position in the sorted list the function returns 0 for u=0, size-1 for u=size, '
             'and otherwise whichever of u-1, u is nearer to the target (either on a tie); unsorted input is rejected', 2)
    ctx.sub('grids', grids, prog, ctx)
    ctx.sub('sub_list', sub_list, prog, ctx, 'C19.b')
    ctx.sub('lists', lists, prog, ctx)
    ctx.sub('stats', stats, prog, ctx)
    ctx.sub('workload', workload, prog, ctx)
    ctx.sub('int_range', int_range, prog, ctx)
    ctx.sub('closest', closest, prog, ctx)


def grids(prog, ctx):
    for name, elem in (('Linear_Space', lambda mn, mx, n, i: mn + i * (mx - mn) / (n - 1)),
                       ('Log_Space', lambda mn, mx, n, i: sp.exp(sp.log(mn) + i * sp.log(mx / mn) / (n - 1)))):
        fn = prog.fn(L + name)
        sx = Symx(prog, fn)
        outs = sx.run()
        mn, mx = sx.symbol(fn.params[0]['name'], 'double'), sx.symbol(fn.params[1]['name'], 'double')
        n = sx.symbol(fn.params[2]['name'], 'unsigned int')
        main = [o for o in outs if o.kind == 'return' and isinstance(o.value, Arr) and o.value.length is not None and o.value.length.has(n)]
        triv = [o for o in outs if o.kind == 'return' and o not in main]
        ok = len(main) == 1
        detail = ''
        if ok:
            k = Symbol('k', integer=True)
            v = main[0].value
            got = v.read((k,))
            want = elem(mn, mx, n, k)
            ok = is_zero(sp.simplify(got - want)) and sp.simplify(v.length - n) == 0
            detail = 'element k = %s, length %s' % (got, v.length)
            last = sp.simplify(sp.expand_log(got.subs(k, n - 1) - mx, force=True))
            ok = ok and last == 0
        ctx.decide('C19.a', name + ':elements', fn, ok, 'elements follow the definition and the last one is max identically: ' + detail,
                   'grid elements differ from the definition: ' + detail, form=detail)
        # trivial branch predicate
        rows = list(G.product_rows(steps=[0, 1, 2, 3, UMAX], min=[-1.0, 0.5, 2.0], max=[-1.0, 0.5, 2.0, 7.0]))
        bad = []
        for r in rows:
            sel = [o for o in outs if o.cond.subs({n: r['steps'], mn: r['min'], mx: r['max']}) == S.true]
            want_triv = r['steps'] < 2 or r['min'] == r['max']
            if len(sel) != 1 or (sel[0] in triv) != want_triv:
                bad.append(r)
        tv = True
        for o in triv:
            v = o.value
            tv = tv and ((isinstance(v, Arr) and v.length == 1 and v.read((sp.Integer(0),)) == mn) or v == sp.Tuple(mn))
        ctx.decide('C19.a', name + ':degenerate', fn, not bad and tv and len(triv) >= 1, 'returns {min} iff steps<2 or min==max',
                   'degenerate-case predicate differs on rows %s (returns {min}: %s)' % (bad[:3], tv))


def sub_list(prog, ctx, rule):
    fn = prog.fn(L + 'Sub_List')
    # the statement that constructs the copied range from two pointers / iterators
    target = []
    for s in walk_stmts(fn.body):
        if s['k'] == 'Decl':
            for d in s['decls']:
                i = strip(d.get('init')) if d.get('init') is not None else None
                if i is not None and i.get('k') == 'Construct' and i['q'].startswith('std::vector') and len([a for a in i['args'] if a.get('k') != 'DefaultArg']) == 2:
                    target.append((s, d, i))
        if s['k'] == 'Return' and s.get('e') is not None:
            i = strip(s['e'])
            if i.get('k') == 'Construct' and i['q'].startswith('std::vector') and len([a for a in i['args'] if a.get('k') != 'DefaultArg']) == 2:
                target.append((s, None, i))
    if len(target) != 1:
        ctx.undecided(rule, 'Sub_List:range', fn, 'expected one construction of the result from a pointer range, found %d' % len(target))
        return
    stmt, decl, cons = target[0]
    vname = fn.params[0]['name']

    def ptr_index(e, row):
        """&v[k] (+ c) -> k + c"""
        e = strip_casts(e)
        if e.get('k') == 'Bin' and e['op'] in ('+', '-'):
            base = ptr_index(e['lhs'], row)
            off = G.CEval(prog, row).ev(e['rhs'])
            return base + off if e['op'] == '+' else base - off
        if e.get('k') == 'Un' and e['op'] == '&':
            ix = strip_casts(e['e'])
            if ix.get('k') == 'Index' and strip(ix['base']).get('name') == vname:
                return G.CEval(prog, row).ev(ix['idx'])
        if e.get('k') == 'Call' and e.get('kind') == 'op' and e.get('op') in ('+', '-'):
            b = strip(e['args'][0])
            if b.get('k') == 'Call' and b['callee']['name'] in ('begin', 'cbegin'):
                off = G.CEval(prog, row).ev(e['args'][1])
                return off if e['op'] == '+' else -off
        if e.get('k') == 'Call' and e.get('kind') == 'method' and e['callee']['name'] in ('begin', 'cbegin'):
            return 0
        if e.get('k') == 'Call' and e.get('kind') == 'method' and e['callee']['name'] in ('end', 'cend'):
            return row['len(%s)' % vname]
        raise Undecided('range end: ' + show(e))

    bad = []
    nrows = 0
    p1, p2 = fn.params[1]['name'], fn.params[2]['name']
    try:
        for i1, i2, size in itertools.product([-3, -1, 0, 1, 2, 3, 4, 5], [0, 1, 2, 3, 4, 5, UMAX], [0, 1, 2, 3, 4]):
            row = {p1: i1, p2: i2, 'len(%s)' % vname: size}
            lo_spec, hi_spec = max(i1, 0), min(i2, size - 1)
            if size > 0 and lo_spec > hi_spec + 1:
                continue            # the statement is silent on reversed index pairs
            if size > 0 and lo_spec > size - 1:
                continue
            nrows += 1
            ex = G.RowExec(prog, fn, row, lambda s: s is stmt)
            r = ex.run()
            if r is None:
                bad.append((row, 'falls off the end'))
                continue
            kind, s = r
            if kind == 'exit':
                bad.append((row, 'exits'))
                continue
            if kind == 'return':
                v = strip(s.get('e')) if s.get('e') is not None else None
                empty = v is not None and v.get('k') in ('Construct', 'InitList', 'Copy') and not [a for a in walk_expr(v) if a.get('k') in ('Ref', 'Index')]
                if not (empty and (size == 0 or lo_spec > hi_spec)):
                    bad.append((row, 'returns early with %s' % (show(v) if v else None)))
                continue
            args = [a for a in cons['args'] if a.get('k') != 'DefaultArg']
            lo = ptr_index(args[0], ex.row)
            hi = ptr_index(args[1], ex.row)
            if not (0 <= lo <= hi <= size):
                bad.append((row, 'copies [%s,%s) of a list of %d elements' % (lo, hi, size)))
            elif size > 0 and (lo, hi) != (lo_spec, hi_spec + 1):
                bad.append((row, 'copies [%s,%s), expected elements %d..%d' % (lo, hi, lo_spec, hi_spec)))
    except (Undecided, KeyError) as e:
        ctx.undecided(rule, 'Sub_List:range', fn, 'index prologue outside the understood fragment: %s' % e)
        return
    ctx.decide(rule, 'Sub_List:range', fn, not bad, 'on all %d rows the copied range is the clipped inclusive range i1..i2 and lies inside the list' % nrows,
               'Sub_List copies the wrong range on %d of %d rows, e.g. %s' % (len(bad), nrows, bad[:2]),
               witness={'row': {k: str(v) for k, v in bad[0][0].items()}, 'what': bad[0][1],
                        'reproducer': 'Sub_List({1,2,3},0,3) has 4 elements (heap-buffer-overflow under ASan)'} if bad else None)


def lists(prog, ctx):
    R = 'C19.b'
    k, k2 = sp.symbols('k k2', integer=True)
    # Transpose_Lists(list of lists)
    fn = prog.fn(L + 'Transpose_Lists', 1)
    sx = Symx(prog, fn)
    outs = [o for o in sx.run() if o.kind == 'return']
    ok = False
    got = None
    # the empty list of lists may be answered on a path of its own (its transpose is empty)
    nlen = sp.Symbol('len(lists)', integer=True, nonnegative=True)

    def empty_case(o):
        cs_ = list(o.cond.args) if isinstance(o.cond, sp.And) else [o.cond]
        is_empty = (isinstance(o.value, Arr) and not o.value.defs and o.value.length in (0, sp.Integer(0))) or \
            (isinstance(o.value, sp.Basic) and str(o.value) in ('new:std::vector()', 'InitList()', '0')) or \
            (isinstance(o.value, Arr) and o.value.length in (0, sp.Integer(0)))
        return any(c_ == sp.Eq(nlen, 0) for c_ in cs_) and is_empty
    main_ = [o for o in outs if not empty_case(o)]
    if len(main_) == 1 and isinstance(main_[0].value, Arr):
        got = main_[0].value.read((k, k2))
        ok = is_zero(got - Function('lists', real=True)(k2, k))
    ctx.decide(R, 'Transpose_Lists', fn, ok, 'result[j][i] = lists[i][j]', 'Transpose_Lists element is %s' % got, form=str(got))
    # Lists_Equal: false iff sizes differ or some element differs
    def one_loop(fn):
        loops = [s for s in walk_stmts(fn.body) if s['k'] == 'For']
        if len(loops) != 1 or loops[0]['init']['k'] != 'Decl':
            return None
        lv = loops[0]['init']['decls'][0]['name']
        cl = Symx(prog, fn).counted(loops[0], State({}))
        return lv, cl

    le = prog.fn(L + 'Lists_Equal', 2, pred=lambda f: f.params[0]['ty'] == 'std::vector<double>')
    a0, a1 = le.params[0]['name'], le.params[1]['name']
    f = G.bool_summary(prog, le)
    txt = G.f_show(f).replace(' ', '')
    ol = one_loop(le)
    if ol is None or ol[1] is None:
        ctx.undecided(R, 'Lists_Equal', le, 'single counted loop not found')
    else:
        lv, cl = ol
        sizes = ('%s.size()!=%s.size()' % (a0, a1) in txt) or ('%s.size()!=%s.size()' % (a1, a0) in txt)
        elems = ('%s[%s]!=%s[%s]' % (a0, lv, a1, lv) in txt) or ('%s[%s]!=%s[%s]' % (a1, lv, a0, lv) in txt)
        whole = cl[1] == 0 and str(cl[2]) in ('len(%s)' % a0, 'len(%s)' % a1)
        ctx.decide(R, 'Lists_Equal', le, sizes and elems and whole and txt.count('EXISTS') == 1,
                   'true iff equal sizes and no differing element over the whole list', 'Lists_Equal is true iff %s (loop %s..%s)' % (G.f_show(f), cl[1], cl[2]),
                   form=G.f_show(f))
    lc = prog.fn(L + 'List_Contains', pred=lambda f: f.params[0]['ty'] == 'std::vector<double>')
    a0, a1 = lc.params[0]['name'], lc.params[1]['name']
    f = G.bool_summary(prog, lc)
    txt = G.f_show(f).replace(' ', '')
    ol = one_loop(lc)
    found = None
    if ol is None or ol[1] is None:
        # the standard-algorithm form: std::find over the whole list compared with end()
        try:
            o_ = [o for o in Symx(prog, lc).run()]
        except Undecided:
            o_ = []
        if len(o_) == 1 and o_[0].kind == 'return' and isinstance(o_[0].value, sp.core.function.AppliedUndef) and o_[0].value.func.__name__.startswith('op!='):
            fa = [a_ for a_ in o_[0].value.args if isinstance(a_, sp.core.function.AppliedUndef) and a_.func.__name__ == 'std::find']
            en = [a_ for a_ in o_[0].value.args if str(a_) == 'm:%s.end()' % a0]
            if len(fa) == 1 and len(en) == 1:
                found = [str(x_) for x_ in fa[0].args] == ['m:%s.begin()' % a0, 'm:%s.end()' % a0, a1]
    if found is not None:
        ctx.decide(R, 'List_Contains', lc, found, 'std::find over the whole list differs from end() iff some element equals the value',
                   'std::find does not search the whole list for the value')
    elif ol is None or ol[1] is None:
        ctx.undecided(R, 'List_Contains', lc, 'single counted loop not found')
    else:
        lv, cl = ol
        ok = ('%s[%s]==%s' % (a0, lv, a1) in txt or '%s==%s[%s]' % (a1, a0, lv) in txt) and cl[1] == 0 and str(cl[2]) == 'len(%s)' % a0 and txt.startswith('EXISTS')
        ctx.decide(R, 'List_Contains', lc, ok, 'true iff some element of the whole list equals the value',
                   'List_Contains is true iff %s (loop %s..%s)' % (G.f_show(f), cl[1], cl[2]), form=G.f_show(f))
    fi = prog.fn(L + 'Find_Indices', pred=lambda f: f.params[0]['ty'] == 'std::vector<double>')
    a0, a1 = fi.params[0]['name'], fi.params[1]['name']
    ol = one_loop(fi)
    pb = [c_ for c_ in calls(fi) if c_.get('kind') == 'method' and c_['callee']['name'] == 'push_back']
    ifs = [s for s in walk_stmts(fi.body) if s['k'] == 'If']
    if ol is None or ol[1] is None or len(pb) != 1 or len(ifs) != 1:
        ctx.undecided(R, 'Find_Indices', fi, 'loop/condition/push_back pattern not found')
    else:
        lv, cl = ol
        ct = show(ifs[0]['cond']).replace(' ', '')
        ok = cl[1] == 0 and str(cl[2]) == 'len(%s)' % a0 and show(strip_casts(pb[0]['args'][0])) == lv and \
            ct in ('%s[%s]==%s' % (a0, lv, a1), '%s==%s[%s]' % (a1, a0, lv))
        ctx.decide(R, 'Find_Indices', fi, ok, 'collects every index i with v[i]==value over the whole list',
                   'Find_Indices collects `%s` when %s over [%s,%s)' % (show(pb[0]['args'][0]), ct, cl[1], cl[2]))
    # Combine_Lists / Flatten_List: insert(end, begin, end) of every part, in order
    def insert_call(fn):
        sx_ = Symx(prog, fn)
        st_ = State({})
        ins = [c_ for c_ in calls(fn) if c_.get('kind') == 'method' and c_['callee']['name'] == 'insert']
        if len(ins) != 1:
            return None
        its = []
        for a_ in ins[0]['args']:
            a_ = strip(a_)
            while a_.get('k') in ('Construct', 'Copy') and a_.get('args', [a_.get('e')]):
                a_ = strip(a_['args'][0]) if a_.get('k') == 'Construct' else strip(a_['e'])
            its.append(sx_.iterator(a_, st_))
        return ins[0], its

    cb = prog.fn(L + 'Combine_Lists')
    r = insert_call(cb)
    d0 = [d for s in walk_stmts(cb.body) if s['k'] == 'Decl' for d in s['decls']]
    p0, p1 = cb.params[0]['name'], cb.params[1]['name']
    if r is None or None in r[1] or len(d0) != 1:
        ctx.undecided(R, 'Combine_Lists', cb, 'insert(end, begin, end) pattern not found')
    else:
        call, its = r
        res = d0[0]['name']
        ok = d0[0].get('init') is not None and show(strip(d0[0]['init'])) == p0 and sx_name(call['obj']) == res and \
            its[0][0] == res and str(its[0][1]) == 'len(%s)' % res and its[1] == (p1, 0) and its[2][0] == p1 and str(its[2][1]) == 'len(%s)' % p1
        ctx.decide(R, 'Combine_Lists', cb, ok, 'v1 followed by all of v2', 'Combine_Lists is not v1 followed by all of v2: %s' % (its,))
    fl = prog.fn(L + 'Flatten_List')
    r = insert_call(fl)
    loops = [s for s in walk_stmts(fl.body) if s['k'] == 'For']
    if r is None or None in r[1] or len(loops) != 1:
        ctx.undecided(R, 'Flatten_List', fl, 'insert(end, begin, end) in one loop not found')
    else:
        call, its = r
        sx_ = Symx(prog, fl)
        cl = sx_.counted(loops[0], State({}))
        pv = fl.params[0]['name']
        lv = loops[0]['init']['decls'][0]['name']
        row = '%s[%s]' % (pv, lv)
        ok = cl is not None and cl[1] == 0 and str(cl[2]) == 'len(%s)' % pv and its[1] == (row, 0) and its[2][0] == row and \
            str(its[2][1]) == 'len(%s)' % row and str(its[0][1]).startswith('len(')
        ctx.decide(R, 'Flatten_List', fl, ok, 'concatenation of all rows in order', 'Flatten_List does not append every whole row: %s' % (its,))


def sx_name(e):
    e = strip(e)
    return e.get('name') if e.get('k') == 'Ref' else show(e)


def stats(prog, ctx):
    R = 'C19.c'
    n = Symbol('len(data)', integer=True, nonnegative=True)
    D = Function('data', real=True)
    am = prog.fn(L + 'Arithmetic_Mean')
    sx = Symx(prog, am)
    outs = [o for o in sx.run() if o.kind == 'return']
    v = outs[0].value if len(outs) == 1 else None
    pn = am.params[0]['name']
    n = Symbol('len(%s)' % pn, integer=True, nonnegative=True)
    sums = list(v.atoms(sp.Sum)) if v is not None else []
    ok = False
    if len(sums) == 1 and len(sums[0].limits) == 1:
        iv, lo, hi = sums[0].limits[0]
        ok = is_zero(sums[0].function - Function(pn, real=True)(iv)) and lo == 0 and sp.simplify(hi - (n - 1)) == 0 and is_zero(v - sums[0] / n)
    n = Symbol('len(data)', integer=True, nonnegative=True)
    ctx.decide(R, 'Arithmetic_Mean', am, ok, 'sum of all elements (from 0.0) divided by the size', 'Arithmetic_Mean returns %s' % v, form=str(v))
    var = prog.fn(L + 'Variance')
    vn = var.params[0]['name']
    n = Symbol('len(%s)' % vn, integer=True, nonnegative=True)
    D = Function(vn, real=True)
    sx = Symx(prog, var)
    outs = [o for o in sx.run() if o.kind == 'return']
    v = outs[0].value if len(outs) == 1 else None
    ok = False
    if v is not None:
        Ms = [a for a in v.atoms(sp.core.function.AppliedUndef) if a.func.__name__ == L + 'Arithmetic_Mean']
        sums = list(v.atoms(sp.Sum))
        if len(Ms) == 1 and len(sums) == 1 and str(Ms[0].args[0]) in (vn, 'arr:' + vn):
            M = Ms[0]
            q = sp.simplify(v / sums[0])
            iv, lo, hi = sums[0].limits[0]
            ok = is_zero(q - 1 / (n - 1)) and is_zero(sp.expand(sums[0].function - (D(iv) - M) ** 2)) and lo == 0 and sp.simplify(hi - (n - 1)) == 0
    ctx.decide(R, 'Variance', var, ok, 'sum (x_i - mean)^2 / (N-1) over all elements', 'Variance returns %s' % v, form=str(v))
    sd = prog.fn(L + 'Standard_Deviation')
    sx = Symx(prog, sd)
    outs = [o for o in sx.run() if o.kind == 'return']
    v = outs[0].value if len(outs) == 1 else None
    ok = False
    if v is not None:
        Vs = [a for a in v.atoms(sp.core.function.AppliedUndef) if a.func.__name__ == L + 'Variance']
        ok = len(Vs) == 1 and str(Vs[0].args[0]) in (sd.params[0]['name'], 'arr:' + sd.params[0]['name']) and is_zero(v - sp.sqrt(Vs[0]))
    ctx.decide(R, 'Standard_Deviation', sd, ok, 'sqrt(Variance(data))', 'Standard_Deviation returns %s' % v)
    weighted(prog, ctx)
    median(prog, ctx)


def weighted(prog, ctx):
    R = 'C19.c'
    fn = prog.fn(L + 'Weighted_Average')
    sx = Symx(prog, fn)
    outs = [o for o in sx.run() if o.kind == 'return']
    if len(outs) != 1:
        ctx.undecided(R, 'Weighted_Average', fn, 'not a single return path')
        return
    v = outs[0].value
    if isinstance(v, Arr):
        avg, err = v.read((sp.Integer(0),)), v.read((sp.Integer(1),))
    elif isinstance(v, sp.Tuple) and len(v) == 2:
        avg, err = v
    else:
        ctx.undecided(R, 'Weighted_Average', fn, 'returned pair not recognised: %s' % str(v)[:200])
        return
    # instantiate N = 4 and expand the sums
    N = 4
    nsym = [s_ for s_ in (avg.free_symbols | err.free_symbols) if str(s_).startswith('len(')]
    sub = {s_: N for s_ in nsym}
    W = [a.func for a in (avg.atoms(sp.core.function.AppliedUndef)) if 'weight' in a.func.__name__]
    X = [a.func for a in (avg.atoms(sp.core.function.AppliedUndef)) if 'value' in a.func.__name__]
    if not W or not X:
        ctx.undecided(R, 'Weighted_Average', fn, 'weights/values not identified in %s' % str(avg)[:200])
        return
    Wf, Xf = W[0], X[0]
    a4 = avg.subs(sub).doit()
    e4 = err.subs(sub).doit()
    xs = sp.symbols('x0:4', real=True)
    ws = sp.symbols('w0:4', positive=True)
    rep = {}
    for i in range(N):
        rep[Wf(i)] = ws[i]
        rep[Xf(i)] = xs[i]
    a4 = a4.subs(rep)
    e4 = e4.subs(rep)
    okavg = is_zero(a4 - sum(w * x for w, x in zip(ws, xs)) / sum(ws))
    w = Symbol('w', positive=True)
    eq = {wi: w for wi in ws}
    mean = sum(xs) / N
    s2 = sum((x - mean) ** 2 for x in xs) / (N - 1)
    okse = is_zero(sp.simplify(e4.subs(eq) ** 2 - s2 / N))
    # translation law by construction: for constant data every accumulated term of the error vanishes identically, so the
    # result is an exact zero - not the rounding residue of sums that cancel only against each other (sqrt of a negative
    # residue is NaN)
    cst = Symbol('c_const', real=True)
    repc = {}
    for i in range(N):
        repc[Wf(i)] = ws[i]
        repc[Xf(i)] = cst
    residual = []
    for sm in sorted(err.atoms(sp.Sum), key=str):
        if not any(a_.func == Xf for a_ in sm.atoms(sp.core.function.AppliedUndef)):
            continue
        if any(sm in other.atoms(sp.Sum) and other is not sm for other in err.atoms(sp.Sum)):
            continue        # an inner sum (the average inside a summand)
        v4 = sp.simplify(sm.subs(sub).doit().subs(repc))
        if v4 != 0:
            residual.append('%s -> %s' % (str(sm)[:90], str(v4)[:60]))
    ctx.decide(R, 'Weighted_Average:constant-data', fn, not residual,
               'for constant data every accumulated sum of the standard error is identically zero (the values enter only through x_i - average)',
               'for constant data the accumulated sums do not vanish one by one (%s): the standard error is then the rounding residue of their cancellation, '
               'NaN when it is negative, and it loses digits when the data are shifted' % '; '.join(residual[:2]),
               witness={'reproducer': 'Weighted_Average({(0.7,w=1),(0.7,w=2)}) returns {0.7, NaN}; shifting x by 2^20 changes the error by 1e-4 relative'} if residual else None)
    ctx.decide(R, 'Weighted_Average', fn, okavg and okse, 'average = sum wx/sum w; for equal weights the Cochran error equals s/sqrt(N) (checked with N=4 symbolic data)',
               'weighted average/standard error differ from the definition (average ok=%s, equal-weight reduction ok=%s)' % (okavg, okse))


def median(prog, ctx):
    R = 'C19.c'
    fn = prog.fn(L + 'Median')
    ifs = [s for s in fn.body['body'] if s['k'] == 'If']
    if len(ifs) != 1:
        ctx.undecided(R, 'Median', fn, 'expected one even/odd branch')
        return
    dn = fn.params[0]['name']
    # which branch handles even sizes: evaluate the branch condition (after the statements before it) for sizes 2..5
    sxc = Symx(prog, fn)
    stc = State({})
    pre_stmts = fn.body['body'][:fn.body['body'].index(ifs[0])]
    try:
        for s_ in pre_stmts:
            sxc.exec(s_, [stc])
        ct = sxc.as_bool(sxc.sym(ifs[0]['cond'], stc))
        nsym = [x_ for x_ in ct.free_symbols if str(x_) == 'len(%s)' % dn]
        vals = [bool(ct.subs({x_: n_ for x_ in nsym})) for n_ in (2, 3, 4, 5)] if not (ct.free_symbols - set(nsym)) else None
    except (Undecided, TypeError):
        vals = None
    even_first = vals == [True, False, True, False]
    odd_first = vals == [False, True, False, True]
    if not (even_first or odd_first):
        ctx.undecided(R, 'Median', fn, 'branch condition %s does not separate even from odd sizes' % show(ifs[0]['cond']))
        return
    rest_b = ifs[0]['else'] if ifs[0].get('else') is not None else \
        {'k': 'Compound', 'body': fn.body['body'][fn.body['body'].index(ifs[0]) + 1:]}
    even_b, odd_b = (ifs[0]['then'], rest_b) if even_first else (rest_b, ifs[0]['then'])

    sxm = sxc
    stm = stc            # the state after the statements before the branch (a cached size is known there)
    half = sxm.sym({'k': 'Bin', 'op': '/', 'ty': 'unsigned long', 'lhs': {'k': 'Call', 'kind': 'method', 'ty': 'unsigned long', 'args': [],
                    'callee': {'name': 'size', 'cls': 'std::vector', 'q': 'std::vector<double>::size', 'const': True},
                    'obj': {'k': 'Ref', 'name': dn, 'rk': 'param', 'id': fn.params[0]['id'], 'ty': 'std::vector<double>'}},
                    'rhs': {'k': 'Lit', 'lk': 'int', 'v': '2', 'ty': 'unsigned long'}}, stm)

    def off(e):
        it = sxm.iterator(e, stm)
        if not it or it[0] != dn:
            return 'other:' + show(e)
        d = sp.simplify(it[1] - half)
        if d == 0:
            return 'data.size()/2'
        if d == -1:
            return 'data.size()/2-1'
        return str(it[1])

    def events(branch):
        """sequence of ('sel', offset) / ('read', offset) in statement order; iterators resolved through their declarations"""
        ev = []
        for s in walk_stmts(branch):
            if s['k'] == 'Decl':
                for d in s['decls']:
                    init = d.get('init')
                    if init is not None and 'iterator' in d.get('ty', ''):
                        it = sxm.iterator(init, stm)
                        if it:
                            stm.env[d['id']] = ('iter', it[0], it[1])
                    elif init is not None:
                        e0 = strip_casts(init)
                        if e0.get('k') == 'Call' and e0.get('kind') == 'op' and e0.get('op') == '*' and len(e0['args']) == 1:
                            ev.append(('read', off(e0['args'][0]), d['name']))
            for e in stmt_exprs(s):
                for c in walk_expr(e):
                    if c.get('k') == 'Call' and (c.get('callee') or {}).get('name') == 'nth_element':
                        a0, a2 = sxm.iterator(c['args'][0], stm), sxm.iterator(c['args'][2], stm)
                        if a0 and a2 and a0[0] == dn and a0[1] == 0 and a2[0] == dn and str(a2[1]) == 'len(%s)' % dn:
                            ev.append(('sel', off(c['args'][1]), None))
                        else:
                            ev.append(('sel?', show(c), None))
            if s['k'] == 'Return' and s.get('e') is not None:
                e0 = strip_casts(s['e'])
                if e0.get('k') == 'Call' and e0.get('kind') == 'op' and e0.get('op') == '*':
                    ev.append(('read', off(e0['args'][0]), '<return>'))
                else:
                    ev.append(('ret', show(e0).replace(' ', ''), None))
        return ev
    ee = events(even_b)
    eo = events(odd_b)
    lo, hi = 'data.size()/2-1', 'data.size()/2'
    names = {x[1]: x[2] for x in ee if x[0] == 'read'}
    seq = [(x[0], x[1]) for x in ee if x[0] in ('sel', 'read', 'sel?')]
    ok_even = seq in ([('sel', lo), ('read', lo), ('sel', hi), ('read', hi)], [('sel', hi), ('read', hi), ('sel', lo), ('read', lo)])
    ret = [x for x in ee if x[0] == 'ret']
    if ok_even:
        a, b = names.get(lo), names.get(hi)
        ok_even = len(ret) == 1 and ret[0][1] in ('(%s+%s)/2' % (a, b), '(%s+%s)/2' % (b, a), '(%s+%s)/2.0' % (a, b), '0.5*(%s+%s)' % (a, b))
    ok_odd = [(x[0], x[1]) for x in eo] == [('sel', hi), ('read', hi)]
    ctx.decide(R, 'Median', fn, ok_even and ok_odd,
               'odd: element selected at size/2; even: mean of the elements selected at size/2-1 and size/2, each read directly after its own nth_element',
               'median selection is wrong: even branch %s, odd branch %s (each central element must be read right after the nth_element that places it; '
               'otherwise the result depends on the input order)' % (ee, eo), witness={'even': str(ee), 'odd': str(eo)})


# ----------------------------------------------------------------------------- C19.d/e/f: partition, Range, nearest element
def workload(prog, ctx):
    """The index list as a closed-form term in (workers, tasks, k), from the loop summaries; the term (not the code) is then
    evaluated on the complete domain of the property: 1<=workers<=128, 0<=tasks<=1024, 0<=k<=workers."""
    import numpy as np
    R = 'C19.d'
    fn = prog.fn(L + 'Workload_Distribution')
    sx = Symx(prog, fn)
    wn, tn = fn.params[0]['name'], fn.params[1]['name']
    w, t = sx.symbol(wn, fn.params[0]['ty']), sx.symbol(tn, fn.params[1]['ty'])
    k = Symbol('k', integer=True)
    from ..symx import strict_ranges
    with strict_ranges():
        return _workload(prog, ctx, fn, sx, w, t, k, R, np)


def _workload(prog, ctx, fn, sx, w, t, k, R, np):
    # the partition is integer arithmetic: the closed form below is compared over the reals, which says nothing about an index that
    # is the truncation of a floating-point term (at the places where the exact value is an integer, one ulp below gives index-1)
    from ..ir import all_exprs
    trunc = []
    for e_ in all_exprs(fn):
        if e_.get('k') == 'Cast' and e_.get('ck') == 'FloatingToIntegral':
            inner = strip_casts(e_['e'])
            rounded = inner.get('k') == 'Call' and (inner.get('callee') or {}).get('name') in ('floor', 'ceil', 'round', 'lround', 'llround', 'rint', 'lrint', 'nearbyint', 'trunc')
            if inner.get('k') == 'Lit' or rounded:
                continue
            trunc.append(e_)
    if trunc:
        ctx.undecided(R, 'Workload_Distribution:integer-arithmetic', fn, 'an index is the truncation of the floating-point term `%s`: where its exact value is an integer the '
                      'result depends on rounding (one ulp below gives the index minus one), which a comparison over the reals does not decide' % show(trunc[0]['e'])[:80],
                      line=trunc[0].get('l'))
    else:
        ctx.holds(R, 'Workload_Distribution:integer-arithmetic', fn, 'no index passes through a truncated floating-point term', line=fn.line)
    try:
        outs = [o for o in sx.run()]
    except Undecided as e:
        ctx.undecided(R, 'Workload_Distribution:partition', fn, 'loop summaries outside the understood fragment: %s' % e)
        return
    rets = [o for o in outs if o.kind == 'return']
    if len(rets) != len(outs) or not rets or not all(isinstance(o.value, Arr) and o.value.length is not None for o in rets):
        ctx.undecided(R, 'Workload_Distribution:partition', fn, 'not every path returns a list with a known length')
        return
    mods = [{'IntDiv': lambda a, b: np.floor_divide(a, b), 'Mod': np.mod}, 'numpy']
    paths = []
    try:
        for o in rets:
            term = o.value.read((k,))
            free = (term.free_symbols | o.cond.free_symbols | o.value.length.free_symbols) - {w, t, k}
            if free or o.value.opaque:
                raise Undecided('summary depends on %s' % sorted(map(str, free)))
            paths.append((sp.lambdify((w, t), o.cond, modules=mods), sp.lambdify((w, t, k), term, modules=mods),
                          sp.lambdify((w, t), o.value.length, modules=mods), term, o.cond))
    except Undecided as e:
        ctx.undecided(R, 'Workload_Distribution:partition', fn, 'no closed form for the returned list: %s' % e)
        return
    except Exception as e:   # lambdify of an unexpected construct
        ctx.undecided(R, 'Workload_Distribution:partition', fn, 'closed form cannot be evaluated: %r' % (e,))
        return
    bad = {}
    npairs = 0
    T = np.arange(0, 1025, dtype=np.int64)[:, None]
    for wv in range(1, 129):
        K = np.arange(0, wv + 1, dtype=np.int64)[None, :]
        sel = np.zeros(T.shape[0], dtype=np.int64)
        A = np.zeros((T.shape[0], wv + 1), dtype=np.int64)
        Ln = np.zeros(T.shape[0], dtype=np.int64)
        for cf, tf, lf, term, cnd in paths:
            c = np.broadcast_to(np.asarray(cf(np.full(T.shape[0], wv, dtype=np.int64), T[:, 0]), dtype=bool), (T.shape[0],))
            sel += c
            if not c.any():
                continue
            Wm = np.full(A.shape, wv, dtype=np.int64)
            Tm = np.ascontiguousarray(np.broadcast_to(T, A.shape))
            Km = np.ascontiguousarray(np.broadcast_to(K, A.shape))
            a = np.broadcast_to(np.asarray(tf(Wm, Tm, Km), dtype=np.float64), A.shape)
            A = np.where(c[:, None], np.rint(a).astype(np.int64), A)
            Ln = np.where(c, np.broadcast_to(np.asarray(lf(np.full(T.shape[0], wv, dtype=np.int64), T[:, 0]), dtype=np.int64), Ln.shape), Ln)
        npairs += T.shape[0]
        d = np.diff(A, axis=1)
        checks = (('exactly one path applies', sel != 1), ('length is workers+1', Ln != wv + 1), ('first index is 0', A[:, 0] != 0),
                  ('last index is tasks', A[:, -1] != T[:, 0]), ('indices are non-decreasing', (d < 0).any(axis=1)),
                  ('chunk sizes differ by at most one', (d.max(axis=1) - d.min(axis=1)) > 1))
        for name, mask in checks:
            if mask.any() and name not in bad:
                tv = int(T[np.argmax(mask), 0])
                bad[name] = {'workers': wv, 'tasks': tv, 'indices': [int(x) for x in A[np.argmax(mask)]][:12]}
    forms = '; '.join('[%s] k -> %s' % (c_, t_) for _, _, _, t_, c_ in paths)
    ctx.decide(R, 'Workload_Distribution:partition', fn, not bad,
               'closed form of the index list satisfies all six partition clauses on all %d (workers,tasks) pairs' % npairs,
               'the returned index list is not a balanced partition: ' + '; '.join('%s fails at %s' % (n_, v_) for n_, v_ in bad.items()),
               witness=bad or None, form=forms[:600])


def range_closed_form(prog, ctx, fn):
    """Range written with a precomputed length: the returned list has a closed form (element k and length as terms in
    min, max, stepsize); the term is evaluated on the property's complete domain, min,max in [-40,40], stepsize 1..40.
    Returns True when the rule was decided this way."""
    import numpy as np
    from ..symx import strict_ranges
    R = 'C19.e'
    sx = Symx(prog, fn, inline={fn.q})       # a branch may be written through the function itself (reversed ascending range)
    mn, mx, stp = (sx.symbol(p_['name'], p_['ty']) for p_ in fn.params)
    k = Symbol('k', integer=True)
    try:
        with strict_ranges():
            outs = sx.run()
            rets = [o for o in outs if o.kind == 'return']
            if len(rets) != len(outs) or not rets:
                return False
            forms = []
            for o in rets:
                v = o.value
                if not isinstance(v, Arr) or v.length is None or v.opaque:
                    return False
                el = v.read((k,))
                # elements the function never wrote (k outside the written range) read as an impossible value
                el = el.replace(lambda e_: isinstance(e_, sp.core.function.AppliedUndef) and e_.func.__name__ == str(v.name), lambda e_: sp.Integer(-10 ** 9))
                if (el.free_symbols | v.length.free_symbols | o.cond.free_symbols) - {mn, mx, stp, k}:
                    return False
                if el.atoms(sp.core.function.AppliedUndef) - set(a_ for a_ in el.atoms(sp.core.function.AppliedUndef) if a_.func.__name__ == 'IntDiv'):
                    return False
                forms.append((o.cond, el, v.length))
    except Undecided:
        return False
    mods = [{'IntDiv': lambda a, b: np.trunc(np.asarray(a, dtype=np.float64) / np.asarray(b, dtype=np.float64)).astype(np.int64), 'Mod': np.fmod}, 'numpy']
    try:
        fs = [(sp.lambdify((mn, mx, stp), c_, modules=mods), sp.lambdify((mn, mx, stp, k), e_, modules=mods), sp.lambdify((mn, mx, stp), l_, modules=mods), e_, l_)
              for c_, e_, l_ in forms]
    except Exception:
        return False
    bad = []
    ncases = 0
    A, B = np.meshgrid(np.arange(-40, 41, dtype=np.int64), np.arange(-40, 41, dtype=np.int64), indexing='ij')
    A, B = A.ravel(), B.ravel()
    K = np.arange(0, 90, dtype=np.int64)[None, :]
    for sv in range(1, 41):
        Sv = np.full(A.shape, sv, dtype=np.int64)
        want_len = np.where(A < B, (B - A + sv - 1) // sv, np.where(A > B, (A - B + sv - 1) // sv, 0))
        want = np.where((A < B)[:, None], A[:, None] + K * sv, A[:, None] - K * sv)
        sel = np.zeros(A.shape, dtype=np.int64)
        glen = np.zeros(A.shape, dtype=np.int64)
        gel = np.zeros(want.shape, dtype=np.int64)
        for cf, ef, lf, e_, l_ in fs:
            c = np.broadcast_to(np.asarray(cf(A, B, Sv), dtype=bool), A.shape)
            sel += c
            glen = np.where(c, np.broadcast_to(np.asarray(lf(A, B, Sv)), A.shape).astype(np.int64), glen)
            full = lambda z_: np.ascontiguousarray(np.broadcast_to(z_, want.shape))
            ev = np.broadcast_to(np.asarray(ef(full(A[:, None]), full(B[:, None]), full(Sv[:, None]), full(K)), dtype=np.float64), want.shape)
            gel = np.where(c[:, None], np.rint(ev).astype(np.int64), gel)
        ncases += A.size
        m1 = (sel != 1) | (glen != want_len)
        inr = K < want_len[:, None]
        m2 = ((gel != want) & inr).any(axis=1)
        m = m1 | m2
        if m.any() and len(bad) < 3:
            i_ = int(np.argmax(m))
            bad.append({'min': int(A[i_]), 'max': int(B[i_]), 'stepsize': sv, 'returned_length': int(glen[i_]), 'expected_length': int(want_len[i_]),
                        'returned': [int(x_) for x_ in gel[i_][:max(0, min(int(glen[i_]), 8))]], 'expected': [int(x_) for x_ in want[i_][:min(int(want_len[i_]), 8)]]})
    ctx.decide(R, 'Range:closed-form', fn, not bad, 'element k = %s, length %s: equals the stated half-open range on all %d (min,max,stepsize) cases' % (forms[0][1], forms[0][2], ncases),
               'the returned list differs from the stated range, e.g. %s' % bad[:1], witness={'cases': bad} if bad else None)
    return True


def int_range(prog, ctx):
    R = 'C19.e'
    fn = prog.fn(L + 'Range', 3)
    if range_closed_form(prog, ctx, fn):
        r1_only = True
    else:
        r1_only = False
    sx = Symx(prog, fn)
    mn, mx, stp = (sx.symbol(p_['name'], p_['ty']) for p_ in fn.params)
    loops = [s for s in walk_stmts(fn.body) if s['k'] in ('For', 'While')] if not r1_only else []
    seen = {}
    for lp in loops:
        inst = 'Range:loop@%s' % ('asc' if 'asc' not in seen else 'x')
        try:
            sts = sx.states_at(fn, lp)
            if len(sts) != 1:
                raise Undecided('%d paths reach the loop' % len(sts))
            st = sts[0]
            pre = sp.And(*st.conds) if st.conds else S.true
            if lp['k'] == 'For' and lp.get('init') is not None:
                live, _ = sx.exec(lp['init'], [st])
                st = live[0]
            entry, cond, live, done, n0 = sx.loop_step(lp, st)
            if done or len(live) != 1:
                raise Undecided('loop body is not straight-line')
            pbs = [c_ for c_ in calls(lp['body']) if c_.get('kind') == 'method' and c_['callee']['name'] == 'push_back']
            if len(pbs) != 1:
                raise Undecided('expected one push_back per iteration')
            arg = strip_casts(pbs[0]['args'][0])
            kid = arg.get('id') if arg.get('k') == 'Ref' else None
            if kid is None or kid not in entry or not isinstance(entry[kid], Symbol):
                raise Undecided('the pushed value is not the loop variable')
            i_in = entry[kid]
            step = sp.expand(live[0].env.get(kid) - i_in)
            start = st.env.get(kid)
        except Undecided as e:
            ctx.undecided(R, 'Range:loop@line%d' % lp['l'], fn, 'enumeration loop outside the understood fragment: %s' % e, line=lp['l'])
            continue
        desc = pre == sp.And(sp.Gt(mn, mx), sp.Gt(stp, 0)) or pre == sp.And(sp.Gt(stp, 0), sp.Gt(mn, mx))
        asc = pre == sp.Not(sp.And(sp.Gt(mn, mx), sp.Gt(stp, 0))) or sp.simplify(sp.Equivalent(pre, sp.Not(sp.And(sp.Gt(mn, mx), sp.Gt(stp, 0))))) == S.true
        kind = 'descending' if desc else ('ascending' if asc else None)
        if kind is None:
            ctx.undecided(R, 'Range:loop@line%d' % lp['l'], fn, 'branch predicate %s not recognised' % pre, line=lp['l'])
            continue
        seen[kind] = seen.get(kind, 0) + 1
        want_cond = sp.Gt(i_in, mx) if desc else sp.Lt(i_in, mx)
        want_step = -stp if desc else stp
        probs = []
        if start != mn:
            probs.append('starts at %s, not at min' % start)
        if cond != want_cond and cond != want_cond.reversed:
            probs.append('continues while %s, expected %s (the upper end is excluded)' % (cond, want_cond))
        if sp.simplify(step - want_step) != 0:
            probs.append('advances by %s per element, expected %s' % (step, want_step))
        ctx.decide(R, 'Range:%s' % kind, fn, not probs, '%s: i = min, min%sstep, ... while i %s max; every i is appended' % (kind, '-' if desc else '+', '>' if desc else '<'),
                   'the %s enumeration is wrong: %s' % (kind, '; '.join(probs)), line=lp['l'])
    if r1_only:
        pass
    elif seen.get('ascending', 0) != 1 or seen.get('descending', 0) != 1:
        ctx.undecided(R, 'Range:branches', fn, 'expected one ascending and one descending enumeration, found %s' % seen)
    else:
        ctx.holds(R, 'Range:branches', fn, 'descending iff min>max and stepsize>0; ascending otherwise')
    r1 = prog.fn(L + 'Range', 1)
    sx1 = Symx(prog, r1)
    o1 = [o for o in sx1.run()]
    ok1 = False
    got = None
    if len(o1) == 1 and o1[0].kind == 'return':
        got = o1[0].value
        m1 = sx1.symbol(r1.params[0]['name'], r1.params[0]['ty'])
        ok1 = isinstance(got, sp.core.function.AppliedUndef) and got.func.__name__ == L + 'Range' and tuple(got.args) == (0, m1, 1)
    ctx.decide(R, 'Range(max)', r1, ok1, 'Range(max) = Range(0, max, 1)', 'Range(max) delegates as %s' % (got,))


def closest(prog, ctx):
    """Locate_Closest_Location through std::upper_bound: with u the index of the first element > target in a sorted list,
    the nearest element is at u-1 or u; the paths of the function are evaluated on the complete abstract table
    (size 1..4, u 0..size, |s[u-1]-t| <,=,> |s[u]-t|)."""
    R = 'C19.f'
    fn = prog.fn(L + 'Locate_Closest_Location')
    sx = Symx(prog, fn)
    try:
        outs = sx.run()
    except Undecided as e:
        ctx.undecided(R, 'Locate_Closest_Location:nearest', fn, 'paths outside the understood fragment: %s' % e)
        return
    lst = fn.params[0]['name']
    AU = sp.core.function.AppliedUndef
    n_sym = Symbol('len(%s)' % lst, integer=True, nonnegative=True)
    allf = set()
    for o in outs:
        allf |= o.cond.atoms(AU)
        if o.value is not None and isinstance(o.value, sp.Basic):
            allf |= o.value.atoms(AU)
    ubs = [f for f in allf if f.func.__name__ in ('std::upper_bound',)]
    if len(set(ubs)) != 1:
        ctx.undecided(R, 'Locate_Closest_Location:nearest', fn, 'the search is not a single std::upper_bound over the whole list (%d found)' % len(set(ubs)))
        return
    ub = ubs[0]
    whole = [str(a) for a in ub.args[:2]] == ['m:%s.begin()' % lst, 'm:%s.end()' % lst] or [str(a) for a in ub.args[:2]] == ['std::begin(%s)' % lst, 'std::end(%s)' % lst]
    tgt = ub.args[2] if len(ub.args) >= 3 else None
    if not whole or tgt is None:
        ctx.undecided(R, 'Locate_Closest_Location:nearest', fn, 'upper_bound does not range over the whole list: %s' % (ub,))
        return
    U = Symbol('u_', integer=True)
    D1, D2 = sp.symbols('d1_ d2_', real=True)

    def concretise(term, n, u, d1, d2):
        def rep(f):
            nm = f.func.__name__
            if nm == 'std::is_sorted':
                return sp.Integer(1)
            if nm == 'std::distance' and len(f.args) == 2 and f.args[1] == ub:
                return sp.Integer(u)
            if nm.startswith('op==') and ub in f.args:
                other = [a for a in f.args if a != ub]
                if other and str(other[0]) in ('m:%s.end()' % lst, 'std::end(%s)' % lst):
                    return sp.Integer(1 if u == n else 0)
                if other and str(other[0]) in ('m:%s.begin()' % lst, 'std::begin(%s)' % lst):
                    return sp.Integer(1 if u == 0 else 0)
            if nm.startswith('op!=') and ub in f.args:
                other = [a for a in f.args if a != ub]
                if other and str(other[0]) in ('m:%s.end()' % lst, 'std::end(%s)' % lst):
                    return sp.Integer(0 if u == n else 1)
            return None
        cur = term
        for _ in range(6):
            fs = [f for f in cur.atoms(AU)]
            done_ = True
            for f in sorted(fs, key=lambda x: -len(str(x))):
                r = rep(f)
                if r is not None:
                    cur = cur.subs(f, r)
                    done_ = False
            if done_:
                break
        cur = cur.subs(n_sym, n)
        # element reads
        for f in list(cur.atoms(AU)):
            if f.func.__name__ == lst and len(f.args) == 1:
                ix = sp.simplify(f.args[0])
                if ix == u - 1:
                    cur = cur.subs(f, tgt - d1)
                elif ix == u:
                    cur = cur.subs(f, tgt + d2)
                else:
                    raise Undecided('reads element %s, neither u-1 nor u' % ix)
        return sp.simplify(cur)
    bad = []
    rows = 0
    try:
        for n in range(1, 5):
            for u in range(0, n + 1):
                rels = [(1, 2), (1, 1), (2, 1)] if 0 < u < n else [(1, 1)]
                for d1, d2 in rels:
                    rows += 1
                    hits = []
                    for o in outs:
                        c = concretise(o.cond, n, u, d1, d2)
                        if c == S.true:
                            hits.append(o)
                        elif c != S.false:
                            raise Undecided('path condition does not evaluate on the abstract row: %s' % c)
                    if len(hits) != 1 or hits[0].kind != 'return':
                        bad.append(({'size': n, 'u': u, 'd1': d1, 'd2': d2}, 'no unique returning path' if len(hits) != 1 else 'exits'))
                        continue
                    v = concretise(hits[0].value, n, u, d1, d2)
                    if not v.is_Integer:
                        raise Undecided('returned index does not evaluate: %s' % v)
                    ok = {0} if u == 0 else ({n - 1} if u == n else ({u - 1} if d1 < d2 else ({u} if d2 < d1 else {u - 1, u})))
                    if int(v) not in ok:
                        bad.append(({'size': n, 'u': u, 'd1': d1, 'd2': d2}, 'returns %s, nearest is %s' % (v, sorted(ok))))
    except Undecided as e:
        ctx.undecided(R, 'Locate_Closest_Location:nearest', fn, str(e))
        return
    ctx.decide(R, 'Locate_Closest_Location:nearest', fn, not bad,
               'on all %d abstract rows (size, upper-bound position, order of the two distances) the returned index is a nearest element' % rows,
               'the returned index is not a nearest element on %d of %d rows, e.g. %s' % (len(bad), rows, bad[:2]),
               witness={'row': bad[0][0], 'what': bad[0][1]} if bad else None)
    exits = [o for o in outs if o.kind == 'exit']
    okx = len(exits) == 1 and any(f.func.__name__ == 'std::is_sorted' for f in exits[0].cond.atoms(AU))
    ctx.decide(R, 'Locate_Closest_Location:sorted-guard', fn, okx, 'exits iff the list is not sorted', 'exit paths: %s' % [str(o.cond)[:80] for o in exits])

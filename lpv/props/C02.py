"""C02 - Find_Root returns a root of the bracketed function (structural clauses of Ridders' method)."""
import math
import sympy as sp
from sympy import Symbol, Function, S
from ..ir import AnalysisBroken, Undecided, show, strip, strip_casts, walk_stmts, stmt_exprs, walk_expr, calls, all_exprs
from ..symx import Symx, State, is_zero, Sign2

L = 'libphysica::'


def check(prog, ctx):
    ctx.rule('C02.a', 'orientation: the ends are exchanged when xLeft > xRight before the first evaluation of the function', 1)
    ctx.rule('C02.b', 'evaluation sites stay in the bracket: the function is called only at a bracket end, at the midpoint (x1+x2)/2 or at Ridders\' point '
             'x3+(x3-x1) sgn(f1-f2) f3/sqrt(f3^2-f1 f2) built from values f_i = F(x_i) (Ridders: with f1 f2<0 that point lies inside [x1,x2])', 2)
    ctx.rule('C02.c', 're-bracketing: in every update branch each abscissa keeps the function value taken at it (f_i = F(x_i) is preserved) and the '
             'branch condition is a sign comparison between exactly the two values that become the new (f1,f2)', 3)
    ctx.rule('C02.d', 'degenerate brackets: NaN ends exit; f(left) f(right) > 0 exits; an end that is an exact zero is returned as is (both orientations)', 3)
    ctx.rule('C02.e', 'a stopping test that compares with a previous iterate cannot fire in the first iteration: `previous` starts as a constant sentinel far '
             'outside every bracket; the loop returns on a distance test against xAccuracy and on an exact zero f(x4)==0 (returning x4)', 2)
    ctx.rule('C02.f', 'accuracy certificate (intermediate value theorem): on the path that accepts on the distance test, the quantity compared with xAccuracy is the '
             'width of the maintained bracket (x1,x2), f1 f2 < 0, and the returned point lies in it; a test between successive iterates certifies nothing '
             'about the distance to the sign change', 1)
    fn = prog.fn(L + 'Find_Root')
    names = [p['name'] for p in fn.params]
    sx = Symx(prog, fn, inline={L + 'Floats_Equal', L + 'Relative_Difference'})
    outs = sx.run()
    xL, xR, acc = [sx.symbol(n, 'double') for n in names[1:4]]
    F = lambda t: Function('F:' + names[0], real=True)(t)
    fL, fR = F(xL), F(xR)
    # ---- C02.a (decided below from the two states that reach the iteration loop)
    # ---- C02.d degenerate brackets on a table of end values
    NANF = Function('isnan')
    probs = []
    nan = sp.nan
    for orient, lo, hi in (('ordered', xL, xR), ('reversed', xR, xL)):
        for vl, vr in ((0, 3), (-2, 0), (0, 0), (2, 3), (-1, -4), (-1, 2), (3, -2), ('nan', 1), (1, 'nan')):
            sub = {}
            want = None
            flo, fhi = F(lo), F(hi)
            isn = {NANF(flo): 1 if vl == 'nan' else 0, NANF(fhi): 1 if vr == 'nan' else 0}
            vals = {flo: (1 if vl == 'nan' else vl), fhi: (1 if vr == 'nan' else vr)}
            oc = sp.Gt(xL, xR) if orient == 'reversed' else sp.Le(xL, xR)
            sel = []
            for o in outs:
                c = o.cond
                c = c.subs({sp.Gt(xL, xR): orient == 'reversed', sp.Le(xL, xR): orient == 'ordered'})
                if hasattr(c, 'xreplace'):
                    c = c.xreplace(isn)
                    # IEEE: every ordered comparison with NaN is false, != is true
                    nanterms = [t for t, v in ((flo, vl), (fhi, vr)) if v == 'nan']
                    rep = {}
                    for r_ in c.atoms(sp.Rel):
                        if any(r_.has(t) for t in nanterms):
                            rep[r_] = S.true if isinstance(r_, sp.Ne) else S.false
                    c = c.xreplace(rep).xreplace(vals)
                if hasattr(c, 'replace'):
                    # the library's Sign(a, b) = |a| with the sign of b (b >= 0 counts as positive), on numbers
                    c = c.replace(lambda e_: isinstance(e_, sp.core.function.AppliedUndef) and e_.func.__name__ == 'Sign2' and all(a_.is_number for a_ in e_.args),
                                  lambda e_: sp.Abs(e_.args[0]) if e_.args[1] >= 0 else -sp.Abs(e_.args[0]))
                try:
                    c = sp.simplify(c)
                except Exception:
                    pass
                if c == S.true:
                    sel.append(o)
            if 'nan' in (vl, vr):
                want = 'exit'
            elif vl == 0:
                want = ('return', lo)
            elif vr == 0:
                want = ('return', hi)
            elif vl * vr > 0:
                want = 'exit'
            else:
                want = 'iterate'
            if len(sel) != 1:
                probs.append('%s ends f=(%s,%s): %d paths' % (orient, vl, vr, len(sel)))
                continue
            o = sel[0]
            if want == 'exit':
                ok = o.kind == 'exit'
            elif want == 'iterate':
                ok = o.kind == 'return' and isinstance(o.value, Symbol) and '@loop' in str(o.value)
            else:
                ok = o.kind == 'return' and o.value == want[1]
            if not ok:
                probs.append('%s ends with f(left)=%s, f(right)=%s: expected %s, code %s %s' % (orient, vl, vr, want if isinstance(want, str) else 'return of that end',
                                                                                          o.kind, o.value if o.kind == 'return' else ''))
    nanp = [p for p in probs if 'nan' in p]
    zerop = [p for p in probs if 'return of that end' in p]
    signp = [p for p in probs if p not in nanp and p not in zerop]
    ctx.decide('C02.d', 'nan-ends', fn, not nanp, 'NaN at an end exits', '; '.join(nanp))
    ctx.decide('C02.d', 'zero-end-returned', fn, not zerop, 'an end whose value is exactly zero is returned as is',
               'a bracket end that is an exact zero is not returned: ' + '; '.join(zerop[:2]),
               witness={'cases': zerop, 'reproducer': 'x*(x-3) on [0,4] returns 3 instead of the end 0'} if zerop else None)
    ctx.decide('C02.d', 'no-sign-change', fn, not signp, 'f(left) f(right) > 0 exits, opposite signs iterate', '; '.join(signp))
    # ---- the Ridders loop
    loops = [s for s in walk_stmts(fn.body) if s['k'] == 'For']
    if len(loops) != 1:
        raise Undecided('iteration loop not found')
    loop = loops[0]
    # pre-loop state on the ordered, sign-change path
    sts = sx.states_at(fn, loop)
    sts = [s_ for s_ in sts if sp.Le(xL, xR) in s_.conds]
    if len(sts) != 1:
        raise Undecided('expected one ordered path into the iteration loop, found %d' % len(sts))
    st = sts[0]
    # which locals hold the bracket: initial values xLeft, xRight, fLeft, fRight (single-def locals are inlined by symx)
    entry, cond, live, done, n0 = sx.loop_step(loop, st)
    ents = {k: v for k, v in entry.items() if isinstance(v, Symbol)}
    init = {k: st.env.get(k) for k in ents}
    # roles by initial value
    # the previous-iterate variable: the entry symbol compared with the accuracy in a returning path
    kprev = None
    for o in done:
        if o.kind == 'return':
            for cnd in o.state.conds[n0:]:
                if isinstance(cnd, (sp.Lt, sp.Le)) and cnd.rhs == acc and cnd.lhs.has(sp.Abs):
                    for k, v in ents.items():
                        if cnd.lhs.has(v) and not str(v).startswith(('x1@', 'x2@')) and sp.diff(cnd.lhs.args[0] if isinstance(cnd.lhs, sp.Abs) else cnd.lhs, v) in (1, -1):
                            kprev = k

    # symbols that take part in an evaluation site of the loop (the bracket and its values do; a bookkeeping copy does not)
    used = set()
    for p_ in list(live) + [o.state for o in done]:
        terms_ = [v_ for v_ in p_.env.values() if isinstance(v_, sp.Basic)] + [c_ for c_ in p_.conds[n0:] if isinstance(c_, sp.Basic)]
        for t_ in terms_:
            for a_ in t_.atoms(sp.core.function.AppliedUndef):
                if a_.func.__name__ == 'F:' + names[0]:
                    used |= a_.free_symbols
        for c_ in p_.conds[n0:]:
            if isinstance(c_, sp.Basic) and c_.has(Sign2):
                used |= c_.free_symbols

    def key_with_init(val):
        ks = [k for k, v in init.items() if v is not None and k != kprev and isinstance(v, sp.Basic) and is_zero(v - val)]
        if len(ks) > 1:
            ks = [k for k in ks if ents[k] in used]
        return ks[0] if len(ks) == 1 else None
    kx1, kx2 = key_with_init(xL), key_with_init(xR)
    kf1, kf2 = key_with_init(fL), key_with_init(fR)
    kres = [kprev] if kprev is not None else []
    # orientation: the reversed path enters the loop with the ends (and their values) exchanged
    rsts = [s_ for s_ in sx.states_at(fn, loop) if sp.Gt(xL, xR) in s_.conds]
    oko = False
    if len(rsts) == 1 and None not in (kx1, kx2, kf1, kf2):
        r = rsts[0].env
        oko = r.get(kx1) == xR and r.get(kx2) == xL and r.get(kf1) == fR and r.get(kf2) == fL
    ctx.decide('C02.a', 'orientation', fn, oko, 'for xLeft > xRight the iteration starts from the exchanged ends and their own values',
               'reversed brackets are not put in order before the iteration')
    if None in (kx1, kx2, kf1, kf2):
        ctx.undecided('C02.c', 'bracket-state', fn, 'bracket variables not identified by their initial values: %s' % {str(ents[k]): str(init[k]) for k in ents})
        return
    x1, x2, f1, f2 = ents[kx1], ents[kx2], ents[kf1], ents[kf2]
    contract = {f1: F(x1), f2: F(x2)}
    # evaluation sites inside the loop
    evals = set()
    for p in list(live) + [o.state for o in done]:
        for v in p.env.values():
            if isinstance(v, sp.Basic):
                for a in v.atoms(sp.core.function.AppliedUndef):
                    if a.func.__name__ == 'F:' + names[0]:
                        evals.add(a)
        for c in p.conds[n0:]:
            for a in c.atoms(sp.core.function.AppliedUndef):
                if a.func.__name__ == 'F:' + names[0]:
                    evals.add(a)
    x3 = (x1 + x2) / 2
    f3 = F(x3)
    x4 = x3 + (x3 - x1) * sp.sign(f1 - f2) * f3 / sp.sqrt(f3 ** 2 - f1 * f2)
    bad_sites = []
    for a in evals:
        t = a.args[0]
        if is_zero(t - x3) or is_zero(t - x1) or is_zero(t - x2) or t in (xL, xR):
            continue
        if is_zero(sp.simplify(t - x4)):
            continue
        bad_sites.append(str(t)[:200])
    ctx.decide('C02.b', 'loop-evaluations', fn, not bad_sites and len(evals) >= 2, 'the loop evaluates f only at the midpoint and at Ridders\' point (%d sites)' % len(evals),
               'the loop evaluates f at %s' % bad_sites, witness={'sites': bad_sites} if bad_sites else None, line=loop['l'])
    pre_sites = [show(strip_casts(c['args'][0])) for c in calls(fn, into_lambdas=False) if c.get('kind') == 'stdfn' and c['l'] < loop['l']]
    post_sites = [show(strip_casts(c['args'][0])) for c in calls(fn, into_lambdas=False) if c.get('kind') == 'stdfn' and c['l'] > (loop.get('l') or 0)
                  and not any(c is x for x in all_exprs(loop))]
    okpre = sorted(pre_sites) == sorted([names[1], names[2]])
    ctx.decide('C02.b', 'entry-evaluations', fn, okpre, 'before the loop f is evaluated exactly at the two ends', 'before the loop f is evaluated at %s' % pre_sites)
    # ---- C02.c re-bracketing
    probs = []
    nupd = 0
    for p in live:
        conds = p.conds[n0:]
        nx1, nx2, nf1, nf2 = [p.env.get(k) for k in (kx1, kx2, kf1, kf2)]
        if (nx1, nx2, nf1, nf2) == (x1, x2, f1, f2):
            continue
        nupd += 1
        sub = lambda t: t.subs(contract) if isinstance(t, sp.Basic) else t
        if not is_zero(sub(nf1) - F(sub(nx1))) and not is_zero(sp.simplify(sub(nf1) - F(sub(nx1)))):
            probs.append('after the update x1 = %s but f1 = %s is not the value taken there' % (str(nx1)[:60], str(nf1)[:60]))
        if not is_zero(sub(nf2) - F(sub(nx2))) and not is_zero(sp.simplify(sub(nf2) - F(sub(nx2)))):
            probs.append('after the update x2 = %s but f2 = %s is not the value taken there' % (str(nx2)[:60], str(nf2)[:60]))
        # last condition: Ne(Sign2(A, B), A)  -> signs of A and B differ
        lastc = [c for c in conds if c.has(Sign2)]
        okc = False
        if lastc:
            c = lastc[-1]
            s2 = [a for a in c.atoms(sp.core.function.AppliedUndef) if a.func == Sign2]
            if isinstance(c, sp.Ne) and len(s2) == 1:
                A, B = s2[0].args
                other = c.rhs if c.lhs == s2[0] else c.lhs
                if other == A:
                    okc = {str(A), str(B)} == {str(nf1), str(nf2)}
        if not okc:
            probs.append('the branch that sets (f1,f2)=(%s,%s) is not guarded by a sign comparison of exactly these two values (%s)'
                         % (str(nf1)[:40], str(nf2)[:40], [str(c)[:80] for c in lastc[-1:]]))
    ctx.decide('C02.c', 'pairing', fn, not [p for p in probs if 'value taken there' in p] and nupd >= 3,
               'all %d update branches keep f_i = F(x_i)' % nupd, '; '.join(p for p in probs if 'value taken there' in p) or 'fewer than three update branches',
               witness={'reproducer': '1/x-2 on [1e-10,1e10]: a stale f1 degrades Ridders to bisection and the 50-iteration cap is hit'} if probs else None, line=loop['l'])
    ctx.decide('C02.c', 'sign-change-kept', fn, not [p for p in probs if 'sign comparison' in p] and nupd >= 3,
               'every update branch is selected by a sign difference between the two values that become (f1,f2)',
               '; '.join(p for p in probs if 'sign comparison' in p), line=loop['l'])
    giveup = [o for o in done if o.kind == 'exit']
    ctx.decide('C02.c', 'give-up-exit', fn, len(giveup) == 1, 'no branch applies -> diagnostic exit (classified in C10)', 'give-up exits: %d' % len(giveup))
    rets = [o for o in done if o.kind == 'return']
    zero_ret = any(isinstance(o.state.conds[-1], sp.Equality) and o.state.conds[-1].rhs == 0 and is_zero(sp.simplify(o.value - x4)) for o in rets if o.state.conds[n0:])
    def flat(cs):
        out = []
        for c_ in cs:
            out += list(c_.args) if isinstance(c_, sp.And) else [c_]
        return out
    FLOOR_MAX = 5e-15

    def acc_bound(rhs, conds=()):
        """None if `rhs` is not the accuracy; else the list of floor terms f in a bound max(xAccuracy, f, ...).  A floor that is a
        small multiple of the magnitude of the points (the spacing of doubles there) lies below every accuracy the property
        quantifies over (xAccuracy >= 1e-14 |root|), so max(xAccuracy, floor) IS xAccuracy on that domain."""
        if rhs == acc:
            return []
        if isinstance(rhs, sp.Max) and acc in rhs.args:
            return [a_ for a_ in rhs.args if a_ != acc]
        # the maximum written with an if: on this path the bound is the floor because the floor is not below the accuracy
        if isinstance(rhs, sp.Basic) and any(c_ in (sp.Ge(rhs, acc), sp.Le(acc, rhs), sp.Gt(rhs, acc), sp.Lt(acc, rhs)) for c_ in conds):
            return [rhs]
        return None

    def floor_verdict(f_, points):
        """'ok' | 'large' | 'unknown' for one floor term c * |t| (t a point of the bracket / an iterate, or a max of such magnitudes)"""
        c_, rest = f_.as_coeff_Mul()
        mags = list(rest.args) if isinstance(rest, sp.Max) else [rest]
        for m_ in mags:
            if not (isinstance(m_, sp.Abs) and any(num_zero(m_.args[0] - t_) for t_ in points if isinstance(t_, sp.Basic))):
                return 'unknown'
        if not c_.is_number or c_ <= 0:
            return 'unknown'
        return 'ok' if float(c_) <= FLOOR_MAX else 'large'
    acc_rets = [o for o in rets if any(isinstance(c_, (sp.Lt, sp.Le)) and acc_bound(c_.rhs, flat(o.state.conds[n0:])) is not None for c_ in flat(o.state.conds[n0:]))]
    ctx.decide('C02.e', 'stopping-test', fn, bool(acc_rets) and zero_ret, 'the loop returns on a distance test against xAccuracy and on an exact zero f(x4) == 0 (returning x4)',
               'stopping test not recognised (returning paths that compare a distance with xAccuracy: %d, exact-zero return ok=%s)' % (len(acc_rets), zero_ret))
    # ---- C02.f what the accepting test certifies
    # Adversary argument: the routine sees f only at the sampled points; for EVERY continuous f to change sign within
    # xAccuracy of the returned point, the accepting path must know two sampled points with function values of opposite
    # sign, no further apart than xAccuracy, with the returned point between them (intermediate value theorem) - otherwise
    # a continuous function through the same samples has its sign change elsewhere.  The only such pair the routine
    # maintains is the bracket (x1,x2), f1 f2 < 0 (C02.c).
    import random as _random

    def num_zero(e):
        """e == 0 as an identity, tested at three fixed pseudo-random points (function applications and symbols get
        independent values; complex values allowed) - the expressions here are Ridders' formula nested in itself, which
        symbolic simplification handles in minutes, not seconds."""
        if not isinstance(e, sp.Basic):
            return e == 0
        if e == 0:
            return True
        AU_ = sp.core.function.AppliedUndef
        atoms = sorted(e.atoms(AU_), key=str)
        syms = sorted(e.free_symbols, key=str)
        for t_ in range(3):
            rnd = _random.Random(4711 + t_)
            val = lambda: sp.Float(rnd.uniform(0.5, 2.0) * (1 if rnd.random() < 0.5 else -1))
            rep = {a_: val() for a_ in atoms}
            rep2 = {y_: val() for y_ in syms}
            try:
                v = complex(sp.N(e.xreplace(rep).xreplace(rep2)))
            except (TypeError, ValueError):
                return False
            if abs(v) > 1e-9:
                return False
        return True

    def bracket_of(state):
        return state.env.get(kx1), state.env.get(kx2)
    certified_all = bool(acc_rets)
    for n_, o in enumerate(acc_rets):
        inst = 'accuracy-certificate' if len(acc_rets) == 1 else 'accuracy-certificate#%d' % n_
        tests = [c_ for c_ in flat(o.state.conds[n0:]) if isinstance(c_, (sp.Lt, sp.Le)) and acc_bound(c_.rhs, flat(o.state.conds[n0:])) is not None]
        b1, b2 = bracket_of(o.state)
        floors = [(f_, floor_verdict(f_, [x1, x2, x3, x4, b1, b2, xL, xR])) for c_ in tests for f_ in acc_bound(c_.rhs, flat(o.state.conds[n0:]))]
        if any(v_ == 'large' for f_, v_ in floors):
            certified_all = False
            big = [f_ for f_, v_ in floors if v_ == 'large'][0]
            ctx.violated('C02.f', inst, fn, 'the accepting test compares with max(xAccuracy, %s): the floor exceeds %g times the magnitude of the points, so for a requested '
                         'accuracy between 1e-14 |root| and that floor a bracket wider than the accuracy is accepted' % (str(big)[:80], FLOOR_MAX),
                         witness={'floor': str(big)[:120], 'reproducer': 'Find_Root(x-1, 0, 3, 1e-13): the returned point is further than 1e-13 from 1'}, line=loop['l'])
            continue
        if any(v_ == 'unknown' for f_, v_ in floors):
            certified_all = False
            ctx.undecided('C02.f', inst, fn, 'accepting test compares with max(xAccuracy, %s): the second bound is not a recognised floating-point resolution floor'
                          % [str(f_)[:80] for f_, v_ in floors if v_ == 'unknown'][:1], line=loop['l'])
            continue
        pairs = [(x1, x2)] + ([(b1, b2)] if isinstance(b1, sp.Basic) and isinstance(b2, sp.Basic) else [])
        inside = lambda v_, u_, w_: any(num_zero(v_ - t_) for t_ in (u_, w_)) or \
            ({u_, w_} == {x1, x2} and any(num_zero(v_ - t_) for t_ in (x3, x4)))
        cert, succ = None, None
        same_dist = lambda L_, u_, w_: num_zero(L_ - sp.Abs(u_ - w_))
        for c_ in tests:
            d_ = c_.lhs
            for u_, w_ in pairs:
                if same_dist(d_, u_, w_):
                    if isinstance(o.value, sp.Basic) and inside(o.value, u_, w_):
                        cert = 'the accepted bracket (%s, %s) is narrower than xAccuracy and contains the returned point' % (str(u_)[:40], str(w_)[:40])
            for k_, v_ in ents.items():
                if k_ in (kx1, kx2, kf1, kf2) or not d_.has(v_):
                    continue
                carried = [p_.env.get(k_) for p_ in live]
                if carried and all(isinstance(t_, sp.Basic) and num_zero(t_ - x4) for t_ in carried) and same_dist(d_, x4, v_):
                    succ = str(v_)
        if not cert:
            certified_all = False
        if cert:
            ctx.holds('C02.f', inst, fn, cert, line=loop['l'])
        elif succ:
            ctx.violated('C02.f', inst, fn, 'the accepting test |x4 - %s| < xAccuracy compares two successive Ridders iterates; nothing on that path says that the '
                         'function has opposite signs at these two points, so the sign change need not lie within xAccuracy of the returned point (when the '
                         'iterates creep along one side of the root, or Ridders\' correction cancels in double precision, a point far from the root is returned)' % succ,
                         witness={'reproducer': 'Find_Root(x^3-0.5, 0, 1e6, 1e-6) returns 2.9e-11 (root 0.7937); Find_Root(x^2-1e-3, 0, 1e6, 1e-6) returns 1.2e-8 (root 0.0316); '
                                                '17 of 36 cases x^p-c, p in {2,3,5,8}, c in {0.5,1e-3,7}, brackets [0,10],[0,1e3],[0,1e6], accuracy 1e-6',
                                  'test': str(tests[0]) if tests else None}, line=loop['l'])
        else:
            ctx.undecided('C02.f', inst, fn, 'accepting test %s: neither a bound on the maintained bracket nor a comparison of successive iterates' % [str(t_)[:120] for t_ in tests], line=loop['l'])
    # ---- every other returning path of the loop (not the exact zero, no comparison with the accuracy)
    zero_paths = [o for o in rets if o.state.conds[n0:] and isinstance(o.state.conds[-1], sp.Equality) and o.state.conds[-1].rhs == 0]
    others = [o for o in rets if o not in acc_rets and o not in zero_paths]
    for n_, o in enumerate(others):
        inst = 'other-accept#%d' % n_
        tests = []
        for c_ in flat(o.state.conds[n0:]):
            if isinstance(c_, sp.Basic):
                tests += [r_ for r_ in c_.atoms(sp.core.relational.Relational) if isinstance(r_, (sp.Lt, sp.Le, sp.Gt, sp.Ge))]
        b1, b2 = bracket_of(o.state)
        # a relative test of the bracket width: |b1 - b2| (possibly divided by a magnitude of the ends) against a numeric tolerance
        rel = None
        for c_ in tests:
            small, big = (c_.lhs, c_.rhs) if isinstance(c_, (sp.Lt, sp.Le)) else (c_.rhs, c_.lhs)
            if big.is_number and isinstance(b1, sp.Basic) and isinstance(b2, sp.Basic):
                for cand in [small] + ([e_ for e_, _c in small.args] if isinstance(small, sp.Piecewise) else []):
                    num_, den_ = sp.fraction(cand)
                    if num_zero(num_ - sp.Abs(b1 - b2)) or num_zero(num_ - sp.Abs(x1 - x2)):
                        rel = (float(big), str(den_)[:60])
        certified_all = False
        if rel is not None and rel[0] > FLOOR_MAX:
            ctx.violated('C02.f', inst, fn, 'a path returns %s when the bracket is narrower than %g relative to %s, without any comparison with xAccuracy: for a requested '
                         'accuracy below that tolerance a bracket wider than the accuracy is accepted' % (str(o.value)[:30], rel[0], rel[1]),
                         witness={'tolerance': rel[0], 'reproducer': 'Find_Root(atan(1e6 (x-1)), 0, 3, 1e-13): the returned point is further than 1e-13 from 1'}, line=loop['l'])
        elif rel is not None:
            ctx.holds('C02.f', inst, fn, 'a path accepts a bracket of relative width below %g (the spacing of doubles), below every accuracy the property quantifies over' % rel[0], line=loop['l'])
        else:
            ctx.undecided('C02.f', inst, fn, 'a returning path of the iteration neither hits an exact zero nor compares anything with xAccuracy: %s'
                          % [str(c_)[:100] for c_ in flat(o.state.conds[n0:])][-2:], line=loop['l'])
    # ---- C02.e stopping
    okres = False
    detail = 'previous-iterate variable not found'
    if not kres:
        okres = True
        detail = 'no variable carries a previous iterate into the stopping test'
    elif len(kres) == 1:
        v = init[kres[0]]
        okres = isinstance(v, sp.Basic) and v.is_number and abs(float(v)) >= 1e50
        detail = '`%s` starts at %s' % (ents[kres[0]], v)
    else:
        # a non-constant start (e.g. an end of the bracket) lets the test fire immediately
        cands = [k for k in ents if k not in (kx1, kx2, kf1, kf2) and init.get(k) is not None and k != sx.counter_key(loop)]
        if cands:
            detail = 'previous-iterate variable `%s` starts at %s' % (ents[cands[0]], init[cands[0]])
    if not okres and certified_all:
        okres = True
        detail += '; an early agreement cannot accept on its own: every accepting path also requires the bracket to be narrower than the accuracy'
    ctx.decide('C02.e', 'sentinel', fn, okres, 'the previous-iterate variable starts at a constant sentinel: ' + detail,
               'the stopping test can fire in the first iteration: ' + detail + ' (a point next to that value is returned without any convergence)',
               witness={'reproducer': 'x^3-0.5 on [1e-3,100], accuracy 1e-3 returns 0.0018 instead of 0.7937'} if not okres else None)

"""C18 - samplers are reproducible from the generator state (effects, provenance and window-count clauses)."""
import sympy as sp
from sympy import Symbol, Function, S
from ..ir import (AnalysisBroken, Undecided, show, strip, strip_casts, walk_stmts, stmt_exprs, walk_expr, calls,
                  all_exprs, local_decls)
from ..symx import Symx, State, Arr, is_zero

L = 'libphysica::'
ENGINE = 'std::mersenne_twister_engine'
ENTROPY_CALLS = ('rand', 'srand', 'time', 'clock', 'std::rand', 'std::srand', 'std::time', 'std::clock', 'random', 'drand48')


def closure(prog, root):
    seen, todo = {}, [root]
    while todo:
        f = todo.pop()
        if f.sig in seen:
            continue
        seen[f.sig] = f
        for c in calls(f):
            cc = c.get('callee') or {}
            if cc.get('inrepo'):
                g = prog.by_sig(cc['sig'])
                if g is not None:
                    todo.append(g)
    return list(seen.values())


def assignments_to(fn, name):
    out = []
    for e in all_exprs(fn, into_lambdas=False):
        if e.get('k') == 'Bin' and e['op'] == '=' and strip(e['lhs']).get('k') == 'Ref' and strip(e['lhs'])['name'] == name:
            out.append(strip_casts(e['rhs']))
    for d in local_decls(fn):
        if d['name'] == name and d.get('init') is not None:
            out.append(strip_casts(d['init']))
    return out


def check(prog, ctx):
    ctx.rule('C18.a', 'randomness comes only from the caller\'s engine: in the closure of every function with a std::mt19937& parameter there is no '
             'entropy source, no engine construction, no static engine/distribution and no mutable static; every draw receives the function\'s own '
             'engine parameter and distribution objects are non-static locals', 11)
    ctx.rule('C18.b', 'values come from the requested domain by construction: rejection samplers return variables drawn uniformly from their own '
             'axis limits; Metropolis starts inside a given domain and gives candidates outside it acceptance 0; inverse transform returns the root '
             'finder\'s result on [xMin,xMax]', 5)
    ctx.rule('C18.c', 'Metropolis acceptance is min(1, PDF(candidate)/PDF(current)) compared with a fresh uniform draw; Sample_Gauss is '
             'Quantile_Gauss of a uniform(0,1) draw', 3)
    ctx.rule('C18.d', 'exact sample count: the chain runs for i in [0, burn_in + thinning*sample) and keeps x iff i >= burn_in and i % thinning == 0 '
             '(a window of length thinning*sample contains exactly `sample` multiples of thinning)', 2)
    entries = [f for f in prog.repo_functions() if any(p['ty'].startswith(ENGINE) for p in f.params)]
    if len(entries) < 11:
        raise AnalysisBroken('expected at least 11 functions with an engine parameter, found %d' % len(entries))
    for fn in sorted(entries, key=lambda f: f.line):
        ep = [p for p in fn.params if p['ty'].startswith(ENGINE)][0]
        probs = []
        cl = closure(prog, fn)
        for g in cl:
            gp = [p for p in g.params if p['ty'].startswith(ENGINE)]
            for d in local_decls(g):
                if d['ty'].startswith(ENGINE) or d['ty'] == 'std::random_device':
                    probs.append('%s constructs %s `%s`' % (g.name, 'an engine' if d['ty'].startswith(ENGINE) else 'a random_device', d['name']))
                if d.get('static') and not d.get('const'):
                    probs.append('%s has the mutable static `%s` (%s): state carried between calls' % (g.name, d['name'], d['ty'][:50]))
                if d.get('static') and '_distribution<' in d['ty']:
                    probs.append('%s draws from the static distribution object `%s`, which keeps state between calls' % (g.name, d['name']))
            for c in calls(g):
                cc = c.get('callee') or {}
                q = cc.get('q', '')
                if q in ENTROPY_CALLS or q.startswith('std::chrono') or 'random_device' in q:
                    probs.append('%s calls %s' % (g.name, q))
                callee = prog.by_sig(cc.get('sig')) if cc.get('inrepo') else None
                if callee is not None:
                    for p, a in zip(callee.params, c.get('args', [])):
                        if p['ty'].startswith(ENGINE):
                            an = strip_casts(a).get('name')
                            if not gp or an != gp[0]['name']:
                                probs.append('%s passes `%s` to %s instead of its own engine parameter' % (g.name, show(a), cc['name']))
                elif c.get('kind') == 'functor':
                    for a in c.get('args', []):
                        if strip_casts(a).get('ty', '').startswith(ENGINE):
                            if not gp or strip_casts(a).get('name') != gp[0]['name']:
                                probs.append('%s draws with `%s`' % (g.name, show(a)))
            # the engine must not be copied on its way to a draw: std::bind and by-value lambda captures store a copy, so the draws
            # advance the copy and the caller's engine stays where it was
            if gp:
                for c in calls(g):
                    cc = c.get('callee') or {}
                    q = cc.get('q', '')
                    if q.startswith('std::') and not cc.get('inrepo'):
                        direct = [a for a in c.get('args', []) if strip_casts(a).get('k') == 'Ref' and strip_casts(a).get('name') == gp[0]['name']]
                        if direct and q in ('std::bind', 'std::bind_front', 'std::make_tuple', 'std::make_pair', 'std::thread', 'std::async'):
                            probs.append('%s hands `%s` to %s, which stores a copy of the engine (std::ref is missing): draws advance the copy, not the caller\'s engine' % (g.name, gp[0]['name'], q))
                        elif direct and q not in ('std::ref', 'std::forward', 'std::move') and c.get('kind') == 'func':
                            probs.append('UNDECIDED %s hands `%s` to %s' % (g.name, gp[0]['name'], q))
                for e in all_exprs(g):
                    if e.get('k') == 'Lambda':
                        for cap in e.get('captures', []):
                            if cap.get('name') == gp[0]['name'] and not cap.get('byref'):
                                probs.append('%s captures `%s` by value in a lambda: draws inside it advance a copy of the engine' % (g.name, gp[0]['name']))
            for e in all_exprs(g):
                if e.get('k') == 'Ref' and e.get('rk') == 'global' and not e.get('const') and e.get('q', '').startswith(L) and \
                        (e.get('ty', '').startswith(ENGINE) or '_distribution<' in e.get('ty', '')):
                    probs.append('%s uses the namespace-scope object %s' % (g.name, e['q']))
        probs = sorted(set(probs))
        und = [p_ for p_ in probs if p_.startswith('UNDECIDED ')]
        if und and len(und) == len(probs):
            ctx.undecided('C18.a', '%s/%d' % (fn.name, len(fn.params)), fn, '; '.join(p_[10:] for p_ in und) + ': whether that keeps the caller\'s engine is not known')
            continue
        probs = [p_ for p_ in probs if p_ not in und]
        ctx.decide('C18.a', '%s/%d' % (fn.name, len(fn.params)), fn, not probs,
                   'all randomness flows from parameter `%s` (closure of %d functions)' % (ep['name'], len(cl)), '; '.join(probs),
                   witness={'problems': probs} if probs else None)
    ctx.sub('domain', domain, prog, ctx)
    ctx.sub('acceptance', acceptance, prog, ctx)
    ctx.sub('counts', counts, prog, ctx)
    ctx.rule('C18.e', 'dependency: Inverse_Transform_Sampling returns the root found by Find_Root and Sample_Gauss the value of Quantile_Gauss; '
             'they inherit the obligations of C02 and of C07.d about those functions', 8)
    ctx.inherit('C02', lambda o: o.rule.startswith('C02.'), 'C18.e', 'Inverse_Transform_Sampling')
    ctx.inherit('C07', lambda o: o.rule == 'C07.d' and 'Quantile_Gauss' in o.instance, 'C18.e', 'Sample_Gauss')


def uniform_args(prog, e):
    """Sample_Uniform(PRNG, lo, hi) -> (lo text, hi text)"""
    e = strip_casts(e)
    if e.get('k') == 'Call' and (e.get('callee') or {}).get('q') == L + 'Sample_Uniform' and len(e['args']) == 3:
        return show(strip_casts(e['args'][1])), show(strip_casts(e['args'][2]))
    return None


def domain(prog, ctx):
    R = 'C18.b'
    rs = prog.fn(L + 'Rejection_Sampling')
    ps = [p['name'] for p in rs.params]     # PDF, xMin, xMax, yMax, PRNG
    rets = [s for s in walk_stmts(rs.body) if s['k'] == 'Return']
    rv = show(strip_casts(rets[-1]['e'])) if rets else None
    src = [uniform_args(prog, a) for a in assignments_to(rs, rv)] if rv else []
    ok = len(src) == 1 and src[0] == (ps[1], ps[2])
    ctx.decide(R, 'Rejection_Sampling', rs, ok, 'returns the variable drawn uniformly from [xMin,xMax]', 'returned variable `%s` is assigned from %s' % (rv, src))
    r2 = prog.fn(L + 'Rejection_Sampling_2D')
    ps = [p['name'] for p in r2.params]     # PRNG, PDF, xMin, xMax, yMin, yMax, zMax
    rets = [s for s in walk_stmts(r2.body) if s['k'] == 'Return']
    comps = None
    if rets:
        e = strip(rets[-1]['e'])
        names = [n['name'] for n in walk_expr(e) if n.get('k') == 'Ref' and n.get('rk') == 'local']
        comps = names[:2] if len(names) >= 2 else None
    probs = []
    if not comps:
        ctx.undecided(R, 'Rejection_Sampling_2D', r2, 'returned pair not recognised')
    else:
        want = [(ps[2], ps[3]), (ps[4], ps[5])]
        for nm, w in zip(comps, want):
            src = [uniform_args(prog, a) for a in assignments_to(r2, nm)]
            if src != [w]:
                probs.append('component `%s` is drawn from %s, expected uniform on (%s, %s)' % (nm, src, w[0], w[1]))
        # the PDF is evaluated at the same pair
        pc = [c for c in calls(r2, into_lambdas=False) if c.get('kind') == 'stdfn' and strip(c['fn']).get('name') == ps[1]]
        if len(pc) != 1 or [show(strip_casts(a)) for a in pc[0]['args']] != comps:
            probs.append('PDF is evaluated at %s' % [[show(a) for a in c['args']] for c in pc])
        ctx.decide(R, 'Rejection_Sampling_2D', r2, not probs, 'x is uniform on [xMin,xMax], y on [yMin,yMax], PDF evaluated at (x,y)', '; '.join(probs),
                   witness={'problems': probs} if probs else None)
    it = prog.fn(L + 'Inverse_Transform_Sampling')
    ps = [p['name'] for p in it.params]
    rets = [s for s in walk_stmts(it.body) if s['k'] == 'Return' ]
    rets = [s for s in it.body['body'] if s['k'] == 'Return']
    ok = False
    if len(rets) == 1:
        e = strip(rets[0]['e'])
        if e.get('k') == 'Call' and (e.get('callee') or {}).get('q') == L + 'Find_Root':
            a = [show(strip_casts(x)) for x in e['args']]
            ok = a[1] == ps[1] and a[2] == ps[2]
    ctx.decide(R, 'Inverse_Transform_Sampling', it, ok, 'returns Find_Root(xi - cdf(x)) on [xMin,xMax]', 'does not return the root on [xMin,xMax]')
    for name, axes in (('Sample_Metropolis', 1), ('Sample_Metropolis_2D', 2)):
        fn = prog.fn(L + name)
        roles = metropolis_roles(prog, fn)
        if roles is None:
            ctx.undecided(R, name + ':domain', fn, 'chain / candidate / acceptance variables not identified by role')
            continue
        X, C, V, dom = roles['x'], roles['cand'], roles['acc'], roles['domain']
        probs = []
        # rejection outside the domain, from the one-iteration summary of the chain loop: the acceptance probability is 0 exactly on
        # bounded_domain && (candidate component below its lower or above its upper bound), as a boolean function of those tests
        try:
            okrej = outside_rejected(prog, fn, roles, axes)
        except Undecided as ex_:
            ctx.undecided(R, name + ':domain', fn, 'rejection step outside the understood fragment: %s' % ex_)
            continue
        if not okrej:
            probs.append('candidates outside the domain are not given acceptance probability 0 on every side of the domain')
        starts = []
        for e in all_exprs(fn, into_lambdas=False):
            if e.get('k') == 'Call' and (e.get('callee') or {}).get('q') == L + 'Sample_Uniform':
                u = uniform_args(prog, e)
                if u and u[0].startswith(dom + '['):
                    starts.append(u)
        want = [('%s[%d]' % (dom, 2 * k), '%s[%d]' % (dom, 2 * k + 1)) for k in range(axes)]
        if starts != want:
            probs.append('the chain does not start from a uniform draw inside the domain: %s' % starts)
        ctx.decide(R, name + ':domain', fn, not probs, 'starts inside a given domain and never accepts a candidate outside it', '; '.join(probs))


def _bool_atoms(f, table):
    """Replace every relational atom of boolean f by a propositional symbol (complementary relations share one symbol)."""
    def key(r):
        if isinstance(r, (sp.Lt, sp.Ge)):
            return ('lt', r.lhs, r.rhs), isinstance(r, sp.Ge)
        if isinstance(r, (sp.Gt, sp.Le)):
            return ('lt', r.rhs, r.lhs), isinstance(r, sp.Le)
        if isinstance(r, (sp.Eq, sp.Ne)):
            a_, b_ = sorted([r.lhs, r.rhs], key=str)
            return ('eq', a_, b_), isinstance(r, sp.Ne)
        return None, False
    rep = {}
    for r in f.atoms(sp.core.relational.Relational):
        k_, neg = key(r)
        if k_ is None:
            raise Undecided('relation %s' % r)
        if k_ not in table:
            table[k_] = Symbol('p%d' % len(table))
        rep[r] = sp.Not(table[k_]) if neg else table[k_]
    return f.xreplace(rep)


def outside_rejected(prog, fn, roles, axes):
    X, C, V, dom = roles['x'], roles['cand'], roles['acc'], roles['domain']
    ids = {}
    for n_ in all_exprs(fn, into_lambdas=False):
        if n_.get('k') == 'Ref' and n_.get('rk') == 'local' and n_.get('name') in (C, V):
            ids[n_['name']] = n_['id']
    for d_ in local_decls(fn):
        if d_['name'] in (C, V):
            ids[d_['name']] = d_['id']
    loops = [s_ for s_ in walk_stmts(fn.body) if s_['k'] in ('For', 'While') and
             any(x_.get('k') == 'Ref' and x_.get('name') == V for y_ in walk_stmts(s_['body']) for e_ in stmt_exprs(y_) for x_ in walk_expr(e_))]
    if len(loops) != 1 or len(ids) != 2:
        raise Undecided('chain loop / role variables not identified')
    sx = Symx(prog, fn)
    sts = sx.states_at(fn, loops[0])
    if not sts:
        raise Undecided('no path reaches the chain loop')
    # the flag that says whether a domain was given: a bool (parameter or local) read in the loop body
    bids = {}
    for y_ in walk_stmts(loops[0]['body']):
        for e_ in stmt_exprs(y_):
            for x_ in walk_expr(e_):
                if x_.get('k') == 'Ref' and x_.get('ty') == 'bool' and x_.get('rk') in ('local', 'param') and x_.get('name') != V:
                    bids[x_['id']] = x_
    inner_decl = set(d_['id'] for y_ in walk_stmts(loops[0]['body']) if y_['k'] == 'Decl' for d_ in y_['decls'])
    bids = {k_: v_ for k_, v_ in bids.items() if k_ not in inner_decl}
    from sympy.logic.inference import satisfiable
    D = Function(dom, real=True)
    for st0 in sts:
        entry, cond, live, done, n0 = sx.loop_step(loops[0], st0)
        B = sp.true
        for bid, bnode in bids.items():
            if bid in entry:
                raise Undecided('the domain flag is modified inside the chain loop')
            bv = st0.env.get(bid, sx.symbol(bnode['name'], 'bool'))
            B = sp.And(B, sx.as_bool(bv) if not isinstance(bv, bool) else (sp.true if bv else sp.false))
        cases = []
        for p_ in live:
            v_ = p_.env.get(ids[V])
            pc = sp.And(*p_.conds[n0:]) if len(p_.conds) > n0 else sp.true
            if isinstance(v_, sp.Piecewise):
                prev = sp.true
                for val_, c_ in v_.args:
                    cases.append((sp.And(pc, prev, c_) if c_ not in (True, sp.true) else sp.And(pc, prev), val_))
                    if c_ not in (True, sp.true):
                        prev = sp.And(prev, sp.Not(c_))
            elif isinstance(v_, sp.Basic):
                cases.append((pc, v_))
            else:
                raise Undecided('acceptance probability has no value on a path')
        if not cases:
            raise Undecided('no paths through the chain loop')
        zero = sp.Or(*[c_ for c_, v_ in cases if v_ == 0]) if any(v_ == 0 for _, v_ in cases) else sp.false
        if B == sp.false:
            # no domain given: nothing may be rejected for lying outside
            if zero != sp.false and satisfiable(_bool_atoms(zero, {})) is not False:
                return False
            continue
        allrel = set()
        for c_, v_ in cases:
            allrel |= c_.atoms(sp.core.relational.Relational)
        comp_of = {}
        for r_ in allrel:
            for side, other in ((r_.lhs, r_.rhs), (r_.rhs, r_.lhs)):
                if isinstance(side, sp.core.function.AppliedUndef) and side.func == D and len(side.args) == 1 and side.args[0].is_Integer:
                    comp_of.setdefault(int(side.args[0]) // 2, set()).add(other)
        if sorted(comp_of) != list(range(axes)) or any(len(v_) != 1 for v_ in comp_of.values()):
            return False
        want = sp.false
        for k_ in range(axes):
            c_ = list(comp_of[k_])[0]
            want = sp.Or(want, sp.Lt(c_, D(2 * k_)), sp.Gt(c_, D(2 * k_ + 1)))
        want = sp.And(B, want)
        table = {}
        zf = _bool_atoms(zero, table)
        wf = _bool_atoms(want, table)
        # paths split further on tests made after the acceptance probability is set (the uniform draw, the thinning counter): those
        # atoms cancel when the paths are joined, so the two formulas must be equivalent outright
        if satisfiable(sp.Xor(zf, wf)) is not False:
            return False
    return True


def metropolis_roles(prog, fn):
    """chain variable (pushed to the result), candidate (assigned to it on acceptance), acceptance variable, domain parameter."""
    pb = [c for c in calls(fn, into_lambdas=False) if c.get('kind') == 'method' and (c.get('callee') or {}).get('name') == 'push_back']
    if len(pb) != 1 or strip_casts(pb[0]['args'][0]).get('k') != 'Ref':
        return None
    X = strip_casts(pb[0]['args'][0])['name']
    eng = fn.params[0]['name']
    for s in walk_stmts(fn.body):
        if s['k'] != 'If':
            continue
        cnd = strip(s['cond'])
        if cnd.get('k') == 'Bin' and cnd['op'] in ('<', '>', '<=', '>='):
            l, r = strip_casts(cnd['lhs']), strip_casts(cnd['rhs'])
            draw, var = (l, r) if cnd['op'] in ('<', '<=') else (r, l)
            if draw.get('k') == 'Call' and (draw.get('callee') or {}).get('q') == L + 'Sample_Uniform' and var.get('k') == 'Ref':
                ua = uniform_args(prog, draw)
                th = [strip(e) for x in walk_stmts(s['then']) for e in stmt_exprs(x)]
                if ua == ('0.0', '1.0') and len(th) == 1 and th[0].get('k') == 'Bin' and th[0]['op'] == '=' and strip(th[0]['lhs']).get('name') == X \
                        and strip_casts(th[0]['rhs']).get('k') == 'Ref':
                    dom = [p['name'] for p in fn.params if p['ty'].startswith('std::vector<double')]
                    if len(dom) == 1:
                        return {'x': X, 'cand': strip_casts(th[0]['rhs'])['name'], 'acc': var['name'], 'domain': dom[0], 'strict': cnd['op'] in ('<', '>')}
    return None


def acceptance(prog, ctx):
    R = 'C18.c'
    for name, axes in (('Sample_Metropolis', 1), ('Sample_Metropolis_2D', 2)):
        fn = prog.fn(L + name)
        pdf = [p['name'] for p in fn.params if p['ty'].startswith('std::function')][0]
        roles = metropolis_roles(prog, fn)
        if roles is None:
            ctx.undecided(R, name + ':acceptance', fn, 'acceptance step `uniform(0,1) < p -> x = candidate` not found')
            continue
        X, C, V = roles['x'], roles['cand'], roles['acc']
        # the value of the acceptance variable after one iteration of the chain loop, on the paths that did not leave the domain
        ids = {}
        for n_ in all_exprs(fn, into_lambdas=False):
            if n_.get('k') == 'Ref' and n_.get('rk') == 'local' and n_.get('name') in (X, C, V):
                ids[n_['name']] = n_['id']
        for d_ in local_decls(fn):
            if d_['name'] in (X, C, V):
                ids[d_['name']] = d_['id']
        loops = [s_ for s_ in walk_stmts(fn.body) if s_['k'] in ('For', 'While') and
                 any(x_.get('k') == 'Ref' and x_.get('name') == V for y_ in walk_stmts(s_['body']) for e_ in stmt_exprs(y_) for x_ in walk_expr(e_))]
        try:
            if len(loops) != 1 or len(ids) != 3:
                raise Undecided('chain loop / role variables not identified')
            sx = Symx(prog, fn)
            sts = sx.states_at(fn, loops[0])
            if not sts:
                raise Undecided('no path reaches the chain loop')
            entry, cond, live, done, n0 = sx.loop_step(loops[0], sts[0])
            vals = set()
            for p_ in live:
                v_ = p_.env.get(ids[V])
                if isinstance(v_, sp.Basic) and v_ != 0:
                    vals.add(v_)
            F = Function('F:' + pdf, real=True)
            x_in = entry.get(ids[X])
            if axes == 1:
                if not isinstance(x_in, Symbol):
                    raise Undecided('chain variable is not a scalar carried by the loop')
                cands = set(a_.args[0] for v_ in vals for a_ in v_.atoms(sp.core.function.AppliedUndef) if a_.func == F and a_.args[0] != x_in)
                wants = [sp.Min(1, F(c_) / F(x_in)) for c_ in cands]
            else:
                wants = [sp.Min(1, F(Symbol(C + '.first', real=True), Symbol(C + '.second', real=True)) / F(Symbol(X + '.first', real=True), Symbol(X + '.second', real=True)))]
                wants += [sp.Min(1, F(Symbol(C + '.first'), Symbol(C + '.second')) / F(Symbol(X + '.first'), Symbol(X + '.second')))]
            ok = len(vals) == 1 and any(str(list(vals)[0]) == str(w_) or is_zero(list(vals)[0] - w_) for w_ in wants)
            # the candidate of the ratio must be the value that is assigned to the chain variable on acceptance
            if ok and axes == 1:
                acc_x = set(p_.env.get(ids[X]) for p_ in live) - {x_in}
                ok = acc_x == cands
            ctx.decide(R, name + ':acceptance', fn, ok, 'accept with probability min(1, PDF(candidate)/PDF(current)) using a fresh uniform(0,1) draw',
                       'acceptance probability is %s, expected min(1, PDF(candidate)/PDF(current))' % sorted(str(v_)[:200] for v_ in vals))
        except Undecided as ex_:
            ctx.undecided(R, name + ':acceptance', fn, 'acceptance step outside the understood fragment: %s' % ex_)
    sg = prog.fn(L + 'Sample_Gauss')
    sx = Symx(prog, sg)
    outs = [o for o in sx.run() if o.kind == 'return']
    v = outs[0].value if len(outs) == 1 else None
    ok = False
    if isinstance(v, sp.core.function.AppliedUndef) and v.func.__name__ == L + 'Quantile_Gauss' and len(v.args) == 3:
        u = v.args[0]
        ps = [p['name'] for p in sg.params]
        ok = isinstance(u, sp.core.function.AppliedUndef) and u.func.__name__ == L + 'Sample_Uniform' and list(u.args[1:]) == [0, 1] and \
            str(v.args[1]) == ps[1] and str(v.args[2]) == ps[2]
    ctx.decide(R, 'Sample_Gauss', sg, ok, 'Quantile_Gauss(uniform(0,1), mean, standard_deviation)', 'Sample_Gauss returns %s' % v, form=str(v))


def counts(prog, ctx):
    R = 'C18.d'
    for name in ('Sample_Metropolis', 'Sample_Metropolis_2D'):
        fn = prog.fn(L + name)
        sx = Symx(prog, fn)
        st = State({})
        loops = [s for s in fn.body['body'] if s['k'] == 'For']
        if len(loops) != 1:
            ctx.undecided(R, name + ':count', fn, 'main loop not found')
            continue
        for s in fn.body['body']:
            if s is loops[0]:
                break
            if s['k'] == 'Decl':
                try:
                    sx.exec(s, [st])
                except Undecided:
                    pass
        cl = sx.counted(loops[0], st)
        sample, thinning, burn = [sx.symbol(n, 'unsigned int') for n in ('sample', 'thinning', 'burn_in')]
        probs = []
        if not cl or cl[1] != 0 or sp.expand(cl[2] - (burn + thinning * sample)) != 0:
            probs.append('the chain runs for i in [%s, %s), expected [0, burn_in + thinning*sample)' % (cl[1] if cl else '?', cl[2] if cl else '?'))
        keep = None
        for s in walk_stmts(loops[0]['body']):
            if s['k'] == 'If':
                th = [c for x in walk_stmts(s['then']) for e in stmt_exprs(x) for c in walk_expr(e) if c.get('k') == 'Call' and (c.get('callee') or {}).get('name') == 'push_back']
                if th:
                    keep = (s, th)
        if keep is None:
            probs.append('no conditional push_back of the current point')
        else:
            s, th = keep
            i = Symbol(cl[0]['name'] + '_', integer=True) if cl else Symbol('i_', integer=True)
            st2 = st.fork()
            if cl:
                st2.env[cl[0]['id']] = i
            c = sx.as_bool(sx.sym(s['cond'], st2))
            # every condition between the top of the loop body and the push_back counts (an enclosing test that skips the
            # bookkeeping on some iterations changes the number of recorded points)
            def stack_to(node, target, acc):
                if node is target:
                    return acc
                if node.get('k') == 'If':
                    for key_, neg_ in (('then', False), ('else', True)):
                        if node.get(key_) is not None:
                            r_ = stack_to(node[key_], target, acc + [(node, neg_)])
                            if r_ is not None:
                                return r_
                    return None
                from ..ir import stmt_children
                for ch_ in stmt_children(node):
                    r_ = stack_to(ch_, target, acc)
                    if r_ is not None:
                        return r_
                return None
            outer_ifs = stack_to(loops[0]['body'], s, []) or []
            for if_, neg_ in outer_ifs:
                try:
                    oc = sx.as_bool(sx.sym(if_['cond'], st2))
                except Undecided:
                    oc = Symbol('cond@line%s' % if_.get('l'))
                c = sp.And(c, sp.Not(oc) if neg_ else oc)
            want = sp.And(sp.Ge(i, burn), sp.Eq(sp.Mod(i, thinning), 0))
            if c != want and not (isinstance(c, sp.And) and set(c.args) == set(want.args)):
                probs.append('a point is kept iff %s, expected i >= burn_in and i %% thinning == 0' % c)
            if len(th) != 1 or strip_casts(th[0]['args'][0]).get('k') != 'Ref':
                probs.append('kept value is %s' % [show(a) for t in th for a in t['args']])
        ctx.decide(R, name + ':count', fn, not probs, 'window [burn_in, burn_in+thinning*sample) and retention at multiples of thinning: exactly `sample` points',
                   '; '.join(probs), witness={'reproducer': 'thinning >= 2 and burn_in % thinning != 0 return sample-1 points'} if probs else None)

"""C09 - interpolation results do not depend on the history of earlier calls (state confinement, sibling searches)."""
import sympy as sp
from sympy import Symbol, S
from ..ir import (AnalysisBroken, Undecided, show, strip, strip_casts, walk_stmts, stmt_exprs, walk_expr, calls,
                  all_exprs, stmt_children)
from ..symx import Symx, State
from .. import guards as G

L = 'libphysica::'
CLS = L + 'Interpolation'
CLS2 = L + 'Interpolation_2D'


STD_READERS = {'begin', 'end', 'cbegin', 'cend', 'rbegin', 'rend', 'size', 'empty', 'back', 'front', 'at', 'data', 'find', 'count',
               'length', 'c_str', 'good', 'is_open'}


def field_writes(fn):
    """Names of this-fields written in fn (assignment, ++/--, non-const member call, passed by mutable reference)."""
    out = {}
    for e in all_exprs(fn, into_lambdas=True):
        tgt = None
        if e.get('k') == 'Bin' and e['op'] in ('=', '+=', '-=', '*=', '/=', '%='):
            tgt = e['lhs']
        elif e.get('k') == 'Un' and e['op'] in ('++', '--'):
            tgt = e['e']
        elif e.get('k') == 'Call' and e.get('kind') == 'method' and not (e.get('callee') or {}).get('const'):
            cc = e.get('callee') or {}
            if not (cc.get('cls', '').startswith('std::') and cc.get('name') in STD_READERS):
                tgt = e['obj']
        if e.get('k') == 'Call':
            for i in (e.get('callee') or {}).get('mutrefs', []):
                if i < len(e.get('args', [])):
                    t = strip(e['args'][i])
                    while t.get('k') == 'Index':
                        t = strip(t['base'])
                    if t.get('k') == 'Member' and strip(t['base']).get('k') == 'This':
                        out[t['name']] = e
        if tgt is not None:
            t = strip(tgt)
            while t.get('k') == 'Index':
                t = strip(t['base'])
            if t.get('k') == 'Member' and strip(t['base']).get('k') == 'This':
                out[t['name']] = e
            if t.get('k') == 'Un' and t['op'] == '*' and strip(t['e']).get('k') == 'This':
                out['*this'] = e
    return out


def field_reads(fn):
    out = {}
    for e in all_exprs(fn, into_lambdas=True):
        if e.get('k') == 'Member' and strip(e['base']).get('k') == 'This' and not e.get('method'):
            out[e['name']] = e
    return out


def x_comparison(prog, cond, xname):
    """Find an atom comparing parameter x with an abscissa element X[m]; returns (op, index expr, atom) with x on the left."""
    f = G.from_cond(cond)
    for a in G.f_atoms(f):
        a = strip(a)
        if a.get('k') != 'Bin' or a['op'] not in ('<', '>', '<=', '>='):
            continue
        l, r = strip_casts(a['lhs']), strip_casts(a['rhs'])
        flip = {'<': '>', '>': '<', '<=': '>=', '>=': '<='}
        if l.get('k') == 'Ref' and l.get('name') == xname and r.get('k') == 'Index':
            return a['op'], strip_casts(r['idx']), a
        if r.get('k') == 'Ref' and r.get('name') == xname and l.get('k') == 'Index':
            return flip[a['op']], strip_casts(l['idx']), a
    return None


def assigns_in(stmt):
    """Top-level assignments `V = expr` executed in stmt before any nested branching (first-level only)."""
    out = []
    stmts = stmt['body'] if stmt and stmt['k'] == 'Compound' else ([stmt] if stmt else [])
    for s in stmts:
        if s['k'] == 'Expr':
            e = strip(s['e'])
            if e.get('k') == 'Bin' and e['op'] == '=' and strip(e['lhs']).get('k') == 'Ref':
                out.append((strip(e['lhs'])['name'], strip_casts(e['rhs']), s))
        elif s['k'] == 'Return':
            out.append(('<return>', strip_casts(s.get('e')), s))
    return out


def closedness_sites(prog, fn):
    """For every comparison of x with X[m] in a search: where does the equality case x==X[m] put m?"""
    xname = fn.params[0]['name']
    # lower = the variable returned at the end
    rets = [s for s in walk_stmts(fn.body) if s['k'] == 'Return']
    final = strip_casts(rets[-1]['e']) if rets else None
    lower = final['name'] if final and final.get('k') == 'Ref' else None
    sites = []

    def role_of(var):
        return 'lower' if var == lower else 'upper'

    def eq_true(op):
        return op in ('>=', '<=')

    def visit(s):
        if s is None:
            return
        k = s['k']
        if k in ('If', 'While'):
            xc = x_comparison(prog, s['cond'], xname)
            if xc:
                op, idx, atom = xc
                m = show(idx)
                if k == 'If':
                    branch = s['then'] if eq_true(op) else s.get('else')
                    res = None
                    # follow else-if chains on the same element
                    cur = branch
                    while cur is not None and cur['k'] == 'If':
                        xc2 = x_comparison(prog, cur['cond'], xname)
                        if not xc2 or show(xc2[1]) != m:
                            break
                        cur = cur['then'] if eq_true(xc2[0]) else cur.get('else')
                    for var, rhs, st in assigns_in(cur):
                        if rhs is not None and show(rhs) == m:
                            res = 'left' if (var == '<return>' or role_of(var) == 'lower') else 'right'
                            break
                    if res is None and cur is not None:
                        # the index expression is a variable that keeps its role
                        if idx.get('k') == 'Ref':
                            # e.g. if(x > X[jLast]) ... else if(x < X[jLast]) ... else return jLast
                            pass
                    sites.append({'stmt': s, 'op': op, 'm': m, 'closed': res, 'kind': 'if'})
                else:
                    body_moves = [(var, rhs) for var, rhs, st in assigns_in(s['body']) if rhs is not None and show(rhs) == m]
                    res = None
                    if eq_true(op):
                        for var, rhs in body_moves:
                            res = 'left' if role_of(var) == 'lower' else 'right'
                    else:
                        if idx.get('k') == 'Ref':
                            res = 'left' if role_of(idx['name']) == 'lower' else 'right'
                    sites.append({'stmt': s, 'op': op, 'm': m, 'closed': res, 'kind': 'while'})
        for c in stmt_children(s):
            visit(c)
    visit(fn.body)
    return sites, lower


def check(prog, ctx):
    ctx.rule('C09.a', 'cache confinement: the fields written by Locate (the search cache) are read and written only by Locate and the search '
             'helpers it calls; the search helpers are called only from Locate; Interpolation_2D touches its helper objects only through Locate', 4)
    ctx.rule('C09.b', 'the two index searches behind Locate choose the same segment for x equal to a knot: in every comparison of x with X[m] '
             'the equality case puts m on the same side (all left-closed [X(j),X(j+1)) or all right-closed)', 4)
    ctx.rule('C09.c', 'range clamps: in the hunting loops the running index is clamped (to N-1 resp. 0) on every path that continues the loop', 2)
    ctx.rule('C09.d', 'nothing else is state: Set_Prefactor/Multiply write only the prefactor, all other query members write no field, no mutable '
             'or static members, no user-declared copy/move operations on the interpolation classes', 6)
    loc = prog.fn(CLS + '::Locate')
    cache = sorted(field_writes(loc))
    if not cache:
        raise AnalysisBroken('Locate writes no field: the search cache anchor vanished')
    # helpers: in-class functions called from Locate
    helpers = set()
    for c in calls(loc):
        cc = c.get('callee') or {}
        if cc.get('cls') == CLS and cc.get('inrepo'):
            helpers.add(cc['q'])
    closure = set(helpers)
    for q in list(helpers):
        for f in prog.fns(q):
            for c in calls(f):
                cc = c.get('callee') or {}
                if cc.get('cls') == CLS and cc.get('inrepo') and cc['q'] != loc.q:
                    closure.add(cc['q'])
    allowed = {loc.q} | closure
    bad = []
    nfun = 0
    for fn in prog.all_functions():
        if fn.cls != CLS:
            continue
        nfun += 1
        if fn.q in allowed or fn.d.get('ctor'):
            continue
        touched = (set(field_reads(fn)) | set(field_writes(fn))) & set(cache)
        if touched:
            bad.append('%s touches %s' % (fn.q.replace(L, ''), sorted(touched)))
    # also any access from outside the class (fields are private, but check friend/other)
    for fn in prog.all_functions():
        if fn.cls == CLS:
            continue
        for e in all_exprs(fn):
            if e.get('k') == 'Member' and e.get('cls') == CLS and e['name'] in cache:
                bad.append('%s touches %s' % (fn.q, e['name']))
    ctx.decide('C09.a', 'cache-fields:%s' % ','.join(cache), loc, not bad,
               'cache fields %s are touched only by %s (of %d members)' % (cache, sorted(x.replace(L, '') for x in allowed), nfun),
               'cache fields leak: %s' % bad, witness=bad)
    # callers of helpers
    badc = []
    for fn in prog.all_functions():
        if fn.q in allowed:
            continue
        for c in calls(fn):
            if (c.get('callee') or {}).get('q') in closure:
                badc.append('%s calls %s' % (fn.q.replace(L, ''), c['callee']['name']))
    ctx.decide('C09.a', 'search-helpers-private', loc, not badc,
               'search helpers %s are called only from Locate/each other' % sorted(x.replace(L, '') for x in closure),
               'search helpers are called from outside Locate: %s' % badc)
    # Locate selects between sibling searches
    ctx.decide('C09.a', 'Locate:siblings', loc, len(closure) >= 2, 'Locate dispatches to %d search helpers' % len(closure),
               'fewer than two search helpers found (%s)' % sorted(closure))
    # Interpolation_2D uses helper objects only through Locate / construction / domain
    helper_fields = [f['name'] for f in prog.classes[CLS2]['fields'] if f['ty'] == CLS]
    bad2 = []
    for fn in prog.all_functions():
        if fn.cls != CLS2 or fn.d.get('ctor'):
            continue
        for c in calls(fn):
            if c.get('kind') == 'method':
                o = strip(c['obj'])
                if o.get('k') == 'Member' and o['name'] in helper_fields and c['callee']['name'] != 'Locate':
                    bad2.append('%s calls %s.%s' % (fn.name, o['name'], c['callee']['name']))
        for n, e in field_writes(fn).items():
            if n in helper_fields and not (e.get('k') == 'Call' and e['callee']['name'] == 'Locate'):
                bad2.append('%s writes %s' % (fn.name, n))
    ctx.decide('C09.a', 'Interpolation_2D:helpers', prog.fn(CLS2 + '::Interpolate'), not bad2 and len(helper_fields) == 2,
               'helper objects %s are used only through Locate' % helper_fields, 'helper objects used otherwise: %s' % bad2)

    # ---- C09.b closedness
    verdicts = []
    for q in sorted(closure):
        fn = prog.fn(q)
        ctx.touch(fn)
        sites, lower = closedness_sites(prog, fn)
        for st in sites:
            verdicts.append((fn, st))
    kinds = set(st['closed'] for fn, st in verdicts if st['closed'])
    und = [(fn, st) for fn, st in verdicts if st['closed'] is None]
    # three-way entry tests (x > X[m] / x < X[m] / else) are closedness-neutral only if the equality case is handled; they are
    # resolved in closedness_sites through the else-chain. Remaining None: undecided.
    for fn, st in verdicts:
        inst = '%s:x%sX[%s]@%s' % (fn.name, st['op'], st['m'], st['kind'])
        if st['closed'] is None:
            ctx.undecided('C09.b', inst, fn, 'cannot tell on which side the equality case x==X[%s] lands' % st['m'], line=st['stmt']['l'])
    if not verdicts:
        raise AnalysisBroken('no comparisons of x with abscissae found in the search helpers')
    majority = None
    if kinds:
        cnt = {k: sum(1 for fn, st in verdicts if st['closed'] == k) for k in kinds}
        # the reference is the plain bisection (the search used by a fresh object)
        ref = [st['closed'] for fn, st in verdicts if st['closed'] and not any(
            (c.get('callee') or {}).get('q') in closure and (c['callee']['q'] != fn.q) for c in calls(fn))]
        majority = ref[0] if ref else max(cnt, key=cnt.get)
    for fn, st in verdicts:
        if st['closed'] is None:
            continue
        inst = '%s:x%sX[%s]@%s' % (fn.name, st['op'], st['m'], st['kind'])
        ctx.decide('C09.b', inst, fn, st['closed'] == majority,
                   'x == X[%s] selects the %s-closed segment, like the plain bisection' % (st['m'], st['closed']),
                   'x == X[%s] selects the %s-closed segment here but the %s-closed one in the bisection search: a used object and a fresh '
                   'object return different segments (and second/third derivatives) at tabulated abscissae' % (st['m'], st['closed'], majority),
                   witness={'comparison': 'x %s x_values[%s]' % (st['op'], st['m']),
                            'reproducer': '20-point table, f(5.5); f(6.5); then Locate(8.0) -> 7 (used) vs 8 (fresh)'},
                   line=st['stmt']['l'])

    # ---- C09.c clamps
    for q in sorted(closure):
        fn = prog.fn(q)
        xname = fn.params[0]['name']
        for s in walk_stmts(fn.body):
            if s['k'] != 'While':
                continue
            xc = x_comparison(prog, s['cond'], xname)
            if not xc or xc[1].get('k') != 'Ref':
                continue
            var = xc[1]['name']
            sx = Symx(prog, fn)
            st0 = State({})
            entry, cond, live, done, n0 = sx.loop_step(s, st0)
            vin = [v for k, v in entry.items() if isinstance(v, Symbol) and str(v) == var + '@in']
            if not vin:
                continue
            vkey = [k for k, v in entry.items() if v is vin[0]][0]
            N = Symbol('this.N', integer=True)
            ok = True
            detail = []
            for p in live:
                vout = p.env.get(vkey)
                conds = p.conds[n0:]
                step = sp.expand(vout - vin[0])
                if step == 0:
                    continue
                up = xc[0] in ('>', '>=')
                viol = sp.Gt(vout, N - 1) if up else sp.Lt(vout, 0)
                if sp.And(*conds, viol) != S.false:
                    ok = False
                    detail.append('path continuing with %s=%s is not protected by a clamp (conditions %s)' % (var, vout, conds))
            nbreak = sum(1 for o in done if o.kind == 'break')
            ctx.decide('C09.c', '%s:clamp:%s' % (fn.name, var), fn, ok and nbreak >= 1,
                       'every path that continues the hunt keeps %s within the table (%d clamp exits)' % (var, nbreak),
                       '; '.join(detail) or 'no clamp exit in the loop', line=s['l'])

    # ---- C09.d nothing else is state
    for cq in (CLS, CLS2):
        c = prog.classes.get(cq)
        if c is None:
            raise AnalysisBroken('class %s not found' % cq)
        probs = []
        if c['user_copy_ctor'] or c['user_copy_assign'] or c['user_move_ctor'] or c['user_move_assign']:
            probs.append('user-declared copy/move operation')
        if any(f.get('mutable') for f in c['fields']):
            probs.append('mutable field')
        if c['static_members']:
            probs.append('static data member %s' % c['static_members'])
        ctx.decide('C09.d', cq.replace(L, '') + ':class-shape', None, not probs,
                   'implicit member-wise copies; no mutable/static members', '; '.join(probs))
    pref_writers = {}
    for cq in (CLS, CLS2):
        setters = [f for f in prog.all_functions() if f.cls == cq and f.name in ('Set_Prefactor', 'Multiply')]
        wsets = [set(field_writes(f)) for f in setters]
        okp = len(setters) == 2 and all(len(w) == 1 for w in wsets) and len(set.union(*wsets)) == 1
        pf = sorted(set.union(*wsets)) if wsets else []
        ctx.decide('C09.d', cq.replace(L, '') + ':prefactor-setters', setters[0] if setters else None, okp,
                   'Set_Prefactor and Multiply write only `%s`' % (pf[0] if pf else '?'), 'setters write %s' % [sorted(w) for w in wsets])
        # Set_Prefactor assigns, Multiply multiplies
        for f in setters:
            e = list(field_writes(f).values())[0]
            want = '=' if f.name == 'Set_Prefactor' else '*='
            p = f.params[0]['name']
            okk = e.get('k') == 'Bin' and e['op'] == want and show(strip_casts(e['rhs'])) == p
            if not okk and f.name == 'Multiply' and e.get('k') == 'Bin' and e['op'] == '=':
                okk = show(e['rhs']).replace(' ', '') in ('%s*%s' % (pf[0], p), '%s*%s' % (p, pf[0]))
            ctx.decide('C09.d', '%s:%s' % (cq.replace(L, ''), f.name), f, okk, '%s %s factor' % (pf[0] if pf else '?', want), 'writes `%s`' % show(e))
        quiet = []
        for f in prog.all_functions():
            if f.cls != cq or f.d.get('ctor') or f in setters or f.q in allowed:
                continue
            w = set(field_writes(f))
            # the coefficient routine writes the coefficient tables; it is reached only from constructors
            if w:
                callers = [g for g in prog.all_functions() if any((c.get('callee') or {}).get('q') == f.q for c in calls(g))]
                if callers and all(g.d.get('ctor') for g in callers):
                    continue
                # 2D Interpolate calls helper.Locate (non-const): recorded as write of helper field; allowed by C09.a
                if cq == CLS2 and w <= set(helper_fields):
                    continue
                quiet.append('%s writes %s' % (f.name, sorted(w)))
        ctx.decide('C09.d', cq.replace(L, '') + ':queries-write-nothing', None, not quiet,
                   'no query member writes a field', 'query members write fields: %s' % quiet)

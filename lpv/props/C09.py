"""C09 - interpolation results do not depend on the history of earlier calls (state confinement, sibling searches)."""
import sympy as sp
from sympy import Symbol, S
from ..ir import (AnalysisBroken, Undecided, show, strip, strip_casts, walk_stmts, stmt_exprs, walk_expr, calls,
                  all_exprs, stmt_children)
from ..symx import Symx, State
from .. import guards as G

L = 'libphysica::'
CLS = L + 'Interpolation'
CLS2 = L + 'Interpolation_2D'


STD_READERS = {'begin', 'end', 'cbegin', 'cend', 'rbegin', 'rend', 'size', 'empty', 'back', 'front', 'at', 'data', 'find', 'count',
               'length', 'c_str', 'good', 'is_open'}


def field_writes(fn):
    """Names of this-fields written in fn (assignment, ++/--, non-const member call, passed by mutable reference)."""
    out = {}
    for e in all_exprs(fn, into_lambdas=True):
        tgt = None
        if e.get('k') == 'Bin' and e['op'] in ('=', '+=', '-=', '*=', '/=', '%='):
            tgt = e['lhs']
        elif e.get('k') == 'Un' and e['op'] in ('++', '--'):
            tgt = e['e']
        elif e.get('k') == 'Call' and e.get('kind') == 'method' and not (e.get('callee') or {}).get('const'):
            cc = e.get('callee') or {}
            if not (cc.get('cls', '').startswith('std::') and cc.get('name') in STD_READERS):
                tgt = e['obj']
        if e.get('k') == 'Call':
            for i in (e.get('callee') or {}).get('mutrefs', []):
                if i < len(e.get('args', [])):
                    t = strip(e['args'][i])
                    while t.get('k') == 'Index':
                        t = strip(t['base'])
                    if t.get('k') == 'Member' and strip(t['base']).get('k') == 'This':
                        out[t['name']] = e
        if tgt is not None:
            t = strip(tgt)
            while t.get('k') == 'Index':
                t = strip(t['base'])
            if t.get('k') == 'Member' and strip(t['base']).get('k') == 'This':
                out[t['name']] = e
            if t.get('k') == 'Un' and t['op'] == '*' and strip(t['e']).get('k') == 'This':
                out['*this'] = e
    return out


def field_reads(fn):
    out = {}
    for e in all_exprs(fn, into_lambdas=True):
        if e.get('k') == 'Member' and strip(e['base']).get('k') == 'This' and not e.get('method'):
            out[e['name']] = e
    return out


def x_comparisons(prog, cond, xname, arrname=None):
    """All atoms comparing parameter x with an array element X[m]: [(op with x on the left, index expr, array name, polarity-ok)]."""
    f = G.from_cond(cond)
    out = []

    def rec(f, positive, conj):
        k = f[0]
        if k == 'atom':
            a = strip(f[1])
            if a.get('k') != 'Bin' or a['op'] not in ('<', '>', '<=', '>='):
                return
            l, r = strip_casts(a['lhs']), strip_casts(a['rhs'])
            flip = {'<': '>', '>': '<', '<=': '>=', '>=': '<='}
            neg = {'<': '>=', '>': '<=', '<=': '>', '>=': '<'}
            op = idx = arr = None
            if l.get('k') == 'Ref' and l.get('name') == xname and r.get('k') == 'Index':
                op, idx, arr = a['op'], strip_casts(r['idx']), show(strip(r['base']))
            elif r.get('k') == 'Ref' and r.get('name') == xname and l.get('k') == 'Index':
                op, idx, arr = flip[a['op']], strip_casts(l['idx']), show(strip(l['base']))
            if op is None or (arrname is not None and arr != arrname):
                return
            if not positive:
                op = neg[op]
            out.append((op, idx, arr, conj))
        elif k == 'not':
            rec(f[1], not positive, conj)
        elif k == 'and':
            for x in f[1]:
                rec(x, positive, conj and positive)
        elif k == 'or':
            for x in f[1]:
                rec(x, positive, conj and not positive)
    rec(f, True, True)
    return out


def x_comparison(prog, cond, xname):
    xs = x_comparisons(prog, cond, xname)
    return (xs[0][0], xs[0][1], None) if xs else None


def assigns_in(stmt):
    """Top-level assignments `V = expr` / returns executed in stmt before any nested branching (first level only)."""
    out = []
    stmts = stmt['body'] if stmt and stmt['k'] == 'Compound' else ([stmt] if stmt else [])
    for s in stmts:
        if s['k'] == 'Expr':
            e = strip(s['e'])
            if e.get('k') == 'Bin' and e['op'] == '=' and strip(e['lhs']).get('k') == 'Ref':
                out.append((strip(e['lhs'])['name'], strip_casts(e['rhs']), s))
        elif s['k'] == 'Return':
            out.append(('<return>', strip_casts(s.get('e')), s))
    return out


def closedness_sites(prog, fn, arrname=None, lower_override=None):
    """For every comparison of x with X[m] in a search: on which side does the equality case x==X[m] put m?

    'left'  = m becomes (or stays) the lower end  -> segments [X(j), X(j+1))
    'right' = m becomes (or stays) the upper end  -> segments (X(j), X(j+1)]"""
    xname = fn.params[0]['name']
    rets = [s for s in walk_stmts(fn.body) if s['k'] == 'Return']
    final = strip_casts(rets[-1]['e']) if rets else None
    lower = lower_override or (final['name'] if final and final.get('k') == 'Ref' else None)
    sx = Symx(prog, fn)
    st0 = State({})

    def ival(e):
        try:
            return sx.sym(e, st0)
        except Undecided:
            return None

    sites = []

    def role_of(var):
        return 'lower' if var == lower else 'upper'

    def eq_true(op):
        return op in ('>=', '<=')

    def outcome(branch, m):
        """closedness implied by the first index move in `branch` relative to element index m."""
        mv = ival(m)
        for var, rhs, st in assigns_in(branch):
            if rhs is None:
                continue
            rv = ival(rhs)
            if rv is None or mv is None:
                continue
            d = sp.simplify(rv - mv)
            low = (var == '<return>' or role_of(var) == 'lower')
            if low and d == 0:
                return 'left'
            if low and d == -1:
                return 'right'
            if not low and d == 0:
                return 'right'
            if not low and d == 1:
                return 'left'
        return None

    def visit(s):
        if s is None:
            return
        k = s['k']
        if k in ('If', 'While'):
            for op, idx, arr, conj in x_comparisons(prog, s['cond'], xname, arrname):
                m = show(idx)
                res = None
                if not conj:
                    sites.append({'stmt': s, 'op': op, 'm': m, 'closed': None, 'kind': k.lower(), 'arr': arr})
                    continue
                if k == 'If':
                    cur = s['then'] if eq_true(op) else s.get('else')
                    # follow else-if chains that test the same element again
                    while cur is not None and cur['k'] == 'If':
                        again = [c for c in x_comparisons(prog, cur['cond'], xname, arrname) if show(c[1]) == m]
                        if not again:
                            break
                        cur = cur['then'] if eq_true(again[0][0]) else cur.get('else')
                    res = outcome(cur, idx)
                    if res is None and (cur is None or not assigns_in(cur)):
                        res = 'neutral'
                else:
                    if eq_true(op):
                        res = outcome(s['body'], idx)
                    elif idx.get('k') == 'Ref':
                        res = 'left' if role_of(idx['name']) == 'lower' else 'right'
                sites.append({'stmt': s, 'op': op, 'm': m, 'closed': res, 'kind': k.lower(), 'arr': arr})
        for c in stmt_children(s):
            visit(c)
    visit(fn.body)
    return sites, lower


def search_rules(prog, ctx, loc, closure, RB='C09.b', RC='C09.c'):
    # ---- C09.b closedness
    verdicts = []
    arrname = None
    for q in sorted(closure):
        fn = prog.fn(q)
        ctx.touch(fn)
        sites, lower = closedness_sites(prog, fn)
        for st in sites:
            verdicts.append((fn, st))
            arrname = arrname or st['arr']
    # Locate itself may short-cut the search: comparisons of x with abscissae there are sites as well
    if arrname:
        ls, _ = closedness_sites(prog, loc, arrname)
        for st in ls:
            verdicts.append((loc, st))
    # a search phase written with a standard algorithm: `upper_bound(...) - begin - 1` is the last index with X[k] <= x (left-closed
    # segments, like the bisection); `lower_bound(...) - begin - 1` is the last index with X[k] < x (right-closed)
    for q in sorted(closure) + [loc.q]:
        for fn in prog.fns(q):
            for c_ in calls(fn):
                qn = (c_.get('callee') or {}).get('q')
                if qn in ('std::lower_bound', 'std::upper_bound') and len(c_.get('args', [])) >= 3:
                    on_x = any(n_.get('k') in ('Member', 'Ref') and n_.get('name') == (arrname or 'x_values') for a_ in c_['args'][:2] for n_ in walk_expr(a_))
                    key_is_x = strip_casts(c_['args'][2]).get('k') == 'Ref' and strip_casts(c_['args'][2]).get('rk') == 'param'
                    if on_x and key_is_x:
                        stmt_ = [s_ for s_ in walk_stmts(fn.body) if any(x_ is c_ for e_ in stmt_exprs(s_) for x_ in walk_expr(e_))]
                        verdicts.append((fn, {'closed': 'left' if qn.endswith('upper_bound') else 'right', 'op': qn.split('::')[-1], 'm': 'k',
                                              'kind': 'algorithm', 'stmt': stmt_[0] if stmt_ else {'l': fn.line}, 'arr': arrname}))
    verdicts = [(fn, st) for fn, st in verdicts if st['closed'] != 'neutral']
    kinds = set(st['closed'] for fn, st in verdicts if st['closed'])
    und = [(fn, st) for fn, st in verdicts if st['closed'] is None]
    # three-way entry tests (x > X[m] / x < X[m] / else) are closedness-neutral only if the equality case is handled; they are
    # resolved in closedness_sites through the else-chain. Remaining None: undecided.
    for fn, st in verdicts:
        inst = '%s:x%sX[%s]@%s' % (fn.name, st['op'], st['m'], st['kind'])
        if st['closed'] is None:
            ctx.undecided(RB, inst, fn, 'cannot tell on which side the equality case x==X[%s] lands' % st['m'], line=st['stmt']['l'])
    if not verdicts:
        raise AnalysisBroken('no comparisons of x with abscissae found in the search helpers')
    majority = None
    if kinds:
        cnt = {k: sum(1 for fn, st in verdicts if st['closed'] == k) for k in kinds}
        # the reference is the plain bisection (the search used by a fresh object)
        ref = [st['closed'] for fn, st in verdicts if st['closed'] and not any(
            (c.get('callee') or {}).get('q') in closure and (c['callee']['q'] != fn.q) for c in calls(fn))]
        majority = ref[0] if ref else max(cnt, key=cnt.get)
    for fn, st in verdicts:
        if st['closed'] is None:
            continue
        inst = '%s:x%sX[%s]@%s' % (fn.name, st['op'], st['m'], st['kind'])
        ctx.decide(RB, inst, fn, st['closed'] == majority,
                   'x == X[%s] selects the %s-closed segment, like the plain bisection' % (st['m'], st['closed']),
                   'x == X[%s] selects the %s-closed segment here but the %s-closed one in the bisection search: a used object and a fresh '
                   'object return different segments (and second/third derivatives) at tabulated abscissae' % (st['m'], st['closed'], majority),
                   witness={'comparison': 'x %s x_values[%s]' % (st['op'], st['m']),
                            'reproducer': '20-point table, f(5.5); f(6.5); then Locate(8.0) -> 7 (used) vs 8 (fresh)'},
                   line=st['stmt']['l'])

    # ---- C09.c clamps
    for q in sorted(closure):
        fn = prog.fn(q)
        xname = fn.params[0]['name']
        for s in walk_stmts(fn.body):
            if s['k'] != 'While':
                continue
            xc = x_comparison(prog, s['cond'], xname)
            if not xc or xc[1].get('k') != 'Ref':
                continue
            var = xc[1]['name']
            sx = Symx(prog, fn)
            st0 = State({})
            entry, cond, live, done, n0 = sx.loop_step(s, st0)
            vin = [v for k, v in entry.items() if isinstance(v, Symbol) and str(v) == var + '@in']
            if not vin:
                continue
            vkey = [k for k, v in entry.items() if v is vin[0]][0]
            N = Symbol('this.N', integer=True)
            ok = True
            detail = []
            for p in live:
                vout = p.env.get(vkey)
                conds = p.conds[n0:]
                step = sp.expand(vout - vin[0])
                if step == 0:
                    continue
                up = xc[0] in ('>', '>=')
                viol = sp.Gt(vout, N - 1) if up else sp.Lt(vout, 0)
                if sp.And(*conds, viol) != S.false:
                    ok = False
                    detail.append('path continuing with %s=%s is not protected by a clamp (conditions %s)' % (var, vout, conds))
            brk = [o for o in done if o.kind == 'break']
            nbreak = len(brk)
            up = xc[0] in ('>', '>=')
            for o in brk:
                vout = o.state.env.get(vkey)
                want = (N - 1) if up else sp.Integer(0)
                if vout is None or sp.simplify(vout - want) != 0:
                    ok = False
                    detail.append('the clamp sets %s to %s instead of the table end %s: the last segment can no longer be selected'
                                  % (var, vout, want))
            ctx.decide(RC, '%s:clamp:%s' % (fn.name, var), fn, ok and nbreak >= 1,
                       'every path that continues the hunt keeps %s within the table; the clamp sets it to the table end (%d clamp exits)' % (var, nbreak),
                       '; '.join(detail) or 'no clamp exit in the loop', line=s['l'])



def check(prog, ctx):
    ctx.rule('C09.a', 'cache confinement: the fields written by Locate (the search cache) are read and written only by Locate and the search '
             'helpers it calls; the search helpers are called only from Locate; Interpolation_2D touches its helper objects only through Locate', 4)
    ctx.rule('C09.b', 'the two index searches behind Locate choose the same segment for x equal to a knot: in every comparison of x with X[m] '
             'the equality case puts m on the same side (all left-closed [X(j),X(j+1)) or all right-closed)', 4)
    ctx.rule('C09.c', 'range clamps: in the hunting loops the running index is clamped (to N-1 resp. 0) on every path that continues the loop', 2)
    ctx.rule('C09.d', 'nothing else is state: Set_Prefactor/Multiply write only the prefactor, all other query members write no field, no mutable '
             'or static members, no user-declared copy/move operations on the interpolation classes', 6)
    ctx.rule('C09.e', 'Set_Prefactor/Multiply change all outputs by exactly the stated factor: every value returned by Interpolate and '
             'Derivative (all orders) is of degree exactly one in the prefactor (a delegated Interpolate(x) counts as degree one)', 2)
    ctx.rule('C09.f', 'precondition of the cached search: a search helper that starts from the cached index reads the table next to that index before '
             'any clamp applies; for every argument Locate hands to it (decided from the path conditions at the call site, evaluated on a concrete '
             'table X[k]=k, k<6, domain [0,5], arguments below/inside/above the domain and in the 1% zones) and every cached index 0..N-2, all table '
             'subscripts evaluated before the first loop iteration lie in 0..N-1', 1)
    ctx.rule('C09.g', 'argument-keyed early returns: where a query member answers from the object under an exact test `argument == member`, the member '
             'is a cache key, and no constructor may initialise it to a value an argument can take (a finite literal): a fresh object would answer '
             'its first query for that argument from the constructor\'s placeholder instead of searching; NaN compares equal to nothing and is admissible', 1)
    ctx.sub('prefactor_degree', prefactor_degree, prog, ctx)
    ctx.sub('keyed_early_returns', keyed_early_returns, prog, ctx)
    loc = prog.fn(CLS + '::Locate')
    cache = sorted(field_writes(loc))
    if not cache:
        raise AnalysisBroken('Locate writes no field: the search cache anchor vanished')
    # helpers: in-class functions called from Locate
    helpers = set()
    for c in calls(loc):
        cc = c.get('callee') or {}
        if cc.get('cls') == CLS and cc.get('inrepo'):
            helpers.add(cc['q'])
    closure = set(helpers)
    for q in list(helpers):
        for f in prog.fns(q):
            for c in calls(f):
                cc = c.get('callee') or {}
                if cc.get('cls') == CLS and cc.get('inrepo') and cc['q'] != loc.q:
                    closure.add(cc['q'])
    allowed = {loc.q} | closure
    bad = []
    nfun = 0
    for fn in prog.all_functions():
        if fn.cls != CLS:
            continue
        nfun += 1
        if fn.q in allowed or fn.d.get('ctor'):
            continue
        touched = (set(field_reads(fn)) | set(field_writes(fn))) & set(cache)
        if touched:
            bad.append('%s touches %s' % (fn.q.replace(L, ''), sorted(touched)))
    # also any access from outside the class (fields are private, but check friend/other)
    for fn in prog.all_functions():
        if fn.cls == CLS:
            continue
        for e in all_exprs(fn):
            if e.get('k') == 'Member' and e.get('cls') == CLS and e['name'] in cache:
                bad.append('%s touches %s' % (fn.q, e['name']))
    ctx.decide('C09.a', 'cache-fields:%s' % ','.join(cache), loc, not bad,
               'cache fields %s are touched only by %s (of %d members)' % (cache, sorted(x.replace(L, '') for x in allowed), nfun),
               'cache fields leak: %s' % bad, witness=bad)
    # callers of helpers
    badc = []
    for fn in prog.all_functions():
        if fn.q in allowed:
            continue
        for c in calls(fn):
            if (c.get('callee') or {}).get('q') in closure:
                badc.append('%s calls %s' % (fn.q.replace(L, ''), c['callee']['name']))
    ctx.decide('C09.a', 'search-helpers-private', loc, not badc,
               'search helpers %s are called only from Locate/each other' % sorted(x.replace(L, '') for x in closure),
               'search helpers are called from outside Locate: %s' % badc)
    # Locate selects between sibling searches
    ctx.decide('C09.a', 'Locate:siblings', loc, len(closure) >= 2, 'Locate dispatches to %d search helpers' % len(closure),
               'fewer than two search helpers found (%s)' % sorted(closure))
    # Interpolation_2D uses helper objects only through Locate / construction / domain
    helper_fields = [f['name'] for f in prog.classes[CLS2]['fields'] if f['ty'] == CLS]
    bad2 = []
    for fn in prog.all_functions():
        if fn.cls != CLS2 or fn.d.get('ctor'):
            continue
        for c in calls(fn):
            if c.get('kind') == 'method':
                o = strip(c['obj'])
                if o.get('k') == 'Member' and o['name'] in helper_fields and c['callee']['name'] != 'Locate':
                    bad2.append('%s calls %s.%s' % (fn.name, o['name'], c['callee']['name']))
        for n, e in field_writes(fn).items():
            if n in helper_fields and not (e.get('k') == 'Call' and e['callee']['name'] == 'Locate'):
                bad2.append('%s writes %s' % (fn.name, n))
    ctx.decide('C09.a', 'Interpolation_2D:helpers', prog.fn(CLS2 + '::Interpolate'), not bad2 and len(helper_fields) == 2,
               'helper objects %s are used only through Locate' % helper_fields, 'helper objects used otherwise: %s' % bad2)

    ctx.sub('search_rules', search_rules, prog, ctx, loc, closure)
    ctx.sub('entry_reads', entry_reads, prog, ctx, loc, closure, cache)

    # ---- C09.d nothing else is state
    for cq in (CLS, CLS2):
        c = prog.classes.get(cq)
        if c is None:
            raise AnalysisBroken('class %s not found' % cq)
        probs = []
        if c['user_copy_ctor'] or c['user_copy_assign'] or c['user_move_ctor'] or c['user_move_assign']:
            probs.append('user-declared copy/move operation')
        if any(f.get('mutable') for f in c['fields']):
            probs.append('mutable field')
        if c['static_members']:
            probs.append('static data member %s' % c['static_members'])
        ctx.decide('C09.d', cq.replace(L, '') + ':class-shape', None, not probs,
                   'implicit member-wise copies; no mutable/static members', '; '.join(probs))
    for cq in (CLS, CLS2):
        members = [f for f in prog.all_functions() if f.cls == cq]
        setters = [f for f in members if f.name in ('Set_Prefactor', 'Multiply')]
        evalf = [f for f in members if f.name == 'Interpolate'][0]
        semantic = set(field_reads(evalf)) - set(cache) - set(helper_fields if cq == CLS2 else [])
        # query members (not constructors, not reached only from constructors, not setters, not the search)
        callers = {}
        for f in members:
            for c_ in calls(f):
                q = (c_.get('callee') or {}).get('q')
                if q:
                    callers.setdefault(q, set()).add(f)

        def ctor_only(f, seen=()):
            if f.d.get('ctor'):
                return True
            cs = callers.get(f.q, set())
            return bool(cs) and all(g is f or (g not in seen and ctor_only(g, seen + (f,))) for g in cs)
        queries = [f for f in members if not ctor_only(f) and f not in setters and f.q not in allowed]
        qwrites = {}
        for f in queries:
            for fld in field_writes(f):
                if cq == CLS2 and fld in helper_fields:
                    continue      # helper.Locate(x): covered by C09.a
                qwrites.setdefault(fld, []).append(f)
        cache_like = set(qwrites) - semantic
        # the common field written by both setters with the right operator is the prefactor
        common = set.intersection(*[set(field_writes(f)) for f in setters]) if len(setters) == 2 else set()
        pfs = [fld for fld in common if fld in semantic]
        okp = len(setters) == 2 and len(pfs) == 1
        extra = set()
        for f in setters:
            extra |= set(field_writes(f)) - set(pfs)
        bad_extra = sorted(extra - cache_like)
        ctx.decide('C09.d', cq.replace(L, '') + ':prefactor-setters', setters[0] if setters else None, okp and not bad_extra,
                   'Set_Prefactor and Multiply write only `%s`%s' % (pfs[0] if pfs else '?', (' (and cache state %s)' % sorted(extra)) if extra else ''),
                   'setters write %s' % [sorted(field_writes(f)) for f in setters])
        for f in setters:
            if not pfs:
                break
            e = field_writes(f)[pfs[0]]
            want = '=' if f.name == 'Set_Prefactor' else '*='
            p = f.params[0]['name']
            okk = e.get('k') == 'Bin' and e['op'] == want and show(strip_casts(e['rhs'])) == p
            if not okk and f.name == 'Multiply' and e.get('k') == 'Bin' and e['op'] == '=':
                okk = show(e['rhs']).replace(' ', '') in ('%s*%s' % (pfs[0], p), '%s*%s' % (p, pfs[0]))
            ctx.decide('C09.d', '%s:%s' % (cq.replace(L, ''), f.name), f, okk, '%s %s factor' % (pfs[0], want), 'writes `%s`' % show(e))
        # a query member must not write a field the evaluator reads
        sem_w = ['%s writes %s' % (f.name, fld) for fld, fs in qwrites.items() if fld in semantic for f in fs]
        ctx.decide('C09.d', cq.replace(L, '') + ':queries-write-nothing', None, not sem_w,
                   'no query member writes a field that the evaluator reads', 'query members alter the interpolant: %s' % sem_w)
        # cache-like state written by queries: stale iff some writer of one of its inputs does not touch it
        if cache_like:
            writers = {}
            for f in members:
                for fld in field_writes(f):
                    writers.setdefault(fld, set()).add(f)
            fillers = set(f for fld in cache_like for f in qwrites[fld])
            stale = []
            for w in fillers:
                for p in field_reads(w):
                    if p in cache_like:
                        continue
                    for S_ in writers.get(p, set()):
                        if ctor_only(S_) or S_ in fillers or S_.q in allowed:
                            continue
                        if not (set(field_writes(S_)) & cache_like):
                            stale.append('%s changes `%s` (read by %s when it fills %s) without touching that state'
                                         % (S_.name, p, w.name, sorted(cache_like)))
            inst = cq.replace(L, '') + ':cached-state:' + ','.join(sorted(cache_like))
            if stale:
                ctx.violated('C09.d', inst, fillers and sorted(fillers, key=lambda f: f.line)[0], 'query members keep state %s that goes stale: %s'
                             % (sorted(cache_like), sorted(set(stale))), witness={'stale': sorted(set(stale))})
            else:
                ctx.undecided('C09.d', inst, sorted(fillers, key=lambda f: f.line)[0],
                              'query members keep state %s; its invalidation protocol is outside the understood fragment' % sorted(cache_like))


def entry_reads(prog, ctx, loc, closure, cache):
    R = 'C09.f'
    NT = 6
    AU = sp.core.function.AppliedUndef
    xname = loc.params[0]['name']

    def concretise(t, xv, xn, extra):
        """term on the concrete table; returns (value or residual term, [table indices read])"""
        if not isinstance(t, sp.Basic):
            return t, []
        reads = []
        for _ in range(8):
            sub = {}
            for sy in t.free_symbols:
                if sy.name == xn:
                    sub[sy] = xv
                elif sy.name == 'this.N':
                    sub[sy] = sp.Integer(NT)
                elif sy.name in extra:
                    sub[sy] = extra[sy.name]
            if sub:
                t = t.xreplace(sub)
            rep = {}
            for a_ in t.atoms(AU):
                n_ = a_.func.__name__
                if n_ == 'this.x_values' and len(a_.args) == 1 and a_.args[0].is_number:
                    reads.append(a_.args[0])
                    rep[a_] = a_.args[0]
                elif n_ == 'this.domain' and len(a_.args) == 1 and a_.args[0].is_number:
                    rep[a_] = sp.Integer(0) if a_.args[0] == 0 else sp.Integer(NT - 1)
            if not rep:
                break
            t = t.xreplace(rep)
        try:
            t = sp.simplify(t)
        except Exception:
            pass
        return t, reads

    def staged(c, xv, xn, extra):
        """evaluate a condition the way the code does: in a conjunction/disjunction the operands without table reads decide first"""
        if isinstance(c, (sp.And, sp.Or)):
            plain = [a_ for a_ in c.args if not any(f_.func.__name__ == 'this.x_values' for f_ in a_.atoms(AU))]
            stop = S.false if isinstance(c, sp.And) else S.true
            for a_ in plain:
                v_, _ = concretise(a_, xv, xn, extra)
                if v_ == stop:
                    return stop, []
        return concretise(c, xv, xn, extra)

    placements = [sp.Rational(-1), sp.Rational(-1, 200), sp.Integer(0), sp.Rational(1, 2), sp.Integer(2), sp.Integer(NT - 1),
                  sp.Integer(NT - 1) + sp.Rational(1, 200), sp.Integer(NT + 1)]
    helpers = [f for q in sorted(closure) for f in prog.fns(q) if set(field_reads(f)) & set(cache)]
    if not helpers:
        ctx.undecided(R, 'cached-search', loc, 'no search helper reads the cache fields %s' % cache)
        return
    sxl = Symx(prog, loc)
    for h in helpers:
        inst = '%s:entry-reads' % h.name
        # arguments admitted to h by Locate
        sites = [s_ for s_ in walk_stmts(loc.body) if s_['k'] in ('Decl', 'Expr', 'Return') and
                 any(n_.get('k') == 'Call' and (n_.get('callee') or {}).get('q') == h.q for e_ in stmt_exprs(s_) for n_ in walk_expr(e_))]
        if not sites:
            ctx.undecided(R, inst, h, 'call site in Locate not found')
            continue
        admitted, unknown = [], []
        for xv in placements:
            for s_ in sites:
                for st_ in sxl.states_at(loc, s_):
                    # conditions that do not involve the argument (which search is used) do not restrict what is admitted
                    vals = [concretise(c_, xv, xname, {})[0] for c_ in st_.conds
                            if isinstance(c_, sp.Basic) and any(sy_.name == xname for sy_ in c_.free_symbols)]
                    if all(v_ == S.true for v_ in vals):
                        admitted.append(xv)
                    elif not any(v_ == S.false for v_ in vals):
                        unknown.append((xv, [str(v_)[:80] for v_ in vals if v_ not in (S.true, S.false)]))
        if unknown:
            ctx.undecided(R, inst, h, 'path condition at the call site does not evaluate on the concrete table: %s' % unknown[:2])
            continue
        admitted = sorted(set(admitted))
        # reads of the table in h before the first loop iteration
        sxh = Symx(prog, h)
        hx = h.params[0]['name']
        loops = []

        def outer_loops(s_, inloop):
            if s_['k'] in ('For', 'While', 'DoWhile'):
                if not inloop:
                    loops.append(s_)
                inloop = True
            from ..ir import stmt_children
            for c_ in stmt_children(s_):
                outer_loops(c_, inloop)
        outer_loops(h.body, False)
        stages = []       # (path conditions in order, last = loop condition at its first evaluation)
        for lp in loops:
            if lp['k'] != 'While':
                raise Undecided('search loop of kind %s' % lp['k'])
            for st_ in sxh.states_at(h, lp):
                stages.append((list(st_.conds), sxh.as_bool(sxh.sym(lp['cond'], st_)), lp['l']))
        if not stages:
            ctx.undecided(R, inst, h, 'no search loop found')
            continue
        cache_syms = ['this.' + c_ for c_ in cache]
        bad, ncase = [], 0
        for xv in admitted:
            for jl in range(NT - 1):
                extra = {n_: sp.Integer(jl) for n_ in cache_syms}
                for conds, lc, ln in stages:
                    ncase += 1
                    taken = True
                    for c_ in conds + [lc]:
                        v_, reads = staged(c_, xv, hx, extra)
                        oob = [r_ for r_ in reads if not (r_.is_integer and 0 <= r_ <= NT - 1)]
                        if oob:
                            bad.append({'x': str(xv), 'cached index': jl, 'subscript': str(oob[0]), 'line': ln})
                            break
                        if v_ == S.false:
                            break
                        if v_ != S.true and c_ is not lc:
                            raise Undecided('condition %s does not evaluate on the concrete table' % str(v_)[:100])
        ctx.decide(R, inst, h, not bad, 'arguments admitted by Locate %s: all table reads of %s before its first loop iteration are in range (%d cases)'
                   % ([str(v_) for v_ in admitted], h.name, ncase),
                   '%s reads the table out of range before any clamp applies: with the table X[k]=k (k<%d) Locate admits x=%s; with cached index %s the subscript is %s'
                   % (h.name, NT, bad[0]['x'] if bad else '', bad[0]['cached index'] if bad else '', bad[0]['subscript'] if bad else ''),
                   witness={'cases': bad[:4]} if bad else None)


def locate_and_helpers(prog):
    loc = prog.fn(CLS + '::Locate')
    helpers = set()
    for c in calls(loc):
        cc = c.get('callee') or {}
        if cc.get('cls') == CLS and cc.get('inrepo'):
            helpers.add(cc['q'])
    closure = set(helpers)
    for q in list(helpers):
        for f in prog.fns(q):
            for c in calls(f):
                cc = c.get('callee') or {}
                if cc.get('cls') == CLS and cc.get('inrepo') and cc['q'] != loc.q:
                    closure.add(cc['q'])
    return loc, closure


def prefactor_degree(prog, ctx):
    import sympy as sp
    from .C01 import evaluator_roles
    f_eval, T, roles = evaluator_roles(prog, ctx)
    if roles is None:
        ctx.undecided('C09.e', 'Interpolate:degree', f_eval, 'evaluator form not recognised')
        return
    P = roles['pref']
    if not (isinstance(P, sp.Symbol)):
        ctx.undecided('C09.e', 'Interpolate:degree', f_eval, 'prefactor is not a single field: %s' % P)
        return
    ctx.holds('C09.e', 'Interpolate:degree', f_eval, 'Interpolate is %s times a prefactor-free cubic' % P)
    fn = prog.fn(CLS + '::Derivative', 2)
    sx = Symx(prog, fn)
    bad = []
    E = sp.Symbol('E_', real=True)
    for o in sx.run():
        if o.kind != 'return':
            continue
        v = o.value
        if v == 0:
            continue
        for a in v.atoms(sp.core.function.AppliedUndef):
            if a.func.__name__ == CLS + '::Interpolate':
                v = v.subs(a, P * E)
        q = sp.cancel(sp.together(v / P))
        if q.has(P):
            bad.append('%s: %s' % (o.cond, o.value))
    ctx.decide('C09.e', 'Derivative:degree', fn, not bad, 'every order is of degree one in the prefactor',
               'Derivative does not scale with the prefactor exactly once: %s' % bad, witness={'paths': bad} if bad else None)



def keyed_early_returns(prog, ctx, R='C09.g'):
    classes = (CLS, CLS + '_2D')
    sites = []
    for f in prog.all_functions():
        if f.cls not in classes or f.d.get('ctor') or f.body is None:
            continue
        pids = set(p_['id'] for p_ in f.params)
        for s_ in walk_stmts(f.body):
            if s_['k'] != 'If':
                continue
            for n in walk_expr(s_['cond']):
                if n.get('k') == 'Bin' and n.get('op') == '==':
                    a, b = strip_casts(n['lhs']), strip_casts(n['rhs'])
                    for x_, y_ in ((a, b), (b, a)):
                        if x_.get('k') == 'Ref' and x_.get('id') in pids and y_.get('k') == 'Member' and y_.get('cls') in classes \
                                and strip(y_.get('base') or {'k': 'This'}).get('k') == 'This' and 'double' in str(y_.get('ty', 'double')):
                            returns = any(t_['k'] == 'Return' for t_ in walk_stmts(s_['then']))
                            if returns:
                                sites.append((f, s_, x_, y_))
    ctx.holds(R, 'census', None, '%d argument-keyed early return(s) in the query members of %s' % (len(sites), ', '.join(classes)))
    for f, s_, x_, y_ in sites:
        key = y_['name']
        inst = '%s:%s==%s' % (f.name, x_['name'], key)
        for c in prog.all_functions():
            if c.cls != f.cls or not c.d.get('ctor'):
                continue
            ini = [i for i in c.inits if i.get('field') == key and i.get('init') is not None and i.get('written', True)]
            if not ini:
                continue
            e = strip_casts(ini[0]['init'])
            while e.get('k') in ('Construct', 'Paren') and (e.get('args') or e.get('e')):
                e = strip_casts(e['args'][0]) if e.get('k') == 'Construct' else strip_casts(e['e'])
            txt = show(ini[0]['init'])
            ci = '%s/ctor@%s' % (inst, c.d.get('l'))
            if e.get('k') == 'Lit' or (e.get('k') == 'Un' and strip_casts(e.get('e', {})).get('k') == 'Lit'):
                ctx.violated(R, ci, f, 'the constructor at line %s initialises the cache key `%s` to %s, and `%s` (line %s) answers `%s == %s` from the object without '
                             'searching: the first query of a fresh object with the argument %s returns the constructor\'s placeholder, whatever the table is'
                             % (c.d.get('l'), key, txt, f.name, s_.get('l'), x_['name'], key, txt),
                             witness={'first_query': txt, 'constructor_line': c.d.get('l'), 'test_line': s_.get('l')}, line=s_.get('l'))
            elif 'nan' in txt.lower():
                ctx.holds(R, ci, f, 'key initialised to NaN (%s): equal to no argument' % txt)
            else:
                ctx.undecided(R, ci, f, 'cache key `%s` initialised to `%s`: whether an argument can equal it is not decided' % (key, txt))

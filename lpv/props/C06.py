"""C06 - gamma-function family: structural clauses (term index advances, branch selection, complements, memo)."""
import sympy as sp
from sympy import Symbol, Function, S
from ..ir import AnalysisBroken, Undecided, show, strip, strip_casts, walk_stmts, stmt_exprs, walk_expr, calls, all_exprs
from ..symx import Symx, State, Arr, is_zero

L = 'libphysica::'


def FN(name):
    return Function(L + name, real=True)


def single_return(prog, fn, inline=()):
    sx = Symx(prog, fn, inline=inline)
    outs = [o for o in sx.run() if o.kind == 'return']
    if len(outs) != 1:
        raise Undecided('%s has %d return paths' % (fn.q, len(outs)))
    return outs[0].value, sx


def pre_loop_state(sx, fn, loop):
    st = State({})
    for s in fn.body['body']:
        if s is loop:
            if loop['k'] == 'For' and loop.get('init') is not None:
                live, done = sx.exec(loop['init'], [st])
                if len(live) != 1:
                    raise Undecided('branching in the loop initialiser of ' + fn.q)
                st = live[0]
            return st
        live, done = sx.exec(s, [st])
        if len(live) != 1:
            raise Undecided('branching before the loop in ' + fn.q)
        st = live[0]
    raise Undecided('loop is not a top-level statement of ' + fn.q)


def post_loop_return(sx, fn, loop, env):
    st = State(dict(env))
    seen = False
    for s in fn.body['body']:
        if s is loop:
            seen = True
            continue
        if not seen:
            continue
        live, done = sx.exec(s, [st])
        for o in done:
            if o.kind == 'return':
                return o.value
        if len(live) != 1:
            raise Undecided('branching after loop')
        st = live[0]
    return None


def main_path(live, n0):
    """The path of a loop step on which no underflow clamp fires (all taken branches are negated `<` tests)."""
    best = [p for p in live if all(isinstance(c, (sp.Ge, sp.Gt)) for c in p.conds[n0:])]
    if len(best) == 1:
        return best[0]
    if len(live) == 1:
        return live[0]
    raise Undecided('cannot identify the main path of the loop body (%d paths)' % len(live))


def check(prog, ctx):
    ctx.rule('C06.a', 'continued fraction (modified Lentz) for Q(a,x): in one loop step the partial numerator equals -n(n-a) with n an '
             'integer counter that advances by one per iteration from 1; b advances by 2 from x+1-a; d,c,del,h follow the Lentz '
             'recurrences; the result is exp(-x+a log x-lnGamma(a))*h', 7)
    ctx.rule('C06.b', 'branch selection of GammaQ over (x,a) and the complement identities GammaP=1-GammaQ, Upper/Lower=Gamma(s)*Q/P(x,s), '
             'Inv_GammaQ(q,a)=Inv_GammaP(1-q,a)', 5)
    ctx.rule('C06.c', 'series and continued fraction carry the same prefactor exp(-x+a log x-lnGamma(a))', 1)
    ctx.rule('C06.d', 'series for P: ap advances by 1, del*=x/ap, sum+=del from del=sum=1/a', 3)
    ctx.rule('C06.e', 'factorial memo table is history free: written only by its {1} initialiser and push_back(back()*size()); '
             'Binomial_Coefficient equals round(n!/(k!(n-k)!)) resp. the lnGamma form', 5)
    ctx.rule('C06.f', 'Gamma = exp(GammaLn); GammaLn is the 14-term Lanczos form (g=671/128) with the published coefficients', 3)
    ctx.rule('C06.h', 'Inv_GammaP: one iteration is a Halley step x -= u/(1-min(1,u((a-1)/x-1))/2) with u=(P(x,a)-p)/P\'(x,a), and the '
             'iteration stops on a relative step |t| < EPS*x with EPS <= 1e-7', 2)
    ctx.rule('C06.k', 'the starting value of the Inv_GammaP iteration (the term the iterate holds when the loop is entered, on the path selected by '
             '(p, a)) is non-decreasing in p, as the quantile it approximates: evaluated for a in {0.3,1,1.5,5,30,100} and twelve p between 1e-9 and 1-1e-9 '
             '(a mirrored normal-quantile convention or p/1-p mix-up starts the iteration on the wrong side of the median and the twelve steps do not recover in the tails)', 1)
    ctx.rule('C06.l', 'range of the quadrature branch: a value of P or Q computed from a numerical quadrature (whose error has either sign) is clamped to [0,1] '
             'before it is returned', 1)
    ctx.rule('C06.i', 'quadrature branch (a>100): the integrand t^(a-1)e^-t/Gamma(a) is only evaluated at t >= 0 - both integration limits handed '
             'to Find_Epsilon/Integrate are provably non-negative (lower limit max(0, .) or 0; upper limit x >= 0 by GammaQ\'s guard)', 1)
    ctx.rule('C06.j', 'the gamma family is stateless: in the closure of GammaP/GammaQ/Inv_GammaP/Gamma/GammaLn no persistent local can be read '
             'before the current call assigned it, except the append-only factorial table (C06.c) or an exact cache keyed on every argument', 6)
    from ..state import history_dependence
    roots = [f_ for f_ in prog.repo_functions() if f_.name in ('GammaQ', 'GammaP', 'Inv_GammaP', 'Inv_GammaQ', 'Gamma', 'GammaLn',
                                                                'Upper_Incomplete_Gamma', 'Lower_Incomplete_Gamma')]
    seen_, todo_ = {}, list(roots)
    while todo_:
        f_ = todo_.pop()
        if f_.sig in seen_ or f_.body is None:
            continue
        seen_[f_.sig] = f_
        for c_ in calls(f_):
            cc_ = c_.get('callee') or {}
            if cc_.get('inrepo'):
                g_ = prog.by_sig(cc_.get('sig'))
                if g_ is not None and g_.file.endswith('Special_Functions.cpp'):
                    todo_.append(g_)
    for f_ in sorted(seen_.values(), key=lambda x: (x.file, x.line)):
        if f_.name == 'Factorial':
            continue                    # its table is decided by the memo rule C06.c
        hv = history_dependence(prog, f_)
        badh = [d_ for n_, v_, d_ in hv if v_ == 'violated']
        ctx.decide('C06.j', '%s/%d:stateless' % (f_.name, len(f_.params)), f_, not badh, 'no history-carrying local state (%d persistent locals)' % len(hv),
                   '; '.join(badh), witness={'reproducer': 'two consecutive calls with a differing by less than 1e-10 relative: the second uses the first one\'s ln Gamma'} if badh else None)
    gq = prog.fn(L + 'GammaQ')
    # ---- C06.b branch selection
    sx = Symx(prog, gq)
    outs = sx.run()
    x, a = sx.symbol(gq.params[0]['name'], 'double'), sx.symbol(gq.params[1]['name'], 'double')
    spec = []
    import itertools
    rows = list(itertools.product([-1.0, 0.0, 0.5, 1.5, 3.0, 50.0, 100.5, 101.5, 150.0, 300.0], [-1.0, 0.0, 0.5, 2.0, 99.0, 100.0, 100.5, 200.0]))
    bad = None
    cf_callee = None
    ser_callee = None
    for xv, av in rows:
        sel = [o for o in outs if o.cond.subs({x: xv, a: av}) == S.true]
        if len(sel) != 1:
            bad = bad or ('not exactly one path for', xv, av, len(sel))
            continue
        o = sel[0]
        if xv < 0 or av <= 0:
            want = 'exit'
        elif xv == 0:
            want = 'one'
        elif av > 100:
            want = 'quad'
        elif xv < av + 1:
            want = 'series'
        else:
            want = 'cf'
        if o.kind == 'exit':
            got = 'exit'
        else:
            v = o.value
            if isinstance(v, sp.Piecewise):
                # a conditional return (ternary): the alternative selected by this row
                for e_, c_ in v.args:
                    cv_ = c_ if c_ in (True, False, S.true, S.false) else c_.subs({x: xv, a: av})
                    if cv_ == S.true or cv_ is True:
                        v = e_
                        break
            if v == 1:
                got = 'one'
            else:
                apps = [t for t in v.atoms(sp.core.function.AppliedUndef)]
                if len(apps) != 1 or tuple(apps[0].args) != (x, a):
                    got = 'other:' + str(v)
                elif is_zero(v - apps[0]):
                    got = 'direct:' + apps[0].func.__name__
                elif is_zero(v - (1 - apps[0])):
                    got = 'complement:' + apps[0].func.__name__
                else:
                    got = 'other:' + str(v)
        cls = got.split(':')[0]
        ok = (want == got) or (want in ('quad', 'cf') and cls == 'direct') or (want == 'series' and cls == 'complement')
        if want == 'cf' and cls == 'direct':
            if cf_callee not in (None, got):
                ok = False
            cf_callee = got
        if want == 'series' and cls == 'complement':
            ser_callee = got
        if want == 'quad' and cls == 'direct' and cf_callee is not None and got == cf_callee:
            ok = False
        if not ok:
            bad = bad or ('x=%s a=%s: expected %s branch, code takes %s' % (xv, av, want, got))
    ctx.decide('C06.b', 'GammaQ:branches', gq, bad is None,
               'exit iff x<0 or a<=0; x==0 -> 1; a>100 -> quadrature; x<a+1 -> 1-series; else continued fraction (%d rows)' % len(rows),
               'branch selection differs: %s' % (bad,), witness=str(bad))
    if cf_callee is None or ser_callee is None:
        raise AnalysisBroken('continued-fraction / series helpers not identified from GammaQ')
    cf = prog.fn(cf_callee.split(':', 1)[1])
    ser = prog.fn(ser_callee.split(':', 1)[1])
    # complements
    # GammaP + GammaQ = 1 as an identity of terms: on every sample (x,a) the path GammaP takes and the path GammaQ takes must
    # add up to one symbolically (P computed by one algorithm and Q by another only agree to their separate accuracies)
    fnp = prog.fn(L + 'GammaP')
    sxp = Symx(prog, fnp)
    xp_, ap_ = sxp.symbol(fnp.params[0]['name'], 'double'), sxp.symbol(fnp.params[1]['name'], 'double')
    pouts = sxp.run()
    GQ = FN('GammaQ')
    badp = []
    for xv, av in rows:
        if xv < 0 or av <= 0:
            continue
        selp = [o for o in pouts if o.cond.subs({xp_: xv, ap_: av}) == S.true]
        selq = [o for o in outs if o.cond.subs({x: xv, a: av}) == S.true]
        if len(selp) != 1 or len(selq) != 1 or selp[0].kind != 'return' or selq[0].kind != 'return':
            badp.append('x=%s a=%s: %d GammaP paths / %d GammaQ paths' % (xv, av, len(selp), len(selq)))
            continue
        vp = selp[0].value.subs({xp_: x, ap_: a}) if isinstance(selp[0].value, sp.Basic) else selp[0].value
        vq = selq[0].value
        if not (is_zero(vp + GQ(x, a) - 1) or is_zero(vp + vq - 1)):
            badp.append('x=%s a=%s: GammaP returns %s while GammaQ returns %s' % (xv, av, vp, vq))
    ctx.decide('C06.b', 'GammaP', fnp, not badp, 'GammaP + GammaQ = 1 identically on every branch pair (%d rows)' % len(rows),
               'GammaP and GammaQ do not add up to one as terms: %s' % badp[:2], witness={'rows': badp[:3]} if badp else None)
    xs, ss = Symbol('x', real=True), Symbol('s', real=True)
    for name, qp in (('Upper_Incomplete_Gamma', 'GammaQ'), ('Lower_Incomplete_Gamma', 'GammaP')):
        fn = prog.fn(L + name)
        v, s2 = single_return(prog, fn)
        p0, p1 = [s2.symbol(p['name'], 'double') for p in fn.params]
        want = FN('Gamma')(p1) * FN(qp)(p0, p1)
        ctx.decide('C06.b', name, fn, is_zero(v - want), '%s(x,s) = Gamma(s)*%s(x,s)' % (name, qp), '%s returns %s' % (name, v), form=str(v))
    fn = prog.fn(L + 'Inv_GammaQ')
    v, s2 = single_return(prog, fn)
    q_, a_ = [s2.symbol(p['name'], 'double') for p in fn.params]
    ctx.decide('C06.b', 'Inv_GammaQ', fn, is_zero(v - FN('Inv_GammaP')(1 - q_, a_)), 'Inv_GammaQ(q,a) = Inv_GammaP(1-q,a)',
               'Inv_GammaQ returns %s' % v, form=str(v))
    fn = prog.fn(L + 'Gamma')
    v, s2 = single_return(prog, fn)
    xg = s2.symbol(fn.params[0]['name'], 'double')
    ctx.decide('C06.f', 'Gamma', fn, is_zero(v - sp.exp(FN('GammaLn')(xg))), 'Gamma = exp(GammaLn(x))', 'Gamma returns %s' % v, form=str(v))

    ctx.sub('continued_fraction', continued_fraction, prog, ctx, cf)
    ctx.sub('series', series, prog, ctx, ser, cf)
    ctx.sub('halley', halley, prog, ctx)
    ctx.sub('quadrature_window', quadrature_window, prog, ctx, gq)
    ctx.sub('memo', memo, prog, ctx)
    ctx.sub('lanczos', lanczos, prog, ctx)


def continued_fraction(prog, ctx, cf):
    R = 'C06.a'
    loops = [s for s in cf.body['body'] if s['k'] in ('While', 'For', 'Do')]
    if len(loops) != 1:
        raise Undecided('%s: expected one top-level loop, found %d' % (cf.q, len(loops)))
    loop = loops[0]
    sx = Symx(prog, cf)
    x, a = sx.symbol(cf.params[0]['name'], 'double'), sx.symbol(cf.params[1]['name'], 'double')
    st = pre_loop_state(sx, cf, loop)
    entry, cond, live, done, n0 = sx.loop_step(loop, st)
    if done:
        raise Undecided('loop body of %s has exits' % cf.q)
    mp = main_path(live, n0)
    out = {k: mp.env.get(k) for k in entry}
    # roles: b is the entry symbol advancing by 2; find by update
    ents = {k: v for k, v in entry.items() if isinstance(v, Symbol)}
    step = {k: sp.expand(out[k] - v) for k, v in ents.items()}
    bs = [k for k, d in step.items() if d == 2]
    if len(bs) != 1:
        ctx.violated(R, 'lentz:b-step', cf, 'no unique variable advancing by 2 per iteration (found %d)' % len(bs), line=loop['l'])
        return
    kb = bs[0]
    b_in, b_out = ents[kb], out[kb]
    # d: the variable with d' = 1/(an*d + b')  -> 1/d' - b' is proportional to d_in
    cand = None
    for k, v in ents.items():
        if k == kb:
            continue
        o = out[k]
        if o is None or o == v:
            continue
        try:
            rest = sp.simplify(1 / o - b_out)
        except Exception:
            continue
        q = sp.cancel(rest / v)
        if not q.has(v) and rest != 0 and not any(q.has(e) for kk, e in ents.items() if kk not in (k,) and e not in q.free_symbols - {e}) :
            cand = (k, q)
            break
    # simpler, direct identification
    cand = None
    for k, v in ents.items():
        if k == kb or out[k] is None:
            continue
        rest = sp.cancel(sp.together(1 / out[k] - b_out))
        q = sp.cancel(rest / v)
        if rest != 0 and not q.has(v):
            cand = (k, q)
            break
    if cand is None:
        ctx.undecided(R, 'lentz:d-recurrence', cf, 'no variable with d\' = 1/(an*d+b\') found')
        return
    kd, an = cand
    d_in, d_out = ents[kd], out[kd]
    ctx.holds(R, 'lentz:d-recurrence', cf, "d' = 1/(an*d + b') with an = %s" % an, line=loop['l'], form=str(d_out))
    # the counter: an must equal -n(n-a) for an entry symbol n with n' = n+1 and initial value 1
    ns = [k for k, d in step.items() if d == 1]
    ok = False
    detail = 'partial numerator an = %s does not depend on any variable that changes in the loop: the term index never advances' % an
    wit = None
    for kn in ns:
        n = ents[kn]
        if is_zero(an - (-n * (n - a))):
            init = st.env.get(kn)
            if init == 1:
                ok = True
                detail = 'an = -n(n-a), n advances by 1 from 1'
            else:
                detail = 'an = -n(n-a) but the counter starts at %s' % init
    if not ok and any(an.has(ents[k]) for k in ents):
        detail = 'partial numerator an = %s is not -n(n-a) with n a unit-step counter' % an
    if not ok:
        wit = {'an': str(an), 'unit-step counters': [str(ents[k]) for k in ns],
               'reproducer': 'GammaQ(5,2): continued fraction with a constant numerator; 0.0404603 instead of 6e^-5=0.0404277'}
    ctx.decide(R, 'lentz:term-index', cf, ok, detail, detail, witness=wit, line=loop['l'], form=str(an))
    # c recurrence
    kc = None
    for k, v in ents.items():
        if k in (kb, kd) or out[k] is None:
            continue
        if is_zero(out[k] - (b_out + an / v)):
            kc = k
    ctx.decide(R, 'lentz:c-recurrence', cf, kc is not None, "c' = b' + an/c", "no variable follows c' = b' + an/c", line=loop['l'])
    # del and h
    kdel = kh = None
    if kc is not None:
        for k, v in ents.items():
            if out[k] is not None and is_zero(out[k] - d_out * out[kc]):
                kdel = k
        for k, v in ents.items():
            if kdel is not None and out[k] is not None and is_zero(out[k] - v * out[kdel]) and k != kdel:
                kh = k
    ctx.decide(R, 'lentz:h-update', cf, kdel is not None and kh is not None, "del = d'c', h *= del", "del/h updates not found", line=loop['l'])
    # initial values
    b0 = st.env.get(kb)
    ok = b0 is not None and is_zero(b0 - (x + 1 - a)) and st.env.get(kd) is not None and is_zero(st.env[kd] - 1 / b0) and \
        kh is not None and is_zero(st.env.get(kh) - st.env[kd])
    ctx.decide(R, 'lentz:initial', cf, ok, 'b0 = x+1-a, d0 = 1/b0, h0 = d0', 'initial values b=%s d=%s h=%s' % (b0, st.env.get(kd), st.env.get(kh) if kh else None))
    # loop condition |del-1| > eps
    okc = cond is not None and kdel is not None and isinstance(cond, (sp.Gt, sp.Ge)) and is_zero(cond.lhs - sp.Abs(ents[kdel] - 1))
    ctx.decide(R, 'lentz:stopping', cf, okc, 'iterates while |del-1| > eps', 'loop condition is %s' % cond, line=loop['l'])
    # result
    if kh is not None:
        env = dict(st.env)
        H = Symbol('h_final', real=True)
        env[kh] = H
        rv = post_loop_return(sx, cf, loop, env)
        want = sp.exp(-x + a * sp.log(x) - FN('GammaLn')(a)) * H
        ctx.decide(R, 'lentz:result', cf, rv is not None and is_zero(rv - want), 'returns exp(-x+a log x-lnGamma(a))*h', 'returns %s' % rv, form=str(rv))


def series(prog, ctx, ser, cf):
    R = 'C06.d'
    loops = [s for s in ser.body['body'] if s['k'] in ('While', 'For', 'Do')]
    if len(loops) != 1:
        raise Undecided('%s: expected one loop' % ser.q)
    loop = loops[0]
    sx = Symx(prog, ser)
    x, a = sx.symbol(ser.params[0]['name'], 'double'), sx.symbol(ser.params[1]['name'], 'double')
    st = pre_loop_state(sx, ser, loop)
    entry, cond, live, done, n0 = sx.loop_step(loop, st)
    if len(live) != 1 or done:
        raise Undecided('series loop body is not straight-line')
    out = {k: live[0].env.get(k) for k in entry}
    ents = {k: v for k, v in entry.items() if isinstance(v, Symbol)}
    kap = [k for k, v in ents.items() if is_zero(out[k] - v - 1)]
    okap = len(kap) == 1 and is_zero(st.env.get(kap[0]) - a)
    ctx.decide(R, 'series:ap', ser, okap, 'ap advances by 1 from a', 'no variable advancing by 1 from a', line=loop['l'])
    if not okap:
        return
    ap1 = out[kap[0]]
    kdel = [k for k, v in ents.items() if k != kap[0] and is_zero(out[k] - v * x / ap1)]
    okd = len(kdel) == 1 and is_zero(st.env.get(kdel[0]) - 1 / a)
    ctx.decide(R, 'series:del', ser, okd, "del' = del*x/ap' from 1/a", 'term update is not del*x/ap (updates: %s)' % {str(ents[k]): str(out[k]) for k in ents},
               line=loop['l'])
    ksum = [k for k, v in ents.items() if okd and k not in (kap[0], kdel[0]) and is_zero(out[k] - v - out[kdel[0]])]
    oks = len(ksum) == 1 and is_zero(st.env.get(ksum[0]) - 1 / a)
    ctx.decide(R, 'series:sum', ser, oks, "sum' = sum + del' from 1/a", 'sum update not found', line=loop['l'])
    if oks:
        env = dict(st.env)
        SS = Symbol('sum_final', real=True)
        env[ksum[0]] = SS
        rv = post_loop_return(sx, ser, loop, env)
        pref = sp.exp(-x + a * sp.log(x) - FN('GammaLn')(a))
        ctx.decide('C06.c', 'common-prefactor', ser, rv is not None and is_zero(rv - SS * pref),
                   'series returns sum*exp(-x+a log x-lnGamma(a)), the prefactor of the continued fraction',
                   'series returns %s' % rv, form=str(rv))


def memo(prog, ctx):
    R = 'C06.e'
    g = [x for x in prog.globals if x['name'] == 'FactorialList']
    fac = prog.fn(L + 'Factorial')
    # identify the memo table by role: the namespace-scope mutable vector read by Factorial
    refs = {}
    for e in all_exprs(fac):
        if e.get('k') == 'Ref' and e.get('rk') == 'global' and e.get('ty', '').startswith('std::vector'):
            refs[e['q']] = e
    if len(refs) != 1:
        raise AnalysisBroken('Factorial does not use exactly one global table (found %s)' % list(refs))
    tq = list(refs)[0]
    gl = [x for x in prog.globals if x['q'] == tq]
    init = strip(gl[0].get('init')) if gl else None
    txt = show(init) if init else ''
    ok = init is not None and [m['v'] for m in walk_expr(init) if m['k'] == 'Lit'] in (['1.0'], ['1'], ['1.'])
    ctx.decide(R, 'memo:initialiser', fac, ok, 'table starts as {0! = 1}', 'table initialiser is %s' % txt)
    # all writers in the whole program
    writers = []
    for fn in prog.all_functions():
        for e in all_exprs(fn):
            if e.get('k') == 'Call' and e.get('kind') == 'method' and not e['callee'].get('const'):
                o = strip(e['obj'])
                if o.get('k') == 'Ref' and o.get('q') == tq and e['callee']['name'] not in ('size', 'back', 'begin', 'end', 'empty'):
                    writers.append((fn, e))
            if e.get('k') == 'Bin' and e['op'] in ('=', '+=', '-=', '*=', '/='):
                l = strip(e['lhs'])
                while l.get('k') == 'Index':
                    l = strip(l['base'])
                if l.get('k') == 'Ref' and l.get('q') == tq:
                    writers.append((fn, e))
    good = True
    det = []
    for fn, e in writers:
        if fn.q != fac.q or e.get('k') != 'Call' or e['callee']['name'] != 'push_back':
            good = False
            det.append('%s: %s' % (fn.q, show(e)))
            continue
        arg = strip_casts(e['args'][0])
        t = show(arg).replace(' ', '')
        name = tq.split('::')[-1]
        if t not in ('%s.back()*%s.size()' % (name, name), '%s.size()*%s.back()' % (name, name)):
            good = False
            det.append('pushes %s' % show(arg))
    ctx.decide(R, 'memo:writers', fac, good and len(writers) == 1, 'only writer is push_back(back()*size()) in Factorial: T[n] = n*T[n-1]',
               'other writers / other recurrence: %s' % det)
    # reads: T[n] under n < size(); back() after loop `while(size() <= n)`
    sx = Symx(prog, fac)
    outs = sx.run()
    n = sx.symbol(fac.params[0]['name'], fac.params[0]['ty'])
    rets = [o for o in outs if o.kind == 'return']
    sz = Symbol('len(%s)' % tq.split('::')[-1], integer=True, nonnegative=True)
    okr = len(rets) == 2
    loops = [s for s in walk_stmts(fac.body) if s['k'] == 'While']
    lc = show(loops[0]['cond']).replace(' ', '') if loops else ''
    okl = len(loops) == 1 and lc in ('%s.size()<=n' % tq.split('::')[-1], 'n>=%s.size()' % tq.split('::')[-1])
    ctx.decide(R, 'memo:reads', fac, okr and okl, 'direct read under n<size(), otherwise table grown until size()==n+1 and back() returned',
               'read discipline not recognised (returns: %d, loop condition: %s)' % (len(rets), lc))
    # Binomial
    bc = prog.fn(L + 'Binomial_Coefficient')
    sx = Symx(prog, bc)
    outs = sx.run()
    nn, kk = sx.symbol(bc.params[0]['name'], 'int'), sx.symbol(bc.params[1]['name'], 'int')
    Fc = FN('Factorial')
    GL = FN('GammaLn')
    want_small = sp.floor(sp.Rational(1, 2) + Fc(nn) / Fc(kk) / Fc(nn - kk))
    want_big = sp.floor(sp.Rational(1, 2) + sp.exp(GL(nn + 1) - GL(kk + 1) - GL(nn - kk + 1)))
    got_small = [o for o in outs if o.kind == 'return' and o.cond.subs({nn: 10, kk: 3}) == S.true]
    got_big = [o for o in outs if o.kind == 'return' and o.cond.subs({nn: 200, kk: 3}) == S.true]
    got_zero = [o for o in outs if o.kind == 'return' and o.cond.subs({nn: 3, kk: 5}) == S.true]
    ok = len(got_small) == 1 and is_zero(got_small[0].value - want_small) and len(got_big) == 1 and is_zero(got_big[0].value - want_big) \
        and len(got_zero) == 1 and got_zero[0].value == 0
    ctx.decide(R, 'Binomial_Coefficient', bc, ok, 'floor(0.5+n!/k!/(n-k)!) for n<=170, lnGamma form with n+1,k+1,n-k+1 above, 0 for n<k',
               'binomial forms differ: small=%s big=%s' % ([str(o.value) for o in got_small], [str(o.value) for o in got_big]))
    f170 = [o for o in Symx(prog, fac).run() if o.kind == 'exit']
    ctx.decide(R, 'Factorial:overflow-guard', fac, len(f170) == 1, 'n>170 exits (C10 checks the predicate)', 'no overflow exit')


LANCZOS = [57.1562356658629235, -59.5979603554754912, 14.1360979747417471, -0.491913816097620199, .339946499848118887e-4,
           .465236289270485756e-4, -.983744753048795646e-4, .158088703224912494e-3, -.210264441724104883e-3,
           .217439618115212643e-3, -.164318106536763890e-3, .844182239838527433e-4, -.261908384015814087e-4,
           .368991826595316234e-5]


def lanczos(prog, ctx):
    R = 'C06.f'
    fn = prog.fn(L + 'GammaLn')
    # coefficient table: the local array initialised with 14 literals
    tab = None
    for s in walk_stmts(fn.body):
        if s['k'] == 'Decl':
            for d in s['decls']:
                if d.get('init') is not None and strip(d['init']).get('k') == 'InitList':
                    tab = d
    vals = []
    if tab:
        for el in strip(tab['init'])['elems']:
            el = strip_casts(el)
            sgn = 1
            if el['k'] == 'Un' and el['op'] == '-':
                sgn = -1
                el = strip_casts(el['e'])
            if el['k'] == 'Lit':
                vals.append(sgn * float(el['val']))
    ok = len(vals) == 14 and all(abs(v - w) <= 1e-15 * abs(w) for v, w in zip(vals, LANCZOS))
    ctx.decide(R, 'GammaLn:coefficients', fn, ok, '14 Lanczos coefficients equal the published set', 'coefficient table differs: %s' % vals,
               form=str(vals))
    # structure
    sx = Symx(prog, fn)
    loops = [s for s in fn.body['body'] if s['k'] == 'For']
    if len(loops) != 1:
        ctx.undecided(R, 'GammaLn:form', fn, 'expected one summation loop')
        return
    loop = loops[0]
    # pre-loop: statements before loop (the guard `if` is executed on the non-exit path)
    st = State({})
    for s in fn.body['body']:
        if s is loop:
            break
        live, done = sx.exec(s, [st])
        if len(live) != 1:
            raise Undecided('GammaLn prologue branches')
        st = live[0]
    x = sx.symbol(fn.params[0]['name'], 'double')
    entry, cond, live, done, n0 = sx.loop_step(loop, st)
    out = {k: live[0].env.get(k) for k in entry}
    ents = {k: v for k, v in entry.items() if isinstance(v, Symbol)}
    ky = [k for k, v in ents.items() if out[k] is not None and is_zero(out[k] - v - 1) and not str(v).startswith(tuple('j'))]
    ky = [k for k in ky if st.env.get(k) is not None and is_zero(st.env.get(k) - x)]
    cl = sx.counted(loop, st)
    okloop = bool(ky) and cl is not None and cl[1] == 0 and cl[2] == 14
    ksum = None
    if ky:
        y1 = out[ky[0]]
        for k, v in ents.items():
            if k == ky[0] or out[k] is None:
                continue
            d = out[k] - v
            if d == 0 or d.has(v):
                continue
            q = sp.piecewise_fold(d * y1)
            q = sp.simplify(q) if not q.has(sp.Piecewise) else q
            if not q.has(ents[ky[0]]) and str(v).split('@')[0] != str(cl[0]['name'] if cl else ''):
                ksum = k
    env = dict(st.env)
    ok2 = False
    rv = None
    if ksum is not None:
        SS = Symbol('sum_final', real=True)
        s0 = st.env.get(ksum)
        env[ksum] = SS
        rv = post_loop_return(sx, fn, loop, env)
        g = sp.Rational(671, 128)
        want = (x + sp.Rational(1, 2)) * sp.log(x + g) - (x + g) + sp.log(sp.Rational('2.5066282746310005') * SS / x)
        ok2 = rv is not None and is_zero(sp.simplify(rv - want)) and abs(float(s0) - 0.999999999999997092) < 1e-15
    ctx.decide(R, 'GammaLn:form', fn, okloop and ok2,
               'tmp=(x+1/2)log(x+671/128)-(x+671/128); sum=c0+sum_{j<14} cof[j]/(x+1+j); returns tmp+log(sqrt(2pi) sum/x)',
               'Lanczos form not recognised (loop ok=%s, returns %s)' % (okloop, rv), form=str(rv))


def halley(prog, ctx):
    R = 'C06.h'
    fn = prog.fn(L + 'Inv_GammaP')
    loops = [s for s in fn.body['body'] if s['k'] == 'For']
    if len(loops) != 1:
        ctx.undecided(R, 'Inv_GammaP:loop', fn, 'expected one iteration loop')
        return
    loop = loops[0]
    sx = Symx(prog, fn)
    p, a = sx.symbol(fn.params[0]['name'], 'double'), sx.symbol(fn.params[1]['name'], 'double')
    states = [State({})]
    for s in fn.body['body']:
        if s is loop:
            break
        states, done = sx.exec(s, states)
    if not states:
        raise Undecided('no path reaches the Halley loop')
    # the iterate, by role: the variable the function returns after the loop
    after = fn.body['body'][fn.body['body'].index(loop) + 1:]
    ret_ids = [strip_casts(s_['e']).get('id') for s_ in after if s_['k'] == 'Return' and s_.get('e') is not None and strip_casts(s_['e']).get('k') == 'Ref']
    if len(ret_ids) != 1:
        raise Undecided('the value returned after the Halley loop is not a single variable')
    iterate_id = ret_ids[0]
    results = []
    for st in states[:4]:
        entry, cond, live, done, n0 = sx.loop_step(loop, st)
        xs = [(k, v) for k, v in entry.items() if isinstance(v, Symbol) and k == iterate_id]
        if len(xs) != 1:
            raise Undecided('iterate not identified')
        kx, x = xs[0]
        big = None
        for c_ in st.conds:
            if c_ == sp.Gt(a, 1):
                big = True
            if c_ == sp.Le(a, 1):
                big = False
        brk = [o for o in done if o.kind == 'break']
        if not brk:
            ctx.violated(R, 'Inv_GammaP:stopping', fn, 'the iteration has no convergence exit', line=loop['l'])
            return
        for o in brk:
            conds = o.state.conds[n0:]
            last = conds[-1]
            xo = o.state.env.get(kx)
            ok = False
            detail = str(last)[:200]
            if isinstance(last, (sp.Lt, sp.Le)):
                lhs, rhs = last.lhs, last.rhs
                ratio = sp.simplify(rhs / xo)
                if ratio.free_symbols and all(str(s_) == 'EPS' or 'EPS' in str(s_) for s_ in ratio.free_symbols):
                    pass
                rel = not ratio.has(x) and not ratio.has(p) and not ratio.has(a)
                eps_val = None
                if rel:
                    try:
                        eps_val = float(ratio)
                    except TypeError:
                        eps_val = None
                ok = bool(rel and eps_val is not None and 0 < eps_val <= 1e-7 and lhs.has(sp.Abs))
                detail = '|step| < %s * x' % ratio if rel else 'threshold %s is not proportional to the iterate' % rhs
            results.append((ok, detail, o))
    okall = all(r[0] for r in results)
    ctx.decide(R, 'Inv_GammaP:stopping', fn, okall, 'stops when |step| < EPS*x (relative), EPS <= 1e-7 (%d exits)' % len(results),
               'the convergence test is not a relative step test: %s' % sorted(set(r[1] for r in results if not r[0])),
               witness={'reproducer': 'a=0.06, p=0.316: |P(x,a)-p| = 8.7e-4 after the first step'} if not okall else None, line=loop['l'])
    # Halley step on the un-clamped path
    st = states[0]
    entry, cond, live, done, n0 = sx.loop_step(loop, st)
    kx, x = [(k, v) for k, v in entry.items() if isinstance(v, Symbol) and k == iterate_id][0]
    P = Function(L + 'GammaP', real=True)
    dP = sp.exp(-x + (a - 1) * sp.log(x) - Function(L + 'GammaLn', real=True)(a))
    u = (P(x, a) - p) / dP
    want = u / (1 - sp.Min(1, u * ((a - 1) / x - 1)) / 2)
    # substitute the named pre-loop constants
    okstep = False
    got = None
    per_path = []
    for pth in live:
        xo = pth.env.get(kx)
        step = sp.simplify(x - xo)
        if step.has(sp.Rational(1, 2) * x) or sp.simplify(xo - x / 2) == 0:
            continue
        got = step
        per_path.append([pth, False, step])
        m1 = [t for t in step.atoms(sp.Min)]
        m2 = [t for t in want.atoms(sp.Min)]
        if len(m1) == 1 and len(m2) == 1:
            a1 = [z for z in m1[0].args if z != 1]
            a2 = [z for z in m2[0].args if z != 1]
            MM = Symbol('MM', real=True)
            if len(a1) == 1 and len(a2) == 1:
                d_arg = sp.simplify(sp.expand_log(sp.simplify(a1[0] - a2[0]), force=True))
                d_out = sp.simplify(sp.expand_log(sp.simplify(step.subs(m1[0], MM) - want.subs(m2[0], MM)), force=True))
                if d_arg == 0 and d_out == 0:
                    per_path[-1][1] = True
    # every branch of the iteration body (a > 1 and a <= 1 compute the density differently) must take the Halley step
    okstep = bool(per_path) and all(ok_ for _, ok_, _ in per_path)
    badp_ = [(pp_, st_) for pp_, ok_, st_ in per_path if not ok_]
    if badp_:
        got = 'under [%s]: %s' % (' & '.join(str(c_) for c_ in badp_[0][0].conds[n0:])[:120], badp_[0][1])
    ctx.decide(R, 'Inv_GammaP:halley-step', fn, okstep, 'x -= u/(1-min(1,u((a-1)/x-1))/2), u=(P(x,a)-p)/(x^(a-1)e^-x/Gamma(a))',
               'iteration step is not the Halley step: %s' % str(got)[:300], line=loop['l'], form=str(got)[:400])


    # ---- C06.k the starting value of the iteration, as a function of p
    RK = 'C06.k'
    grid_a = [0.3, 1.0, 1.5, 5.0, 30.0, 100.0]
    grid_p = [1e-9, 1e-6, 1e-3, 0.1, 0.3, 0.49, 0.51, 0.7, 0.9, 0.999, 1 - 1e-6, 1 - 1e-9]
    bad, ncase = [], 0
    for av in grid_a:
        row = []
        for pv in grid_p:
            sub = {p: sp.Float(pv), a: sp.Float(av)}
            hit = []
            for st_ in states:
                vals = [c_.xreplace(sub) if isinstance(c_, sp.Basic) else c_ for c_ in st_.conds]
                try:
                    vals = [bool(sp.simplify(v_)) if isinstance(v_, sp.Basic) else bool(v_) for v_ in vals]
                except TypeError:
                    raise Undecided('a path condition before the iteration does not evaluate for given (p, a)')
                if all(vals):
                    hit.append(st_)
            if len(hit) != 1:
                raise Undecided('%d paths reach the iteration for p=%s, a=%s' % (len(hit), pv, av))
            x0 = hit[0].env.get(iterate_id)
            if not isinstance(x0, sp.Basic):
                raise Undecided('starting value is not a term')
            x0v = x0.xreplace(sub)
            try:
                x0v = float(sp.N(x0v))
            except (TypeError, ValueError):
                raise Undecided('starting value %s does not evaluate' % str(x0v)[:80])
            row.append(x0v)
            ncase += 1
        for (p1, v1), (p2, v2) in zip(zip(grid_p, row), list(zip(grid_p, row))[1:]):
            if v2 < v1 * (1 - 1e-12) - 1e-300:
                bad.append({'a': av, 'p': [p1, p2], 'start': [v1, v2]})
    ctx.decide(RK, 'Inv_GammaP:start', fn, not bad, 'the starting value is non-decreasing in p for every a on the grid (%d cases)' % ncase,
               'the starting value of the iteration decreases when p increases (the quantile it approximates increases): e.g. a=%s: start(p=%s)=%.4g > start(p=%s)=%.4g'
               % ((bad[0]['a'], bad[0]['p'][0], bad[0]['start'][0], bad[0]['p'][1], bad[0]['start'][1]) if bad else (0, 0, 0, 0, 0)),
               witness={'cases': bad[:4]} if bad else None)


def quadrature_window(prog, ctx, gq):
    R = 'C06.i'
    # the quadrature helper: callee of GammaQ's a>aMax branch that calls Integrate
    helper = None
    for c_ in calls(gq):
        cc = c_.get('callee') or {}
        if cc.get('inrepo'):
            g = prog.by_sig(cc['sig'])
            if g is not None and any((x.get('callee') or {}).get('q') == L + 'Integrate' for x in calls(g)):
                helper = g
    if helper is None:
        ctx.undecided(R, 'quadrature:window', gq, 'quadrature helper not found')
        return
    sx = Symx(prog, helper)
    outs = sx.run()
    xs = sx.symbol(helper.params[0]['name'], 'double')
    bad = []
    n = 0
    for o in outs:
        for v in list(o.state.env.values()) + ([o.value] if isinstance(o.value, sp.Basic) else []):
            if not isinstance(v, sp.Basic):
                continue
            for app in v.atoms(sp.core.function.AppliedUndef):
                if app.func.__name__ in (L + 'Integrate', L + 'Find_Epsilon') and len(app.args) >= 3:
                    n += 1
                    lo, hi = app.args[1], app.args[2]
                    for nm, t in (('lower', lo), ('upper', hi)):
                        ok = t == 0 or t == xs or (isinstance(t, sp.Max) and 0 in t.args) or (t.is_number and t >= 0)
                        if not ok:
                            # a Piecewise/other form: try to bound below by 0 through its structure
                            if isinstance(t, sp.Piecewise) and all((e_ == 0 or (isinstance(e_, sp.Max) and 0 in e_.args)) for e_, c_ in t.args):
                                ok = True
                        if not ok:
                            bad.append('%s limit of %s is %s' % (nm, app.func.__name__.split('::')[-1], t))
    # range: a quadrature value carries an error of either sign, so a probability computed from it lies in [0,1] only if it is
    # clamped (the series and continued-fraction branches are not judged here)
    AUq = sp.core.function.AppliedUndef

    def bounded01(t):
        if t in (0, 1) or t == sp.Integer(0) or t == sp.Integer(1):
            return True
        if isinstance(t, sp.Max) and any(a_ == 0 for a_ in t.args):
            rest_ = [a_ for a_ in t.args if a_ != 0]
            return all((isinstance(a_, sp.Min) and any(b_ == 1 for b_ in a_.args)) or bounded01(a_) for a_ in rest_)
        if isinstance(t, sp.Min) and any(a_ == 1 for a_ in t.args):
            rest_ = [a_ for a_ in t.args if a_ != 1]
            return all((isinstance(a_, sp.Max) and any(b_ == 0 for b_ in a_.args)) or bounded01(a_) for a_ in rest_)
        if isinstance(t, sp.Piecewise):
            # a branch value is in [0,1] on its own, or the earlier branches have taken the cases value > 1 and value < 0
            # (the ternary form of the clamp; a NaN fails both comparisons and is passed on)
            prior, ok_ = [], True
            for e_, c_ in t.args:
                rel = [r_ for c2 in prior for r_ in ([c2] if isinstance(c2, sp.core.relational.Relational) else [])]
                core, lo_ok, hi_ok = e_, False, False
                for _ in range(2):      # one side of the clamp may be a max(0, .) / min(1, .) around the value
                    if isinstance(core, sp.Max) and len(core.args) == 2 and any(a_ == 0 for a_ in core.args):
                        lo_ok, core = True, [a_ for a_ in core.args if a_ != 0][0]
                    elif isinstance(core, sp.Min) and len(core.args) == 2 and any(a_ == 1 for a_ in core.args):
                        hi_ok, core = True, [a_ for a_ in core.args if a_ != 1][0]
                above = any(isinstance(r_, (sp.Gt, sp.Ge, sp.Lt, sp.Le)) and r_.gts == core and r_.lts == 1 for r_ in rel)
                below = any(isinstance(r_, (sp.Gt, sp.Ge, sp.Lt, sp.Le)) and r_.lts == core and r_.gts == 0 for r_ in rel)
                if not (bounded01(e_) or ((above or hi_ok) and (below or lo_ok))):
                    ok_ = False
                prior.append(c_)
            return ok_
        if isinstance(t, sp.Add) and len(t.args) == 2 and 1 in t.args:
            other_ = [a_ for a_ in t.args if a_ != 1][0]
            return bounded01(-other_)
        return False
    def path_bounded(o):
        """the if-form of the clamp: the path that returns q or 1 - q (q the quadrature value) has tested q >= 0 and q <= 1
        (the two excursions return the literal limits on their own paths; a NaN passes both tests and is returned as such)"""
        qs = [a_ for a_ in o.value.atoms(AUq) if a_.func.__name__ == L + 'Integrate']
        if len(set(qs)) != 1 or not (o.value == qs[0] or o.value == 1 - qs[0]):
            return False
        q_ = qs[0]
        cs = []
        for c_ in o.state.conds:
            cs += list(c_.args) if isinstance(c_, sp.And) else [c_]
        lo = any(c_ in (sp.Ge(q_, 0), sp.Not(sp.Lt(q_, 0))) or c_ == sp.Le(0, q_) for c_ in cs)
        hi = any(c_ in (sp.Le(q_, 1), sp.Not(sp.Gt(q_, 1))) or c_ == sp.Ge(1, q_) for c_ in cs)
        return lo and hi
    unclamped = []
    nq = 0
    for o in outs:
        if o.kind == 'return' and isinstance(o.value, sp.Basic) and any(a_.func.__name__ == L + 'Integrate' for a_ in o.value.atoms(AUq)):
            nq += 1
            if not bounded01(o.value) and not path_bounded(o):
                unclamped.append(str(o.value)[:120])
    if nq:
        ctx.decide('C06.l', 'quadrature:range', helper, not unclamped, 'the value computed from the quadrature is clamped to [0,1]',
                   'the quadrature branch returns %s: the quadrature error has either sign, so Q (and P = 1-Q) leave [0,1]' % unclamped[:1],
                   witness={'reproducer': 'GammaQ(351,238) = -0.00997, GammaP(351,238) = 1.00997; GammaP(234,133) = 1.00003'} if unclamped else None)
    else:
        ctx.undecided('C06.l', 'quadrature:range', helper, 'no returning path carries the quadrature value')
    ctx.decide(R, 'quadrature:window', helper, not bad and n >= 2, 'all %d integration limits are 0, max(0, .) or x' % n,
               'the quadrature can evaluate log(t) at negative t: %s' % sorted(set(bad)),
               witness={'limits': sorted(set(bad)), 'reproducer': 'a slightly above 100 (e.g. CDF_Poisson(mu,100)): the window starts below 0 and the result is NaN'} if bad else None)

"""C11 - minimisers never end worse than they started (descent invariants, structural clauses)."""
import sympy as sp
from sympy import Symbol, Function, S
from ..ir import (AnalysisBroken, Undecided, show, strip, strip_casts, walk_stmts, stmt_exprs, walk_expr, calls,
                  all_exprs, local_decls)
from ..symx import Symx, State, Arr, is_zero
from .. import guards as G

L = 'libphysica::'


# ----------------------------------------------------------------------------- order facts

class Order:
    """Facts a<=b / a<b between terms; query by reachability."""

    def __init__(self):
        self.le = {}

    def add(self, a, b, strict=False):
        self.le.setdefault(str(a), set()).add(str(b))

    def add_rel(self, r):
        if isinstance(r, (sp.Lt, sp.Le)):
            self.add(r.lhs, r.rhs)
        elif isinstance(r, (sp.Gt, sp.Ge)):
            self.add(r.rhs, r.lhs)
        elif isinstance(r, sp.Equality):
            self.add(r.lhs, r.rhs)
            self.add(r.rhs, r.lhs)

    def leq(self, a, b):
        a, b = str(a), str(b)
        if a == b:
            return True
        seen, todo = {a}, [a]
        while todo:
            x = todo.pop()
            for y in self.le.get(x, ()):
                if y == b:
                    return True
                if y not in seen:
                    seen.add(y)
                    todo.append(y)
        return False


def check(prog, ctx):
    ctx.rule('C11.a', 'Nelder-Mead only replaces a vertex by a better one and never the best: writes to the vertex values/rows are (i) the trial '
             'replacement of the worst vertex under ytry < y[ihi] with value and row from the same trial point, (ii) the shrink step guarded by i != ilo '
             'towards row ilo with the value re-evaluated at the new row, (iii) the final exchange of positions 0 and ilo for values and rows alike', 4)
    ctx.rule('C11.b', 'selection scan over all vertices: ilo by <= against the running minimum, ihi by > against the running maximum', 1)
    ctx.rule('C11.c', 'trial point is the affine image c + fac (p_hi - c), c = (psum - p_hi)/ndim, and psum is updated by ptry - p_hi exactly when the row is replaced', 2)
    ctx.rule('C11.d', 'coefficient ranges: reflection < 0, expansion > 1, contraction and shrink in (0,1)', 1)
    ctx.rule('C11.e', 'Brent keeps the best point: (x,fx) is overwritten only by (u, F(u)) on a path where fu <= fx; the returned point is x; '
             'the bracketing step keeps fb <= fa on every path, returns only brackets (fb <= fa, fb <= fc) and every stored value is the function at its abscissa', 5)
    ctx.rule('C11.f', 'Find_Maximum(f) is Find_Minimum(-f) with the same bracket and tolerance', 1)
    ctx.rule('C11.g', 'per-call state: every scalar member of Minimization that minimize(simplex, func) uses - the evaluation counter compared with NMAX, '
             'the simplex dimensions, fmin - is assigned by that call before its first use on every path (definite assignment; helper members\' reads count '
             'at their call sites), so neither the result nor the budget guard depends on earlier calls on the same object', 3)
    ctx.sub('bracket', bracket, prog, ctx)
    ctx.sub('brent', brent, prog, ctx)
    ctx.sub('maximum', maximum, prog, ctx)
    ctx.sub('nelder_mead', nelder_mead, prog, ctx)
    ctx.sub('per_call_state', per_call_state, prog, ctx)


def per_call_state(prog, ctx):
    """C11.g: the scalar members of Minimization that minimize(simplex, func) reads (the evaluation counter compared with NMAX, the simplex
    dimensions, fmin) are assigned by that call before their first read on every path."""
    import copy
    from ..state import DefAssign
    R = 'C11.g'
    fn = prog.fn(L + 'Minimization::minimize', 2, pred=lambda f: f.params[0]['ty'].startswith('std::vector<std::vector'))
    SCALAR = ('int', 'unsigned int', 'double', 'float', 'long', 'unsigned long', 'bool')

    def this_member(n):
        return n.get('k') == 'Member' and n.get('cls') == L + 'Minimization' and strip(n.get('base') or {'k': 'This'}).get('k') == 'This' and not n.get('method')

    def fields_read(g):
        out = {}
        for n in all_exprs(g):
            if this_member(n):
                out[n['id']] = n['name']
        return out

    def rewrite(n):
        if isinstance(n, list):
            return [rewrite(x) for x in n]
        if not isinstance(n, dict):
            return n
        if this_member(n):
            return {'k': 'Ref', 'id': n['id'], 'name': n['name'], 'rk': 'field', 'ty': n.get('ty'), 'l': n.get('l')}
        m = {k: rewrite(v) for k, v in n.items()}
        if m.get('k') == 'Call' and m.get('kind') == 'method' and (m.get('callee') or {}).get('inrepo') and (m.get('callee') or {}).get('cls') == L + 'Minimization' \
                and strip(n.get('obj') or {'k': 'This'}).get('k') == 'This':
            g = prog.by_sig(m['callee'].get('sig'))
            if g is not None:
                # a helper member reads these members of the same object: reads at the call site
                m['args'] = list(m.get('args', [])) + [{'k': 'Ref', 'id': i_, 'name': nm, 'rk': 'field', 'l': n.get('l')} for i_, nm in fields_read(g).items()]
        return m
    tys = {}
    for n in all_exprs(fn):
        if this_member(n):
            tys[n['id']] = (n['name'], str(n.get('ty', '')))
    # members no method other than a constructor ever writes are configuration fixed at construction (ftol), not per-call state
    written = set()
    for g in prog.all_fns() if hasattr(prog, 'all_fns') else list(prog.functions.values()):
        if not str(getattr(g, 'q', '')).startswith(L + 'Minimization::') or g.q == L + 'Minimization::Minimization' or g.body is None:
            continue
        for n in all_exprs(g):
            t = None
            if n.get('k') == 'Bin' and n.get('op') in ('=', '+=', '-=', '*=', '/=', '%='):
                t = n['lhs']
            elif n.get('k') == 'Un' and n.get('op') in ('++', '--'):
                t = n['e']
            if t is not None:
                t = strip_casts(t)
                while t.get('k') == 'Index':
                    t = strip_casts(t['base'])
                if this_member(t):
                    written.add(t['id'])
    tracked = {i_: nm for i_, (nm, ty) in tys.items() if ty in SCALAR and i_ in written}
    if not tracked:
        raise AnalysisBroken('no scalar member of Minimization is read in minimize(simplex, func): %s' % tys)
    f2 = copy.copy(fn)
    f2.body = rewrite(fn.body)
    early = DefAssign(prog, f2, tracked).run()
    by = {}
    for name, node, why in early:
        by.setdefault(name, (node, why))
    for i_, nm in sorted(tracked.items(), key=lambda kv: kv[1]):
        if nm in by:
            node, why = by[nm]
            ctx.violated(R, 'minimize:member:' + nm, fn, 'member `%s` is used (%s, line %s) before this call of minimize assigned it: its value is what an earlier '
                         'minimisation on the same object left behind (indeterminate on a fresh object)%s' % (nm, why, node.get('l'),
                         ' - the evaluation budget NMAX is then charged with the evaluations of all earlier calls and a later, easy minimisation stops with '
                         '"NMAX exceeded"' if nm == 'nfunc' else ''), witness={'first_early_use_line': node.get('l'), 'member': nm})
        else:
            ctx.holds(R, 'minimize:member:' + nm, fn, 'assigned by this call on every path before its first use')


def bracket(prog, ctx):
    R = 'C11.e'
    fs = [f for f in prog.fns(L + 'Bracket_Method::Bracket') if f.is_inst]
    if not fs:
        raise AnalysisBroken('no instantiation of Bracket_Method::Bracket found')
    fn = fs[0]
    sx = Symx(prog, fn, inline={L + 'Bracket_Method::Shift3', L + 'Bracket_Method::Shift2', L + 'Bracket_Method::Move3'})
    loops = [s for s in walk_stmts(fn.body) if s['k'] == 'While']
    if len(loops) != 1:
        raise Undecided('bracketing loop not found')
    loop = loops[0]
    pre = sx.states_at(fn, loop)
    fname = fn.params[2]['name']
    F = lambda t: Function('F:' + fname, real=True)(t)
    # establishment: on every path into the loop fb <= fa and values are paired
    est = []
    for st in pre:
        e = st.env
        o = Order()
        for c in st.conds:
            o.add_rel(c)
        if not o.leq(e['this.fb'], e['this.fa']):
            est.append('on the path %s the loop is entered with fb=%s, fa=%s' % ([str(c) for c in st.conds], e['this.fb'], e['this.fa']))
        for x, f in (('ax', 'fa'), ('bx', 'fb'), ('cx', 'fc')):
            if not is_zero(e['this.' + f] - F(e['this.' + x])):
                est.append('%s is not the function value at %s on entry' % (f, x))
    ctx.decide(R, 'Bracket:entry', fn, not est and len(pre) == 2, 'the loop is entered with fb <= fa (initial exchange) and every value taken at its abscissa',
               '; '.join(est) or 'expected two entry paths')
    entry, cond, live, done, n0 = sx.loop_step(loop, pre[0])
    ent = {k: v for k, v in entry.items() if isinstance(k, str) and k.startswith('this.')}
    fa, fb, fc = ent['this.fa'], ent['this.fb'], ent['this.fc']
    ax, bx, cx = ent['this.ax'], ent['this.bx'], ent['this.cx']
    contract = {fa: F(ax), fb: F(bx), fc: F(cx)}
    probs_inv, probs_pair, probs_ret = [], [], []
    npaths = 0
    for kind, env, conds in [('next', p.env, p.conds[n0:]) for p in live] + [(o.kind, o.state.env, o.state.conds[n0:]) for o in done if o.kind == 'return']:
        npaths += 1
        o = Order()
        o.add(fb, fa)                 # invariant on entry of the iteration
        if isinstance(cond, (sp.Gt, sp.Lt, sp.Ge, sp.Le)):
            o.add_rel(cond)           # loop condition holds inside the body
        for c in conds:
            if isinstance(c, sp.Rel):
                o.add_rel(c)
        nfa, nfb, nfc = env['this.fa'], env['this.fb'], env['this.fc']
        nax, nbx, ncx = env['this.ax'], env['this.bx'], env['this.cx']
        tag = [str(c)[:70] for c in conds if isinstance(c, sp.Rel) and not c.has(ax)][-2:]
        if not o.leq(nfb, nfa):
            probs_inv.append('%s path %s: new fb=%s is not shown <= new fa=%s' % (kind, tag, str(nfb)[:50], str(nfa)[:50]))
        if kind == 'return' and not o.leq(nfb, nfc):
            probs_ret.append('returning path %s: fb=%s is not shown <= fc=%s (the triple is not a bracket)' % (tag, str(nfb)[:50], str(nfc)[:50]))
        for xx, ff, nm in ((nax, nfa, 'a'), (nbx, nfb, 'b'), (ncx, nfc, 'c')):
            if not is_zero(ff.subs(contract) - F(xx).subs(contract)) and not is_zero(sp.simplify(ff.subs(contract) - F(xx).subs(contract))):
                probs_pair.append('%s path %s: f%s is not the function value at %sx' % (kind, tag, nm, nm))
    ctx.decide(R, 'Bracket:descent', fn, not probs_inv and npaths >= 6, 'all %d paths through the loop body keep fb <= fa (the middle point never gets worse than the outer one)' % npaths,
               '; '.join(probs_inv[:3]) or 'fewer paths than expected', witness={'paths': probs_inv} if probs_inv else None, line=loop['l'])
    ctx.decide(R, 'Bracket:returns-bracket', fn, not probs_ret, 'every early return hands back a bracket (fb <= fa and fb <= fc)', '; '.join(probs_ret))
    ctx.decide(R, 'Bracket:pairing', fn, not probs_pair, 'on every path fa, fb, fc remain the function values at ax, bx, cx', '; '.join(probs_pair[:3]),
               witness={'paths': probs_pair} if probs_pair else None)
    # ---- positions: the triple stays ordered (bx strictly between ax and cx) on every path.  The path conditions touch the points
    # only through signs of products of differences, so a finite set of placements of (ax, bx, cx, trial point) covers them.
    AU = sp.core.function.AppliedUndef
    uids = [d_['id'] for d_ in local_decls(fn) if d_['ty'] == 'double' and d_.get('init') is not None and
            any(x_.get('k') == 'Call' and (x_.get('callee') or {}).get('q') == L + 'Sign' for x_ in walk_expr(d_['init']))]
    probs_ord = []
    nfeas = 0
    try:
        if len(uids) != 1:
            raise Undecided('parabolic trial point not identified')
        # the parabolic trial point can be any real number (it depends on the three function values): one more iteration summary in
        # which its defining expression is replaced by a free symbol, so that the tests on it stay visible as such
        import copy as _copy
        loop2 = _copy.deepcopy(loop)
        for s2_ in walk_stmts(loop2['body']):
            if s2_['k'] == 'Decl':
                for d2_ in s2_['decls']:
                    if d2_['id'] == uids[0]:
                        d2_['init'] = {'k': 'Ref', 'id': 'U@trial', 'name': 'U@trial', 'rk': 'local', 'ty': 'double', 'l': d2_.get('l')}
        sx2 = Symx(prog, fn, inline={L + 'Bracket_Method::Shift3', L + 'Bracket_Method::Shift2', L + 'Bracket_Method::Move3'})
        entry2, cond2, live2, done2, m0 = sx2.loop_step(loop2, pre[0])
        Us = sx2.symbol('U@trial', 'double')
        U0 = Us
        ent2 = {k: v for k, v in entry2.items() if isinstance(k, str) and k.startswith('this.')}
        ax, bx, cx = ent2['this.ax'], ent2['this.bx'], ent2['this.cx']
        paths = [('next', p.env, p.conds[m0:]) for p in live2] + [(o.kind, o.state.env, o.state.conds[m0:]) for o in done2 if o.kind == 'return']
        for (av, bv, cv) in ((0.0, 1.0, 3.0), (3.0, 2.0, 0.0), (-5.0, -4.5, -1.0)):
            base = {ax: av, bx: bv, cx: cv}
            # every other point that occurs in the conditions (ulim, the golden-section point) is an expression of these three
            others = set()
            for kind, env, conds in paths:
                for c_ in conds:
                    if isinstance(c_, sp.Rel):
                        for t_ in c_.atoms(sp.Mul):
                            for f_ in t_.args:
                                e_ = f_.subs(U0, Us)
                                for y_ in (e_.as_independent(Us)[0],):
                                    pass
            pts = [av, bv, cv]
            lims = []
            for kind, env, conds in paths:
                for v_ in env.values():
                    if isinstance(v_, sp.Basic) and not v_.atoms(AU) and v_.free_symbols and v_.free_symbols <= {ax, bx, cx}:
                        try:
                            lims.append(float(v_.subs(base)))
                        except Exception:
                            pass
            cuts = sorted(set(round(x_, 9) for x_ in pts + lims))
            cand = [cuts[0] - 7.0] + [(cuts[i_] + cuts[i_ + 1]) / 2 for i_ in range(len(cuts) - 1)] + [cuts[-1] + 7.0]
            for uv in cand:
                sub = dict(base)
                for kind, env, conds in paths:
                    feas = True
                    for c_ in conds:
                        if not isinstance(c_, sp.Rel):
                            continue
                        c2 = c_.subs(U0, Us).subs(sub).subs(Us, uv)
                        if c2 in (sp.true, True):
                            continue
                        if c2 in (sp.false, False):
                            feas = False
                            break
                        # a condition on function values: both outcomes are possible
                    if not feas:
                        continue
                    try:
                        na, nb, nc = [float(env[k_].subs(U0, Us).subs(sub).subs(Us, uv)) for k_ in ('this.ax', 'this.bx', 'this.cx')]
                    except (TypeError, ValueError):
                        continue
                    nfeas += 1
                    if not (nb - na) * (nc - nb) > 0:
                        tag = [str(c_.subs(U0, Us))[:60] for c_ in conds if isinstance(c_, sp.Rel) and c_.has(U0)][-2:]
                        probs_ord.append('%s path %s with (ax,bx,cx)=(%g,%g,%g), trial point %g: the triple becomes (%g,%g,%g), bx is no longer between ax and cx'
                                         % (kind, tag, av, bv, cv, uv, na, nb, nc))
        ctx.decide(R, 'Bracket:ordering', fn, not probs_ord and nfeas >= 10, 'on all %d feasible (placement, path) pairs the new middle point lies strictly between the new outer points' % nfeas,
                   '; '.join(probs_ord[:2]) or 'too few feasible placements (%d)' % nfeas, witness={'cases': probs_ord[:4]} if probs_ord else None, line=loop['l'])
    except Undecided as ex_:
        ctx.undecided(R, 'Bracket:ordering', fn, 'positions outside the understood fragment: %s' % ex_)
    # constants
    consts = {d['name']: d for d in local_decls(fn)}
    g = float(strip_casts(consts['golden_ratio']['init'])['val']) if 'golden_ratio' in consts else None
    ctx.decide(R, 'Bracket:growth', fn, g is not None and g > 1.0, 'growth ratio %s > 1' % g, 'growth ratio %s is not > 1' % g)


def brent(prog, ctx):
    R = 'C11.e'
    fs = [f for f in prog.fns(L + 'Brent::Minimize') if f.is_inst]
    if not fs:
        raise AnalysisBroken('no instantiation of Brent::Minimize found')
    fn = fs[0]
    sx = Symx(prog, fn, inline={L + 'Bracket_Method::Shift3', L + 'Bracket_Method::Shift2', L + 'Bracket_Method::Move3'})
    loops = [s for s in fn.body['body'] if s['k'] == 'For']
    if len(loops) != 1:
        raise Undecided('Brent main loop not found')
    loop = loops[0]
    pre = sx.states_at(fn, loop)
    fname = fn.params[0]['name']
    F = lambda t: Function('F:' + fname, real=True)(t)
    names = {d['name']: d['id'] for d in local_decls(fn)}
    if not all(n in names for n in ('x', 'fx', 'u', 'fu')):
        # roles by position would be needed; the NR names are part of the anchor
        raise Undecided('Brent state variables x, fx, u, fu not found')
    start_ok = all(st.env.get(names['x']) == Symbol('this.bx', real=True) and is_zero(st.env.get(names['fx']) - F(Symbol('this.bx', real=True))) for st in pre)
    ctx.decide(R, 'Brent:start', fn, start_ok and len(pre) >= 1, 'starts from the best point bx of the bracket with fx = F(bx)', 'x/fx do not start at (bx, F(bx))')
    entry, cond, live, done, n0 = sx.loop_step(loop, pre[0])
    x, fx = entry[names['x']], entry[names['fx']]
    probs = []
    nmoves = 0
    for p in live:
        env, conds = p.env, p.conds[n0:]
        nx, nfx = env.get(names['x']), env.get(names['fx'])
        if nx == x and nfx == fx:
            continue
        nmoves += 1
        o = Order()
        for c in conds:
            if isinstance(c, sp.Rel):
                o.add_rel(c)
        uval = env.get(names['u'])
        fuval = env.get(names['fu'])
        if not (is_zero(nx - uval) and is_zero(nfx - fuval) and is_zero(fuval - F(uval))):
            probs.append('(x,fx) is overwritten by (%s, %s), not by (u, F(u))' % (str(nx)[:40], str(nfx)[:40]))
        if not o.leq(fuval, fx):
            probs.append('(x,fx) is overwritten on a path that does not establish fu <= fx: %s' % [str(c)[:60] for c in conds if isinstance(c, sp.Rel) and c.has(fx)][-2:])
    ctx.decide(R, 'Brent:best-point', fn, not probs and nmoves >= 1, 'the best point moves only to (u, F(u)) with fu <= fx (%d such paths)' % nmoves,
               '; '.join(sorted(set(probs))[:3]) or 'no path moves the best point', line=loop['l'])
    rets = [o for o in done if o.kind == 'return']
    okr = len(rets) >= 1 and all(o.value == x for o in rets)
    ctx.decide(R, 'Brent:returns-best', fn, okr, 'returns the best point x', 'returns %s' % [str(o.value) for o in rets])
    cg = [d for d in local_decls(fn) if d['name'] == 'CGOLD']
    okc = len(cg) == 1 and 0 < float(strip_casts(cg[0]['init'])['val']) < 0.5
    ctx.decide(R, 'Brent:golden', fn, okc, 'golden-section constant in (0, 1/2)', 'golden-section constant outside (0,1/2)')


def maximum(prog, ctx):
    fn = prog.fn(L + 'Find_Maximum')
    ps = [p['name'] for p in fn.params]
    lam = None
    for d in local_decls(fn):
        if d.get('init') is not None and strip(d['init']).get('k') == 'Lambda':
            lam = (d['name'], strip(d['init']))
    ok = False
    detail = 'no lambda'
    if lam:
        rs = [s for s in walk_stmts(lam[1]['fn']['body']) if s['k'] == 'Return']
        if len(rs) == 1:
            sx = Symx(prog, None)
            lx = lam[1]['fn']['params'][0]['name']
            val = sx.sym(rs[0]['e'], State({}))
            neg = is_zero(val + Function('F:' + ps[0], real=True)(Symbol(lx, real=True)))
            cs = [c for c in calls(fn, into_lambdas=False) if (c.get('callee') or {}).get('q') == L + 'Find_Minimum']
            args = []
            if len(cs) == 1:
                for a_ in cs[0]['args']:
                    while strip(a_).get('k') in ('Construct', 'Copy') and (strip(a_).get('args') or strip(a_).get('e')):
                        a_ = strip(a_)['args'][0] if strip(a_).get('k') == 'Construct' else strip(a_)['e']
                    args.append('<default>' if a_.get('k') == 'DefaultArg' else show(strip_casts(a_)))
            ok = neg and args == [lam[0], ps[1], ps[2], ps[3]]
            detail = 'lambda returns %s; Find_Minimum%s' % (val, tuple(args))
    ctx.decide('C11.f', 'Find_Maximum', fn, ok, 'Find_Minimum(-f, xLeft, xRight, tol)', 'Find_Maximum is not Find_Minimum of -f with the same arguments: ' + detail)
    fm = prog.fn(L + 'Find_Minimum')
    cs = [(c['callee']['name'], [show(strip_casts(a)) for a in c['args']]) for c in calls(fm) if c.get('kind') == 'method']


def reach_of(prog, fn, pred):
    g = G.GuardScan(prog, fn, {})
    g.use_pred = pred
    g.run()
    return g.uses


def nelder_mead(prog, ctx):
    am = prog.fn(L + 'Minimization::amotry')
    mn = prog.fn(L + 'Minimization::minimize', 2)
    pn = [p['name'] for p in am.params]       # p, y, psum, ihi, fac, func
    # ---- (i) trial replacement
    def is_write_to(names):
        def pred(n):
            if n.get('k') == 'Bin' and n['op'] in ('=', '+=', '-='):
                b = strip_casts(n['lhs'])
                while b.get('k') == 'Index':
                    b = strip_casts(b['base'])
                return b.get('k') in ('Ref', 'Member') and b.get('name') in names
            return False
        return pred
    uses = reach_of(prog, am, is_write_to({pn[0], pn[1], pn[2]}))
    probs = []
    seen = set()
    for node, reach, loops in uses:
        l = show(node['lhs']).replace(' ', '')
        seen.add(l.split('[')[0])
        txt = G.f_show(reach).replace(' ', '')
        want = 'ytry<%s[%s]' % (pn[1], pn[3])
        want2 = '%s(ptry)<%s[%s]' % (pn[5], pn[1], pn[3])
        core = reach
        if core[0] == 'and':
            parts = [x for x in core[1] if not (x[0] == 'loop' and x[2] == G.TRUE)]
            core = parts[0] if len(parts) == 1 else ('and', parts)
        exact = core[0] == 'atom' and G.f_show(core).replace(' ', '') in (want, want2)
        if not exact:
            probs.append('`%s` is not guarded by ytry < %s[%s] (reach: %s)' % (show(node), pn[1], pn[3], G.f_show(reach)[:80]))
        if l.startswith(pn[1] + '[') and (l != '%s[%s]' % (pn[1], pn[3]) or show(strip_casts(node['rhs'])) != 'ytry'):
            probs.append('vertex value write `%s`' % show(node))
        if l.startswith(pn[0] + '[') and (not l.startswith('%s[%s][' % (pn[0], pn[3])) or not show(strip_casts(node['rhs'])).startswith('ptry[')):
            probs.append('vertex row write `%s`' % show(node))
    yt = [d for d in local_decls(am) if d['name'] == 'ytry']
    okprov = len(yt) == 1 and yt[0].get('init') is not None and show(strip(yt[0]['init'])).replace(' ', '') == '%s(ptry)' % pn[5]
    ctx.decide('C11.a', 'amotry:replacement', am, not probs and okprov and {pn[0], pn[1], pn[2]} <= seen,
               'the worst vertex is replaced only when ytry = F(ptry) < y[ihi], value and row together', '; '.join(probs) or 'trial value is not F(ptry) or a write is missing')
    # ---- C11.c trial point identity
    sx = Symx(prog, am)
    outs = [o for o in sx.run() if o.kind == 'return']
    okid = False
    detail = ''
    k = Symbol('k', integer=True)
    for o in outs:
        for v in o.state.env.values():
            if isinstance(v, Arr) and v.name == 'ptry':
                t = v.read((k,))
                fac = sx.symbol(pn[4], 'double')
                nd = Symbol('this.ndim', integer=True)
                PS, PH = Function(pn[2], real=True)(k), Function(pn[0], real=True)(sx.symbol(pn[3], 'int'), k)
                c = (PS - PH) / nd
                okid = is_zero(sp.simplify(t - (c + fac * (PH - c))))
                detail = str(t)
    ctx.decide('C11.c', 'amotry:trial-point', am, okid, 'ptry = c + fac*(p_hi - c) with c the centroid of the other vertices', 'trial point is %s' % detail, form=detail)
    upd = [show(n).replace(' ', '') for n, r, l_ in uses if show(n['lhs']).startswith(pn[2] + '[')]
    okps = upd == ['%s[j]+=ptry[j]-%s[%s][j]' % (pn[2], pn[0], pn[3])]
    order_ok = False
    lines = {show(n['lhs']).split('[')[0]: n['l'] for n, r, l_ in uses}
    ws = [(n['l'], show(n['lhs']).split('[')[0]) for n, r, l_ in uses]
    # psum must be updated before the row is overwritten (it reads the old row)
    ps_l = [l_ for l_, nm in ws if nm == pn[2]]
    p_l = [l_ for l_, nm in ws if nm == pn[0]]
    order_ok = bool(ps_l and p_l and max(ps_l) <= min(p_l))
    ctx.decide('C11.c', 'amotry:psum-update', am, okps and order_ok, 'psum[j] += ptry[j] - p[ihi][j] before the row is overwritten', 'column-sum update is %s' % upd)
    # ---- minimize: shrink step, final exchange, initial evaluation
    ys = 'y'
    cs = 'current_simplex'
    uses = reach_of(prog, mn, is_write_to({ys, cs}))
    probs = []
    kinds = []
    for node, reach, loops in uses:
        l = show(node['lhs']).replace(' ', '').replace('this.', '')
        r = show(strip_casts(node['rhs'])).replace(' ', '').replace('this.', '')
        txt = G.f_show(reach).replace(' ', '').replace('this.', '')
        if l == cs and r == mn.params[0]['name']:
            kinds.append('init-simplex')
        elif l.startswith(ys + '[') and not loops_have_cond(loops) and 'EXISTS' in txt and 'ilo' not in txt and r.startswith(mn.params[1]['name'] + '('):
            kinds.append('init-values')
        elif l.startswith(cs + '[') or l.startswith(ys + '['):
            idx = l.split('[')[1].rstrip(']')
            guarded = ('%s!=ilo' % idx in txt) or ('ilo!=%s' % idx in txt)
            if not guarded:
                probs.append('`%s` can overwrite the best vertex: not guarded by %s != ilo' % (show(node), idx))
            if l.startswith(cs + '[') and ('%s[ilo][' % cs) not in show(node['rhs']).replace(' ', '').replace('this.', ''):
                probs.append('shrink moves row %s towards %s, not towards the best row ilo' % (idx, show(node['rhs'])[:60]))
            kinds.append('shrink')
    # value re-evaluated at the new row: wherever y[i] = func(A) is written inside a loop over the vertices, A[k] is row i of the simplex
    reev = reevaluation(prog, mn, ys, cs)
    if reev is None:
        if not probs:
            raise Undecided('re-evaluation of moved vertices: loop summary not obtained')
        reev = (2, [])      # the guard/target problems found above already decide the rule
    nre, bad_re = reev
    if nre < 2:
        probs.append('the value of a shrunk vertex is not re-evaluated at its new row')
    probs += bad_re
    ctx.decide('C11.a', 'minimize:shrink', mn, not probs and 'shrink' in kinds, 'shrink step skips the best vertex, contracts towards it and re-evaluates each moved vertex',
               '; '.join(sorted(set(probs))), witness={'reproducer': 'a shrink step while the best vertex is not row 0 loses the best point'} if probs else None)
    ctx.decide('C11.a', 'minimize:initial', mn, 'init-simplex' in kinds and 'init-values' in kinds, 'all vertices are evaluated once at the start', 'initial evaluation not recognised: %s' % kinds)
    sw = [[show(a).replace(' ', '').replace('this.', '') for a in c['args']] for c in calls(mn) if (c.get('callee') or {}).get('q') == 'std::swap']
    oksw = ['y[0]', 'y[ilo]'] in sw and any(a[0].startswith(cs + '[0][') and a[1].startswith(cs + '[ilo][') for a in sw) and len(sw) == 2
    rets = [s for s in walk_stmts(mn.body) if s['k'] == 'Return']
    fmin = [show(e).replace(' ', '').replace('this.', '') for e in all_exprs(mn) if e.get('k') == 'Bin' and e['op'] == '=' and show(e['lhs']).replace('this.', '') == 'fmin']
    ctx.decide('C11.a', 'minimize:result', mn, oksw and fmin == ['fmin=y[0]'] and len(rets) == 1, 'values and rows 0 <-> ilo are exchanged together; fmin = y[0]; the best row is returned',
               'final exchange / result not recognised: swaps %s, fmin %s' % (sw, fmin))
    # ---- C11.b selection
    conds = [show(s['cond']).replace(' ', '').replace('this.', '') for s in walk_stmts(mn.body) if s['k'] == 'If']
    okb = 'y[i]<=y[ilo]' in conds and 'y[i]>y[ihi]' in conds
    scan = [s for s in walk_stmts(mn.body) if s['k'] == 'For' and s.get('cond') is not None and any(show(x['cond']).replace(' ', '').replace('this.', '') == 'y[i]<=y[ilo]' for x in walk_stmts(s['body']) if x['k'] == 'If')]
    okr = len(scan) == 1 and show(scan[0]['cond']).replace(' ', '').replace('this.', '') == 'i<mpts' and show(strip_casts(scan[0]['init']['decls'][0]['init'])) == '0'
    ctx.decide('C11.b', 'minimize:selection', mn, okb and okr, 'best by <=, worst by > over all mpts vertices', 'selection scan not recognised: %s' % [c for c in conds if 'y[i]' in c])
    # ---- C11.d coefficients
    facs = []
    for c in calls(mn):
        if (c.get('callee') or {}).get('q') == L + 'Minimization::amotry':
            a = strip_casts(c['args'][4])
            neg = False
            if a.get('k') == 'Un' and a['op'] == '-':
                neg = True
                a = strip_casts(a['e'])
            if a.get('k') == 'Lit':
                facs.append(-float(a['val']) if neg else float(a['val']))
    shr = []
    for node, reach, loops in uses:
        if show(node['lhs']).replace('this.', '').startswith(cs + '['):
            for m in walk_expr(node['rhs']):
                if m.get('k') == 'Lit' and m.get('lk') == 'float':
                    shr.append(float(m['val']))
    okd = len(facs) == 3 and facs[0] < 0 and facs[1] > 1 and 0 < facs[2] < 1 and len(shr) >= 1 and all(0 < s_ < 1 for s_ in shr)
    ctx.decide('C11.d', 'coefficients', mn, okd, 'reflection %s, expansion %s, contraction %s, shrink %s' % tuple(facs + shr[:1]) if len(facs) == 3 and shr else 'ok',
               'move coefficients %s / shrink %s are outside their ranges (reflection<0, expansion>1, contraction and shrink in (0,1))' % (facs, shr))


def reevaluation(prog, mn, ys, cs):
    """(number of vertex loops that store y[i] = F(A), problems): after one symbolic iteration of each such loop the array handed to
    the objective must hold, element by element, row i of the simplex as it stands at that point."""
    from ..symx import State
    sx = Symx(prog, mn)
    k = Symbol('k', integer=True)
    fname = 'F:' + mn.params[1]['name']
    n, bad = 0, []
    for lp in walk_stmts(mn.body):
        if lp['k'] != 'For' or lp.get('cond') is None:
            continue
        st = State({})
        try:
            if lp.get('init') is not None:
                lv, _ = sx.exec(lp['init'], [st])
                st = lv[0]
            entry, cond, live, done, n0 = sx.loop_step(lp, st)
        except Undecided:
            continue
        for p in live:
            yv = p.env.get('this.' + ys)
            if not isinstance(yv, Arr) or not yv.defs:
                continue
            kvs, g, t = yv.defs[-1]
            if not (isinstance(t, sp.core.function.AppliedUndef) and t.func.__name__ == fname and len(t.args) == 1):
                continue
            if not (isinstance(g, sp.Equality) and len(kvs) == 1):
                return None
            idx = g.rhs if g.lhs == kvs[0] else g.lhs
            an = str(t.args[0])
            bare = an.split(':', 1)[1] if an.startswith(('arr:', 'obj:')) else an
            arg = [v for v in p.env.values() if isinstance(v, Arr) and str(v.name) == bare]
            rows = p.env.get('this.' + cs)
            if len(arg) > 1:
                return None
            if not arg:
                arg = [Arr(bare)]          # not written in this iteration: its elements are whatever they were before
            if not isinstance(rows, Arr):
                rows = Arr('this.' + cs)
            n += 1
            a_el, r_el = arg[0].read((k,)), rows.read((idx, k))
            import re as _re
            if any('@loop' in str(x_) or '@entry' in str(x_) or '[' in str(x_) or _re.search(r'@(?!in\b)', str(x_)) for x_ in (a_el, r_el)):
                return None       # an array whose content is unknown here (written by something the summary does not model)
            if not is_zero(sp.simplify(a_el - r_el)):
                bad.append('line %s: the stored value y[%s] is the objective at %s (element k: %s) but row %s of the simplex is %s there'
                           % (lp['l'], idx, arg[0].name, str(a_el)[:80], idx, str(r_el)[:100]))
    return n, bad


def loops_have_cond(loops):
    return False

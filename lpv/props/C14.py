"""C14 - Monte-Carlo integrators sample inside the region and forget earlier calls (structural clauses)."""
import sympy as sp
from sympy import Symbol, Function, S
from ..ir import (AnalysisBroken, Undecided, show, strip, strip_casts, walk_stmts, stmt_exprs, walk_expr, calls,
                  all_exprs, constructs, local_decls)
from ..symx import Symx, State, Arr, is_zero
from ..state import DefAssign, static_locals, byref_first_access
from .. import guards as G

L = 'libphysica::'
ENTROPY = ('std::random_device', 'rand', 'srand', 'time', 'clock', 'std::chrono')
ENGINE = 'std::mersenne_twister_engine'


def closure(prog, root):
    seen, todo = {}, [root]
    while todo:
        f = todo.pop()
        if f.sig in seen:
            continue
        seen[f.sig] = f
        for c in calls(f):
            cc = c.get('callee') or {}
            if cc.get('inrepo'):
                g = prog.by_sig(cc['sig'])
                if g is not None:
                    todo.append(g)
    return list(seen.values())


def const_args_at(prog, caller, callee_q):
    """Constant arguments (by callee parameter name) at the unique call of callee_q in caller."""
    r = const_args_at_all(prog, caller, callee_q)
    if len(r) != 1:
        raise AnalysisBroken('%s: expected one call of %s, found %d' % (caller.q, callee_q, len(r)))
    return r[0]


def const_args_at_all(prog, caller, callee_q):
    """[(constant arguments by callee parameter name, callee)] for every call of callee_q in caller, in source order."""
    cs = [c for c in calls(caller) if (c.get('callee') or {}).get('q') == callee_q]
    if not cs:
        raise AnalysisBroken('%s: no call of %s' % (caller.q, callee_q))
    g = G.GuardScan(prog, caller, {})
    res = []
    for c in cs:
        callee = prog.by_sig(c['callee']['sig'])
        out = {}
        for p, a in zip(callee.params, c['args']):
            a = strip_casts(g.subst(a))
            neg = False
            if a.get('k') == 'Un' and a['op'] == '-':
                neg = True
                a = strip_casts(a['e'])
            if a.get('k') == 'Lit' and a['lk'] == 'int':
                out[p['name']] = -int(a['v']) if neg else int(a['v'])
        res.append((out, callee))
    return res


def check(prog, ctx):
    ctx.rule('C14.a', 'no state survives a top-level call: every mutable object with static storage reachable from Integrate_MC is '
             'definitely assigned before it is read on every path, under the constant arguments of the entry (init=0, itmx=5, nprn=-1 for Vegas); '
             'by-reference passing uses the callee\'s own write-before-read summary', 30)
    ctx.rule('C14.b', 'randomness is per call: each integrator constructs a local engine from a local std::random_device and every draw in its '
             'closure receives that engine (or the function\'s own engine parameter); no engine, seed source or distribution has static storage', 6)
    ctx.rule('C14.c', 'region layout agreement: readers use lower=region[j], upper=region[j+dim], dim=size/2 - the layout written by the 2D/3D front ends', 4)
    ctx.rule('C14.d', 'sample points are affine images of the unit cube: Random_Point is region[i]+u*(region[i+dim]-region[i]) with u from '
             'Sample_Uniform\'s default range [0,1); Vegas x[j]=region[j]+rc*dx[j], dx[j]=region[j+ndim]-region[j]; Miser sub-regions replace one bound by a convex combination', 4)
    ctx.rule('C14.e', 'constants are integrated exactly in form: plain MC returns sum(volume*f)/ncall, Miser returns MC_Volume*average', 2)
    ctx.rule('C14.g', 'double precision throughout: no local variable or parameter of the integrators (closure of Integrate_MC within the integration module) has type float - '
             'an accumulator narrowed to float returns constants only to 1e-7 relative, not to rounding', 5)
    ctx.rule('C14.h', 'the caller\'s region is read-only: the region parameter of Integrate_MC, and every parameter it is forwarded to by reference, is never '
             'assigned, swapped, resized or handed to a mutating standard function - the hyper-rectangle sampled is the one the caller passed '
             '(callees that take it by const reference or by value cannot change it)', 1)
    mc = prog.fn(L + 'Integrate_MC')
    cl = closure(prog, mc)
    ctx.notes.append('closure of Integrate_MC: %s' % sorted(f.q for f in cl))
    # ---- C14.a statics
    nstat = 0
    for fn in cl:
        st = static_locals(fn)
        if not st:
            continue
        entries = [{}]
        if fn.q == L + 'Integrate_MC_Vegas':
            entries = [c_ for c_, _ in const_args_at_all(prog, mc, fn.q)]
        tracked = {d['id']: d['name'] for d in st}

        def summary(call, idx, prog=prog):
            cc = call.get('callee') or {}
            g = prog.by_sig(cc.get('sig')) if cc.get('inrepo') else None
            if g is None:
                return 'R'
            return byref_first_access(prog, g, idx)
        arrays = [d['id'] for d in st if d['ty'].startswith('std::vector') or d['ty'] in (L + 'Matrix', L + 'Vector')]
        for ncall, consts in enumerate(entries):
            if ncall > 0 and consts.get('init', 0) > 0:
                # a continuation run: its statics were assigned by the earlier stage of the same top-level call, so it does not
                # depend on earlier integrations - but whether an estimate taken on an inherited, adapted grid still integrates
                # constants exactly and reports a valid error is not decided by these rules
                ctx.undecided('C14.a', '%s:continuation@call%d' % (fn.name, ncall + 1), mc,
                              'Integrate_MC runs Vegas in stages (call %d of %d enters with init=%s on the grid left by the stage before): '
                              'a multi-stage estimate is outside the understood fragment' % (ncall + 1, len(entries), consts.get('init')))
                continue
            da = DefAssign(prog, fn, tracked, consts, summary, arrays)
            early = da.run()
            ctx.notes.append('%s: array initialisation loops assumed to cover the indices read later: %s' % (fn.name, da.loop_inits))
            by = {}
            for name, node, why in early:
                by.setdefault(name, []).append((node, why))
            for d in st:
                nstat += 1
                inst = '%s:static:%s' % (fn.name, d['name']) + ('' if ncall == 0 else '@call%d' % (ncall + 1))
                if d['name'] in by:
                    node, why = by[d['name']][0]
                    ctx.violated('C14.a', inst, fn, 'static `%s` is read (%s, line %s) before anything in this call assigned it: its value is '
                                 'whatever an earlier integration left behind%s' % (d['name'], why, node.get('l'),
                                 '' if len(entries) == 1 else ' (call %d of %d from Integrate_MC, entry constants %s)' % (ncall + 1, len(entries), consts)),
                                 witness={'first_early_read_line': node.get('l'), 'entry_constants': consts}, line=d.get('l'))
                else:
                    ctx.holds('C14.a', inst, fn, 'assigned on every path before its first read (entry constants %s)' % consts, line=d.get('l'))
    # namespace-scope mutable objects used in the closure
    glob = {}
    for fn in cl:
        for e in all_exprs(fn):
            if e.get('k') == 'Ref' and e.get('rk') == 'global' and not e.get('const') and e.get('q', '').startswith(L):
                glob.setdefault(e['q'], []).append(fn.name)
    for q, users in glob.items():
        nstat += 1
        ctx.violated('C14.a', 'global:' + q, None, 'mutable namespace-scope object %s is used by %s' % (q, sorted(set(users))))
    ctx.holds('C14.a', 'census', mc, '%d objects with static storage in the closure of Integrate_MC (%d functions)' % (nstat, len(cl)))

    ctx.sub('point_length', point_length, prog, ctx, cl)
    ctx.sub('precision', precision, prog, ctx, cl)
    ctx.sub('region_readonly', region_readonly, prog, ctx, mc)
    ctx.sub('randomness', randomness, prog, ctx, mc, cl)
    ctx.sub('layout', layout, prog, ctx)
    ctx.sub('affine_region', affine_region, prog, ctx, cl)
    ctx.sub('miser_estimator', miser_estimator, prog, ctx)
    ctx.sub('vegas_bin_of_point', vegas_bin_of_point, prog, ctx)
    ctx.sub('results', results, prog, ctx)


def randomness(prog, ctx, mc, cl):
    R = 'C14.b'
    integrators = [f for f in cl if f.name.startswith('Integrate_MC_')]
    if len(integrators) != 3:
        raise AnalysisBroken('expected three integrators behind Integrate_MC, found %s' % [f.name for f in integrators])
    for fn in integrators:
        engines = [d for d in local_decls(fn) if d['ty'].startswith(ENGINE)]
        seeds = [d for d in local_decls(fn) if d['ty'] == 'std::random_device']
        probs = []
        if len(engines) != 1 or engines[0].get('static'):
            probs.append('expected exactly one non-static local engine, found %s' % [(d['name'], bool(d.get('static'))) for d in engines])
        if len(seeds) != 1 or seeds[0].get('static'):
            probs.append('expected exactly one non-static local std::random_device')
        if not probs:
            init = engines[0].get('init')
            txt = show(init) if init else ''
            ok = False
            for n in walk_expr(init) if init else []:
                if n.get('k') == 'Call' and n.get('kind') in ('functor',) and strip(n.get('fn', {})).get('name') == seeds[0]['name']:
                    ok = True
            if not ok:
                probs.append('the engine is not seeded from the local random_device: %s' % txt)
        # every draw in the body passes this engine
        if not probs:
            en = engines[0]['name']
            for c in calls(fn):
                cc = c.get('callee') or {}
                callee = prog.by_sig(cc.get('sig')) if cc.get('inrepo') else None
                if callee is None:
                    continue
                for p, a in zip(callee.params, c.get('args', [])):
                    if p['ty'].startswith(ENGINE):
                        if strip_casts(a).get('name') != en:
                            probs.append('%s receives `%s`, not the call\'s own engine' % (cc['name'], show(a)))
        ctx.decide(R, fn.name + ':engine', fn, not probs, 'local engine seeded from a local random_device; all draws use it', '; '.join(probs))
    # helpers with an engine parameter forward their own parameter
    for fn in cl:
        eps = [p for p in fn.params if p['ty'].startswith(ENGINE)]
        if not eps:
            continue
        probs = []
        for c in calls(fn):
            cc = c.get('callee') or {}
            callee = prog.by_sig(cc.get('sig')) if cc.get('inrepo') else None
            if callee is None:
                # std distribution invoked with an engine
                if c.get('kind') == 'functor':
                    for a in c.get('args', []):
                        if strip_casts(a).get('ty', '').startswith(ENGINE) and strip_casts(a).get('name') != eps[0]['name']:
                            probs.append('distribution drawn with `%s`' % show(a))
                continue
            for p, a in zip(callee.params, c.get('args', [])):
                if p['ty'].startswith(ENGINE) and strip_casts(a).get('name') != eps[0]['name']:
                    probs.append('%s receives `%s`' % (cc['name'], show(a)))
        ctx.decide(R, fn.name + ':forwards-engine', fn, not probs, 'every draw uses the function\'s own engine parameter', '; '.join(probs))
    # no static engine / distribution / seed source anywhere in the closure, no other entropy
    bad = []
    for fn in cl:
        for d in local_decls(fn):
            if d.get('static') and (d['ty'].startswith(ENGINE) or d['ty'] == 'std::random_device' or '_distribution<' in d['ty']):
                bad.append('%s: static %s %s' % (fn.name, d['ty'][:40], d['name']))
        for c in calls(fn):
            q = (c.get('callee') or {}).get('q', '')
            if q in ('rand', 'srand', 'time', 'clock', 'std::rand', 'std::srand', 'std::time', 'std::clock') or q.startswith('std::chrono'):
                bad.append('%s calls %s' % (fn.name, q))
    for g in prog.globals:
        if g['ty'].startswith(ENGINE) or g['ty'] == 'std::random_device' or '_distribution<' in g['ty']:
            bad.append('namespace-scope %s %s' % (g['ty'][:40], g['q']))
    ctx.decide(R, 'no-static-randomness', mc, not bad, 'no engine, distribution or seed source with static storage; no other entropy source',
               '; '.join(bad))


def layout(prog, ctx):
    Rg = Function('region', real=True)
    # Random_Point
    rp = prog.fn(L + 'Random_Point')
    sx = Symx(prog, rp)
    outs = [o for o in sx.run() if o.kind == 'return']
    k = Symbol('k', integer=True)
    ok = False
    got = None
    if len(outs) == 1 and isinstance(outs[0].value, Arr):
        got = outs[0].value.read((k,))
        us = [a for a in got.atoms(sp.core.function.AppliedUndef) if a.func.__name__ == L + 'Sample_Uniform']
        dimv = [v for v in outs[0].state.env.values() if isinstance(v, sp.Basic) and v.has(Symbol('len(region)', integer=True, nonnegative=True))]
        if len(us) == 1:
            u = us[0]
            n = Symbol('len(region)', integer=True, nonnegative=True)
            for dim in [v for v in dimv] + [n / 2]:
                try:
                    if is_zero(got - (Rg(k) + u * (Rg(k + dim) - Rg(k)))):
                        ok = True
                        half = sp.simplify(dim - n / 2) == 0 or 'trunc' in str(dim) or 'IntDiv' in str(dim)
                        ok = ok and half
                except Exception:
                    pass
            # Sample_Uniform called with the engine only: defaults [0,1)
            su = prog.fn(L + 'Sample_Uniform')
            defs = [strip_casts(p.get('default')) for p in su.params[1:]]
            okd = len(defs) == 2 and all(d is not None for d in defs) and float(defs[0]['val']) == 0.0 and float(defs[1]['val']) == 1.0
            cs = [c for c in calls(rp) if (c.get('callee') or {}).get('q') == L + 'Sample_Uniform']
            okc = len(cs) == 1 and all(a.get('k') == 'DefaultArg' for a in cs[0]['args'][1:])
            ok = ok and okd and okc
    ctx.decide('C14.d', 'Random_Point', rp, ok, 'point[i] = region[i] + u*(region[i+dim]-region[i]), u in [0,1), dim = size/2',
               'Random_Point computes %s' % got, form=str(got))
    vol = prog.fn(L + 'MC_Volume')
    sx = Symx(prog, vol)
    outs = [o for o in sx.run() if o.kind == 'return']
    v = outs[0].value if len(outs) == 1 else None
    okv = False
    if isinstance(v, sp.Mul) or isinstance(v, sp.Product):
        prods = list(v.atoms(sp.Product))
        if len(prods) == 1:
            f = prods[0].function
            iv, lo, hi = prods[0].limits[0]
            okv = is_zero(f - (Rg(iv + (hi + 1)) - Rg(iv))) and lo == 0
    ctx.decide('C14.c', 'MC_Volume', vol, okv, 'volume = prod_i (region[i+dim]-region[i])', 'MC_Volume computes %s' % v, form=str(v))
    # Vegas / Miser: element assignments analysed as terms (names of locals are taken from the code, not assumed)
    def elem_assigns(fn):
        sx_ = Symx(prog, fn)
        st_ = State({})
        out = []
        for e in all_exprs(fn):
            if e.get('k') == 'Bin' and e['op'] == '=' and strip_casts(e['lhs']).get('k') == 'Index':
                l = strip_casts(e['lhs'])
                if strip_casts(l['base']).get('k') != 'Ref':
                    continue
                try:
                    out.append((strip_casts(l['base'])['name'], sx_.sym(l['idx'], st_), sx_.sym(e['rhs'], st_), e))
                except Undecided:
                    pass
        return out, sx_

    def half_size_locals(fn):
        names = []
        for d in local_decls(fn):
            if d.get('init') is not None and show(d['init']).replace(' ', '') in ('region.size()/2', 'region.size()/2.0'):
                names.append(d['name'])
        for e in all_exprs(fn):
            if e.get('k') == 'Bin' and e['op'] == '=' and show(strip_casts(e['rhs'])).replace(' ', '') == 'region.size()/2' and strip(e['lhs']).get('k') == 'Ref':
                names.append(strip(e['lhs'])['name'])
        return names

    vg = prog.fn(L + 'Integrate_MC_Vegas')
    asg, sxv = elem_assigns(vg)
    halves = half_size_locals(vg)
    widths = []
    bad = []
    for arr, idx, rhs, node in asg:
        regs = [a_ for a_ in rhs.atoms(sp.core.function.AppliedUndef) if a_.func.__name__ == 'region']
        if len(regs) == 2 and is_zero(rhs - (regs[0] - regs[1])) or len(regs) == 2 and is_zero(rhs - (regs[1] - regs[0])):
            hi, lo = (regs[0], regs[1]) if is_zero(rhs - (regs[0] - regs[1])) else (regs[1], regs[0])
            off = sp.simplify(hi.args[0] - lo.args[0])
            if lo.args[0] == idx and str(off) in halves:
                widths.append(arr)
            else:
                bad.append('width %s[%s] = region[%s]-region[%s]' % (arr, idx, hi.args[0], lo.args[0]))
    pts = []
    for arr, idx, rhs, node in asg:
        for w in widths:
            W = Function(w, real=True)
            if rhs.has(W(idx)):
                base = rhs.subs(W(idx), 0)
                coef = sp.simplify((rhs - base) / W(idx))
                if is_zero(base - Rg(idx)) and not coef.has(W) and not coef.has(Rg):
                    pts.append((arr, coef))
                else:
                    bad.append('point %s[%s] = %s' % (arr, idx, rhs))
    if bad:
        ctx.violated('C14.c', 'Vegas:layout', vg, 'Vegas reads the region with a different layout: %s' % bad, witness={'assignments': bad})
    elif widths and pts and halves:
        ctx.holds('C14.c', 'Vegas:layout', vg, 'width %s[j]=region[j+%s]-region[j]; point %s[j]=region[j]+%s*%s[j]; %s=size/2'
                  % (widths[0], halves[0], pts[0][0], pts[0][1], widths[0], halves[0]))
    else:
        ctx.undecided('C14.c', 'Vegas:layout', vg, 'width / point assignments not found (widths=%s, points=%s, half-size locals=%s)' % (widths, pts, halves))
    vegas_rc(prog, ctx, vg)
    # Miser
    ms = prog.fn(L + 'Miser')
    asg, sxm = elem_assigns(ms)
    halves = half_size_locals(ms)
    mids = []
    bad = []
    for arr, idx, rhs, node in asg:
        regs = [a_ for a_ in rhs.atoms(sp.core.function.AppliedUndef) if a_.func.__name__ == 'region']
        if len(regs) == 2:
            lo = [r_ for r_ in regs if r_.args[0] == idx]
            hi = [r_ for r_ in regs if r_ not in lo]
            if len(lo) == 1 and len(hi) == 1 and str(sp.simplify(hi[0].args[0] - idx)) in halves:
                c1 = sp.simplify(rhs.coeff(lo[0]))
                c2 = sp.simplify(rhs.coeff(hi[0]))
                rest = sp.simplify(rhs - c1 * lo[0] - c2 * hi[0])
                if rest == 0 and sp.simplify(c1 + c2 - 1) == 0:
                    mids.append(arr)
                else:
                    bad.append('%s[%s] = %s is not a convex combination of the two bounds' % (arr, idx, rhs))
            else:
                bad.append('%s[%s] = %s mixes bounds of different axes' % (arr, idx, rhs))
    subs_ = {'upper': False, 'lower': False}
    copies = 0
    for arr, idx, rhs, node in asg:
        for m_ in mids:
            Mf = Function(m_, real=True)
            mm = [a_ for a_ in rhs.atoms(sp.core.function.AppliedUndef) if a_.func == Mf]
            if len(mm) == 1 and is_zero(rhs - mm[0]):
                d = sp.simplify(idx - mm[0].args[0])
                if d == 0:
                    subs_['lower'] = True
                elif str(d) in halves:
                    subs_['upper'] = True
                else:
                    bad.append('%s[%s] = %s' % (arr, idx, rhs))
        regs = [a_ for a_ in rhs.atoms(sp.core.function.AppliedUndef) if a_.func.__name__ == 'region']
        if len(regs) == 1 and is_zero(rhs - regs[0]) and arr != 'region':
            if regs[0].args[0] == idx:
                copies += 1
            else:
                bad.append('%s[%s] = region[%s]' % (arr, idx, regs[0].args[0]))
    # whole-list copies of the region (std::copy from its begin to the begin of another list, or copy construction)
    from ..symx import State as _St
    for c_ in calls(ms):
        if (c_.get('callee') or {}).get('q') == 'std::copy' and len(c_.get('args', [])) == 3:
            its = [sxm.iterator(strip_casts(a_), _St({})) for a_ in c_['args']]
            if all(its) and its[0][0] == 'region' and its[1][0] == 'region' and its[0][1] == 0 and its[2][0] != 'region' and its[2][1] == 0:
                if str(sp.simplify(its[1][1])) in ('len(region)',) or any(str(sp.simplify(its[1][1] - 2 * Symbol(h_, integer=True))) == '0' for h_ in halves) \
                        or any(sp.simplify(its[1][1] - 2 * sxm.symbol(h_, 'int')) == 0 for h_ in halves):
                    copies += 2
                else:
                    bad.append('std::copy of region[0,%s) does not copy both bounds of every axis' % its[1][1])
    for d_ in local_decls(ms):
        i_ = strip_casts(d_['init']) if d_.get('init') is not None else {}
        while i_.get('k') == 'Construct' and len([a_ for a_ in i_.get('args', []) if a_.get('k') != 'DefaultArg']) == 1:
            i_ = strip_casts(i_['args'][0])
        if i_.get('k') == 'Ref' and i_.get('name') == 'region' and d_['ty'].startswith('std::vector<double'):
            copies += 2
        # iterator-range construction `std::vector<double> t(region.begin(), region.begin() + 2*ndim)` / `(region.begin(), region.end())`
        i0 = strip_casts(d_['init']) if d_.get('init') is not None else {}
        if i0.get('k') == 'Construct' and d_['ty'].startswith('std::vector<double'):
            a2 = [a_ for a_ in i0.get('args', []) if a_.get('k') != 'DefaultArg']
            if len(a2) == 2:
                try:
                    its = [sxm.iterator(strip_casts(a_), _St({})) for a_ in a2]
                except Undecided:
                    its = [None]
                if all(its) and its[0][0] == 'region' and its[1][0] == 'region' and its[0][1] == 0:
                    end = its[1][1]
                    if str(sp.simplify(end)) == 'len(region)' or any(sp.simplify(end - 2 * sxm.symbol(h_, 'int')) == 0 for h_ in halves) \
                            or any(str(sp.simplify(end - 2 * Symbol(h_, integer=True))) == '0' for h_ in halves):
                        copies += 2
                    else:
                        bad.append('range construction from region[0,%s) does not copy both bounds of every axis' % end)
    if bad:
        ctx.violated('C14.d', 'Miser:subregions', ms, 'Miser builds its sub-regions with a different layout: %s' % bad, witness={'assignments': bad})
    elif mids and all(subs_.values()) and copies >= 2 and halves:
        ctx.holds('C14.d', 'Miser:subregions', ms, 'split point %s[j] is a convex combination of region[j], region[j+%s]; halves replace the upper resp. lower bound'
                  % (mids[0], halves[0]))
    else:
        ctx.undecided('C14.d', 'Miser:subregions', ms, 'sub-region construction not found (mid=%s, halves=%s, copies=%d)' % (mids, subs_, copies))
    # dither bound: |s| = dith via Sign(dith, .), dith passed as 0
    im = prog.fn(L + 'Integrate_MC_Miser')
    dz = [d for d in local_decls(im) if d['name'] == 'dith']
    okd = len(dz) == 1 and dz[0].get('init') is not None and abs(float(strip_casts(dz[0]['init']).get('val', '1'))) < 0.5
    ctx.decide('C14.d', 'Miser:dither', im, okd, 'dither |s| = dith < 0.5 keeps the split point inside the region', 'dither parameter not a constant below 0.5')
    # front ends (writers)
    for name, want in (('Integrate_2D', ['x1', 'y1', 'x2', 'y2']), ('Integrate_3D', ['x1', 'y1', 'z1', 'x2', 'y2', 'z2'])):
        fn = prog.fn(L + name, pred=lambda f: 'Vector' not in f.params[0]['ty'])
        rd = [d for d in local_decls(fn) if d['name'] == 'region' or d['ty'].startswith('std::vector<double')]
        got = None
        for d in rd:
            if d.get('init') is not None:
                got = [n['name'] for n in walk_expr(d['init']) if n.get('k') == 'Ref' and n.get('rk') == 'param']
        # integrand reads args[k] in position k
        lam_ok = False
        for e in all_exprs(fn, into_lambdas=False):
            if e.get('k') == 'Lambda' and len(e['fn']['params']) == 2:
                rs = [s for s in walk_stmts(e['fn']['body']) if s['k'] == 'Return']
                if rs:
                    c0 = strip(rs[0]['e'])
                    if c0.get('k') == 'Call' and c0.get('kind') == 'stdfn':
                        idx = [show(strip_casts(a)).replace(' ', '') for a in c0['args']]
                        pn = e['fn']['params'][0]['name']
                        lam_ok = idx == ['%s[%d]' % (pn, i) for i in range(len(want) // 2)]
        ctx.decide('C14.c', name + ':region', fn, got == want and lam_ok, 'region = {lower..., upper...} = %s and the integrand receives args[k] in position k' % want,
                   'front end builds region %s (integrand wiring ok=%s)' % (got, lam_ok))


def vegas_rc(prog, ctx, vg):
    """rc is a convex combination of adjacent grid edges: rc = xi[ia-2] + (xn-ia)*(xi[ia-1]-xi[ia-2]) resp. (xn-ia)*xi[ia-1] in the first bin."""
    found = {'xo1': False, 'rc1': False, 'xo0': False, 'rc0': False}
    for e in all_exprs(vg):
        if e.get('k') == 'Bin' and e['op'] == '=':
            l = show(e['lhs']).replace(' ', '')
            r = show(strip_casts(e['rhs'])).replace(' ', '')
            if l == 'xo' and r == 'xi[j][ia[j]-1]-xi[j][ia[j]-2]':
                found['xo1'] = True
            if l == 'rc' and r in ('xi[j][ia[j]-2]+(xn-ia[j])*xo',):
                found['rc1'] = True
            if l == 'xo' and r == 'xi[j][ia[j]-1]':
                found['xo0'] = True
            if l == 'rc' and r == '(xn-ia[j])*xo':
                found['rc0'] = True
    rb = prog.fn(L + 'Rebin')
    last1 = False
    for e in all_exprs(rb):
        if e.get('k') == 'Bin' and e['op'] == '=' and show(e['lhs']).replace(' ', '') == 'xi[j][nd-1]' and strip_casts(e['rhs']).get('val') == '1':
            last1 = True
    if all(found.values()) and last1:
        ctx.holds('C14.d', 'Vegas:rc', vg, 'rc interpolates between adjacent grid edges; Rebin keeps the last edge at 1')
    else:
        ctx.undecided('C14.d', 'Vegas:rc', vg, 'Vegas sample abscissa not recognised: %s, last edge=%s' % (found, last1))


def results(prog, ctx):
    bf = prog.fn(L + 'Integrate_MC_Brute_Force')
    sx = Symx(prog, bf)
    outs = [o for o in sx.run() if o.kind == 'return']
    loops = [s for s in bf.body['body'] if s['k'] == 'For']
    ok = False
    detail = ''
    if len(loops) == 1:
        st = State({})
        for s in bf.body['body']:
            if s is loops[0]:
                break
            sx.exec(s, [st])
        entry, cond, live, done, n0 = sx.loop_step(loops[0], st)
        accs = [(k, v) for k, v in entry.items() if isinstance(v, Symbol) and k != sx.counter_key(loops[0], st) and len(live) == 1
                and isinstance(live[0].env.get(k), sp.Basic) and (live[0].env.get(k) - v).atoms(sp.core.function.AppliedUndef)]
        if len(live) == 1 and len(accs) == 1:
            kk, vin = accs[0]
            delta = live[0].env[kk] - vin
            V = Function(L + 'MC_Volume', real=True)
            fs = [a for a in delta.atoms(sp.core.function.AppliedUndef) if a.func.__name__.startswith('F:')]
            vs = [a for a in delta.atoms(sp.core.function.AppliedUndef) if a.func.__name__ == L + 'MC_Volume']
            ok = len(fs) == 1 and len(vs) == 1 and is_zero(delta - vs[0] * fs[0])
            cl = sx.counted(loops[0], st)
            ncall = Symbol('ncall', integer=True)
            ok = ok and cl is not None and cl[1] == 0 and is_zero(cl[2] - ncall)
            detail = 'sum += %s' % delta
            env = dict(st.env)
            FIN = Symbol('sum_final', real=True)
            env[kk] = FIN
            rv = None
            seen = False
            st2 = State(env)
            for s in bf.body['body']:
                if s is loops[0]:
                    seen = True
                    continue
                if seen:
                    l2, d2 = sx.exec(s, [st2])
                    for o in d2:
                        if o.kind == 'return':
                            rv = o.value
            ok = ok and rv is not None and is_zero(rv - FIN / ncall)
            detail += '; returns %s' % rv
    ctx.decide('C14.e', 'Brute_Force:estimate', bf, ok, 'returns (sum over ncall points of volume*f)/ncall', 'plain Monte Carlo estimate not recognised: ' + detail)
    im = prog.fn(L + 'Integrate_MC_Miser')
    sx = Symx(prog, im)
    outs = [o for o in sx.run() if o.kind == 'return']
    okm = False
    v = None
    if len(outs) == 1:
        v = outs[0].value
        vs = [a for a in v.atoms(sp.core.function.AppliedUndef) if a.func.__name__ == L + 'MC_Volume']
        if len(vs) == 1:
            rest = sp.cancel(v / vs[0])
            okm = isinstance(rest, Symbol)
            # the average variable is the one Miser writes its mean into (its first `double&` out-parameter); the region handed
            # to Miser is the one whose volume multiplies it and the sample budget is this function's own parameter
            ms = [c for c in calls(im) if (c.get('callee') or {}).get('q') == L + 'Miser']
            okm = okm and len(ms) == 1
            if okm:
                callee = prog.by_sig(ms[0]['callee']['sig'])
                outs_d = [i_ for i_, p_ in enumerate(callee.params) if p_.get('byref') and not p_.get('constref') and p_['ty'].replace(' ', '') == 'double']
                regs = [i_ for i_, p_ in enumerate(callee.params) if 'std::vector<double' in p_['ty'] and 'function' not in p_['ty']]
                cnts = [i_ for i_, p_ in enumerate(callee.params) if not p_.get('byref') and p_['ty'].replace('const', '').replace(' ', '') in ('unsignedlong', 'unsignedint', 'int', 'long')]
                a_ = ms[0]['args']
                volarg = [show(strip_casts(c['args'][0])) for c in calls(im) if (c.get('callee') or {}).get('q') == L + 'MC_Volume']
                okm = bool(outs_d) and bool(regs) and bool(cnts) and str(rest).split('@')[0].split('#')[0] == show(strip_casts(a_[outs_d[0]])) \
                    and volarg[:1] == [show(strip_casts(a_[regs[0]]))] and strip_casts(a_[cnts[0]]).get('rk') == 'param'
    ctx.decide('C14.e', 'Miser:estimate', im, okm, 'returns MC_Volume(region)*average with average the mean computed by Miser over the same region',
               'Miser estimate is %s' % v)


def vegas_bin_of_point(prog, ctx):
    """Vegas places a point inside grid bin ia = clamp(int(xn)) at the fractional position xn - ia of ITS OWN stratified coordinate
    xn: the bin index subtracted from xn must be defined, in the same loop body and after xn, as the integer part of that xn.
    Otherwise xn - ia leaves [-1, 0] and the point is extrapolated out of the bin (and out of the region)."""
    vg = prog.fn(L + 'Integrate_MC_Vegas')
    inst = 'Vegas:bin-of-point'
    uses = []
    # the body of the innermost loop around each use, and the position of the use in it
    for lp in [l_ for l_ in walk_stmts(vg.body) if l_['k'] in ('For', 'While', 'Do')]:
        comp = lp.get('body')
        if not comp or comp.get('k') != 'Compound':
            continue
        for pos, st_ in enumerate(comp['body']):
            inner_loops = [y_ for y_ in walk_stmts(st_) if y_['k'] in ('For', 'While', 'Do')]
            for x_ in walk_stmts(st_):
                if any(x_ is z_ or any(x_ is w_ for w_ in walk_stmts(z_)) for z_ in inner_loops):
                    continue          # belongs to a deeper loop: handled there
                for e_ in stmt_exprs(x_):
                    for n_ in walk_expr(e_):
                        if n_.get('k') == 'Bin' and n_.get('op') == '-' and strip_casts(n_['lhs']).get('k') == 'Ref' \
                                and strip_casts(n_['rhs']).get('k') == 'Index' and strip(strip_casts(n_['rhs'])['base']).get('k') == 'Ref' \
                                and 'int' in str(strip_casts(n_['rhs']).get('ty', '')) and 'double' in str(strip_casts(n_['lhs']).get('ty', '')):
                            uses.append((comp, pos, strip_casts(n_['lhs']), strip_casts(n_['rhs'])))
    if not uses:
        ctx.undecided('C14.d', inst, vg, 'no fractional bin position `xn - ia[j]` found')
        return
    probs = []
    for comp, pos, xv, ix in uses:
        arr, idx = strip(ix['base'])['name'], show(strip_casts(ix['idx']))
        # last assignments to xn and to ia[idx] before the use inside this compound
        def_x = def_i = None
        for p2, st_ in enumerate(comp['body'][:pos + 1]):
            for x_ in walk_stmts(st_):
                if x_['k'] != 'Expr':
                    continue
                e_ = strip(x_['e'])
                if e_.get('k') == 'Bin' and e_['op'] == '=':
                    l_ = strip(e_['lhs'])
                    if l_.get('k') == 'Ref' and l_.get('id') == xv.get('id') and p2 <= pos:
                        def_x = (p2, e_)
                    if l_.get('k') == 'Index' and strip(l_['base']).get('name') == arr and show(strip_casts(l_['idx'])) == idx and p2 < pos:
                        def_i = (p2, e_)
        if def_i is None:
            probs.append('the bin index %s[%s] subtracted from `%s` (line %s) is not computed in the loop body that draws `%s`: every point of the '
                         'loop is placed relative to a bin chosen elsewhere' % (arr, idx, xv['name'], ix.get('l'), xv['name']))
            continue
        if def_x is None or def_x[0] > def_i[0]:
            probs.append('%s[%s] is computed before `%s` is drawn (line %s)' % (arr, idx, xv['name'], ix.get('l')))
            continue
        uses_x = any(n_.get('k') == 'Ref' and n_.get('id') == xv.get('id') for n_ in walk_expr(def_i[1]['rhs']))
        to_int = any(n_.get('k') == 'Cast' and n_.get('ck') == 'FloatingToIntegral' for n_ in walk_expr(def_i[1]['rhs'])) or \
            any(n_.get('k') == 'Call' and (n_.get('callee') or {}).get('name') in ('floor', 'trunc') for n_ in walk_expr(def_i[1]['rhs']))
        if not (uses_x and to_int):
            probs.append('%s[%s] = %s is not the integer part of `%s`' % (arr, idx, show(def_i[1]['rhs'])[:60], xv['name']))
    ctx.decide('C14.d', inst, vg, not probs, 'the bin of every sample point is the integer part of its own stratified coordinate (%d uses)' % len(uses),
               '; '.join(sorted(set(probs))[:2]), witness={'reproducer': '4-D, 2e4 calls, peaked integrand: points leave the region by up to 11% of its width'} if probs else None)


def miser_estimator(prog, ctx):
    """Every value Miser writes into its mean out-parameter is either the mean of this box's own samples (an accumulator of
    function values over a loop of npts points, divided by npts) or the volume-fraction-weighted combination f*a + (1-f)*b of
    the means returned by its two recursive calls.  Anything else (a single sample, a constant) is not an estimate of the box."""
    from ..symx import terms_at
    ms = prog.fn(L + 'Miser')
    outp = [p_ for p_ in ms.params if p_.get('byref') and not p_.get('constref') and p_['ty'].replace(' ', '') == 'double']
    cnts = [p_ for p_ in ms.params if not p_.get('byref') and p_['ty'].replace('const', '').replace(' ', '') in ('int', 'unsignedint', 'long', 'unsignedlong')]
    if not outp or not cnts:
        ctx.undecided('C14.e', 'Miser:estimator-writes', ms, 'mean out-parameter / sample budget not identified')
        return
    aid = outp[0]['id']
    probs, kinds = [], []
    try:
        sx = Symx(prog, ms)
        npts = sx.symbol(cnts[0]['name'], 'int')
        for s_ in walk_stmts(ms.body):
            if s_['k'] != 'Expr':
                continue
            e = strip(s_['e'])
            if not (e.get('k') == 'Bin' and e['op'] in ('=', '+=', '-=', '*=', '/=') and strip(e['lhs']).get('id') == aid):
                continue
            if e['op'] != '=':
                probs.append('line %s: compound update of the mean' % s_.get('l'))
                continue
            _, res = terms_at(prog, ms, s_, [e['rhs']], sx)
            for st_, (t_,) in res:
                t_ = sp.simplify(t_) if not isinstance(t_, Symbol) else t_
                syms = sorted(t_.free_symbols, key=str)
                accs = [y_ for y_ in syms if '@loop' in str(y_)]
                outs_ = [y_ for y_ in syms if '#' in str(y_) and '@loop' not in str(y_)]
                leaf = len(accs) == 1 and sp.simplify(t_ * npts - accs[0]) == 0
                comb = False
                if len(outs_) == 2:
                    c1, c2 = t_.coeff(outs_[0]), t_.coeff(outs_[1])
                    rest = sp.simplify(t_ - c1 * outs_[0] - c2 * outs_[1])
                    comb = rest == 0 and sp.simplify(c1 + c2 - 1) == 0 and not c1.has(outs_[1]) and not c2.has(outs_[0])
                if leaf:
                    # the accumulator must sum function values: one loop over [0,npts) adds F:func(...) to it
                    okacc = False
                    for lp_ in [x_ for x_ in walk_stmts(ms.body) if x_['k'] in ('For', 'While') and x_.get('l') is not None and ('@loop%d' % x_['l']) in str(accs[0])]:
                        pre = sx.states_at(ms, lp_)
                        if not pre:
                            continue
                        entry, cnd_, live, done_, n0 = sx.loop_step(lp_, pre[0])
                        for k_, v_ in entry.items():
                            if isinstance(v_, Symbol) and str(accs[0]).split('@')[0] == str(v_).split('@')[0] and len(live) == 1:
                                d_ = sp.expand(live[0].env.get(k_) - v_)
                                fs_ = [a_ for a_ in d_.atoms(sp.core.function.AppliedUndef) if a_.func.__name__.startswith('F:')]
                                cl_ = sx.counted(lp_, pre[0], allow_extra_inc=True)
                                okacc = len(fs_) == 1 and d_ == fs_[0] and cl_ is not None and cl_[1] == 0 and cl_[2] == npts
                    kinds.append('sample mean' if okacc else 'mean?')
                    if not okacc:
                        probs.append('line %s: %s/npts where the accumulator is not the sum of npts function values' % (s_.get('l'), accs[0]))
                elif comb:
                    kinds.append('combination')
                else:
                    probs.append('line %s: the mean of the box is set to %s, which is neither the mean of its samples nor the weighted mean of the two halves'
                                 % (s_.get('l'), str(t_)[:120]))
    except Undecided as ex_:
        ctx.undecided('C14.e', 'Miser:estimator-writes', ms, 'writes of the mean outside the understood fragment: %s' % ex_)
        return
    if not probs and sorted(set(kinds)) != ['combination', 'sample mean']:
        ctx.undecided('C14.e', 'Miser:estimator-writes', ms, 'expected one leaf mean and one combination, found %s' % kinds)
        return
    ctx.decide('C14.e', 'Miser:estimator-writes', ms, not probs, 'the mean is written as sum(f)/npts on a leaf and as f*a+(1-f)*b of the two halves otherwise',
               '; '.join(probs), witness={'reproducer': 'a Gaussian peaked in one corner of a wide box: the estimate collapses to a single sample (0)'} if probs else None)


def point_length(prog, ctx, cl):
    """C14.f: the point handed to the integrand has exactly dim = region.size()/2 coordinates in every integrator (an
    integrand may use args.size()); a longer container carries coordinates of earlier calls behind the current ones."""
    R = 'C14.f'
    ctx.rule(R, 'the point every integrator hands to the integrand has exactly region.size()/2 coordinates: the container passed to the callback is '
             'created (or resized) with that length in the same call, not a longer static buffer whose tail keeps coordinates of earlier calls', 3)
    half = ('region.size()/2', 'region.size()/2.0')
    for fn in sorted(cl, key=lambda f: f.line):
        fpar = [p for p in fn.params if p['ty'].startswith('std::function') and 'std::vector<double' in p['ty']]
        if not fpar or not any(p['name'] == 'region' for p in fn.params):
            continue
        cbs = [c for c in calls(fn, into_lambdas=False) if c.get('kind') == 'stdfn' and strip(c.get('fn', {})).get('name') == fpar[0]['name']]
        if not cbs:
            continue
        dims = set(d['name'] for d in local_decls(fn) if d.get('init') is not None and show(d['init']).replace(' ', '') in half)
        for n_, c in enumerate(cbs):
            inst = '%s:point#%d' % (fn.name, n_)
            a0 = strip_casts(c['args'][0])
            if a0.get('k') != 'Ref':
                ctx.undecided(R, inst, fn, 'the callback argument %s is not a named container' % show(a0)[:60], line=c.get('l'))
                continue
            decl = [d for d in local_decls(fn) if d['id'] == a0.get('id')]
            length, why = None, ''
            # a resize/assign of the container before the call sets its length
            for m in calls(fn, into_lambdas=False):
                if m.get('kind') == 'method' and (m.get('callee') or {}).get('name') in ('resize', 'assign') and strip(m['obj']).get('id') == a0.get('id') \
                        and (m.get('l') or 0) < (c.get('l') or 0) and m.get('args'):
                    length, why = show(strip_casts(m['args'][0])).replace(' ', ''), 'resized'
            asg = [e for e in all_exprs(fn) if e.get('k') == 'Bin' and e['op'] == '=' and strip(e['lhs']).get('id') == a0.get('id')]
            if length is None and asg:
                r0 = strip_casts(asg[0]['rhs'])
                while r0.get('k') in ('Copy', 'Construct') and (r0.get('args') or r0.get('e')):
                    r0 = strip_casts(r0['args'][0]) if r0.get('k') == 'Construct' and len(r0.get('args', [])) == 1 else (strip_casts(r0['e']) if r0.get('k') == 'Copy' else r0)
                    if r0.get('k') == 'Construct':
                        break
                if r0.get('k') == 'Call' and (r0.get('callee') or {}).get('q') == L + 'Random_Point':
                    length, why = 'dim', 'assigned from Random_Point(region)'
            if length is None and decl and decl[0].get('init') is not None:
                i0 = strip_casts(decl[0]['init'])
                while i0.get('k') == 'Copy':
                    i0 = strip_casts(i0['e'])
                if i0.get('k') == 'Call' and (i0.get('callee') or {}).get('q') == L + 'Random_Point':
                    length, why = 'dim', 'initialised from Random_Point(region)'
                elif i0.get('k') == 'Construct' and i0['q'].startswith('std::vector'):
                    args_ = [x for x in i0.get('args', []) if x.get('k') != 'DefaultArg']
                    if args_:
                        length, why = show(strip_casts(args_[0])).replace(' ', ''), ('static ' if decl[0].get('static') else '') + 'constructed'
            if length is None:
                ctx.undecided(R, inst, fn, 'length of `%s` at the callback not determined' % a0.get('name'), line=c.get('l'))
                continue
            ok = length in dims or length in half or length == 'dim'
            ctx.decide(R, inst, fn, ok, '`%s` (%s with length %s) has region.size()/2 coordinates' % (a0.get('name'), why, length),
                       'the integrand receives `%s`, %s with length %s - not region.size()/2: for a region of fewer dimensions the coordinates behind the current '
                       'ones are whatever an earlier integration left there' % (a0.get('name'), why, length),
                       witness={'reproducer': 'sum of all args over [0,1]^2 with "Vegas": 1.0 on a first call, 404.4 after Integrate_MC(1, [100,101]^6, 1000, "Vegas")'} if not ok else None,
                       line=c.get('l'))


def affine_region(prog, ctx, cl):
    """Every value built from two region entries is either a width (upper-lower of one axis) or an affine combination
    c_lo*lower + c_hi*upper of the two bounds of ONE axis with c_lo + c_hi = 1 (a point of the line through the bounds)."""
    n = 0
    for fn in cl:
        halves = []
        for d in local_decls(fn):
            if d.get('init') is not None and show(d['init']).replace(' ', '') in ('region.size()/2', 'region.size()/2.0'):
                halves.append(d['name'])
        for e in all_exprs(fn):
            if e.get('k') == 'Bin' and e['op'] == '=' and show(strip_casts(e['rhs'])).replace(' ', '') == 'region.size()/2' and strip(e['lhs']).get('k') == 'Ref':
                halves.append(strip(e['lhs'])['name'])
        if not halves or not any(p['name'] == 'region' for p in fn.params):
            continue
        sx_ = Symx(prog, fn)
        st_ = State({})
        for e in all_exprs(fn):
            if not (e.get('k') == 'Bin' and e['op'] in ('=', '*=', '+=')):
                continue
            try:
                rhs = sx_.sym(e['rhs'], st_)
            except Undecided:
                continue
            regs = [a_ for a_ in rhs.atoms(sp.core.function.AppliedUndef) if a_.func.__name__ == 'region' and len(a_.args) == 1]
            if len(regs) != 2:
                continue
            n += 1
            a0, a1 = regs
            d = sp.simplify(a1.args[0] - a0.args[0])
            if str(d) in halves:
                lo, hi = a0, a1
            elif str(sp.simplify(-d)) in halves:
                lo, hi = a1, a0
            else:
                ctx.violated('C14.c', '%s:axis-mix@%s' % (fn.name, show(e['lhs'])), fn,
                             '`%s` combines region[%s] and region[%s], which are not the two bounds of one axis (offset %s, half size %s)'
                             % (show(e), a0.args[0], a1.args[0], d, halves), line=e.get('l'))
                continue
            ex = sp.expand(rhs)
            clo, chi = ex.coeff(lo), ex.coeff(hi)
            rest = sp.simplify(ex - clo * lo - chi * hi)
            tot = sp.simplify(clo + chi)
            inst = '%s:%s' % (fn.name, show(e['lhs']).replace(' ', ''))
            if rest.has(lo) or rest.has(hi):
                ctx.undecided('C14.d', inst, fn, 'non-linear use of the region bounds: %s' % rhs, line=e.get('l'))
            elif tot == 1 and rest == 0:
                ctx.holds('C14.d', inst, fn, 'affine point of the axis: %s*lower + %s*upper' % (clo, chi), line=e.get('l'))
            elif tot == 0:
                ctx.holds('C14.d', inst, fn, 'width of the axis (times %s)' % chi, line=e.get('l'))
            else:
                ctx.violated('C14.d', inst, fn, '`%s` = %s*lower + %s*upper (+%s) is neither a point of the axis (weights sum to 1) nor its width: '
                             'sample points leave the region when the lower corner is not the origin' % (show(e['lhs']), clo, chi, rest),
                             witness={'coefficients': [str(clo), str(chi)], 'reproducer': 'integrate over a box whose lower corner is not 0'},
                             line=e.get('l'))
    ctx.notes.append('affine-region rule: %d assignments combining two region bounds' % n)


def precision(prog, ctx, cl):
    R = 'C14.g'
    n = 0
    for fn in cl:
        if 'Integration' not in str(fn.d.get('file', '')) and not any(t in fn.q for t in ('Integrate', 'Miser', 'Vegas', 'rebin', 'Random_Point', 'MC_Volume')):
            continue
        n += 1
        bad = [(d.get('name'), d.get('ty'), d.get('l')) for d in list(local_decls(fn)) + list(fn.params)
               if str(d.get('ty', '')).replace('const ', '').replace('&', '').strip() == 'float']
        if bad:
            nm, ty, ln = bad[0]
            ctx.violated(R, fn.name + ':float', fn, '`%s` has type %s (line %s): every value passing through it is rounded to 24 bits, so a constant integrand c comes back as '
                         'c*(1 +- 6e-8) instead of c to rounding, and sums of ~1e5 terms lose up to 1e-3 of their value' % (nm, ty, ln),
                         witness={'variable': nm, 'type': ty, 'line': ln}, line=ln)
        else:
            ctx.holds(R, fn.name + ':float', fn, 'no float-typed local or parameter')
    if n == 0:
        raise AnalysisBroken('no integrator found in the closure of Integrate_MC')


def region_readonly(prog, ctx, mc):
    R = 'C14.h'
    from ..state import base_ref
    start = [i for i, p_ in enumerate(mc.params) if str(p_['ty']).replace('const ', '').startswith('std::vector<double>')]
    if len(start) != 1:
        raise AnalysisBroken('region parameter of Integrate_MC not identified: %s' % [p_['ty'] for p_ in mc.params])
    todo = [(mc, start[0])]
    seen = set()
    while todo:
        fn, idx = todo.pop()
        if (fn.sig, idx) in seen or fn.body is None:
            continue
        seen.add((fn.sig, idx))
        pid = fn.params[idx]['id']
        pname = fn.params[idx]['name']
        writes = []

        def is_p(e):
            b = base_ref(e)
            return b.get('k') == 'Ref' and b.get('id') == pid
        for e in all_exprs(fn):
            k = e.get('k')
            if k == 'Bin' and e.get('op') in ('=', '+=', '-=', '*=', '/=', '%=') and is_p(e['lhs']):
                writes.append((e.get('l'), 'assignment `%s`' % show(e)[:80]))
            elif k == 'Un' and e.get('op') in ('++', '--') and is_p(e['e']):
                writes.append((e.get('l'), '`%s`' % show(e)[:80]))
            elif k == 'Call':
                cc = e.get('callee') or {}
                if e.get('kind') == 'method' and e.get('obj') is not None and is_p(e['obj']) and strip_casts(e['obj']).get('k') == 'Ref' and not cc.get('const') \
                        and cc.get('name') not in ('begin', 'end', 'operator[]', 'at', 'front', 'back', 'data'):
                    writes.append((e.get('l'), 'mutating call `%s`' % show(e)[:80]))
                mut = set(cc.get('mutrefs', []))
                for i, a in enumerate(e.get('args', [])):
                    if not is_p(a):
                        continue
                    g = prog.by_sig(cc.get('sig')) if cc.get('inrepo') else None
                    if g is not None:
                        if strip_casts(a).get('k') == 'Ref' and i < len(g.params) and ('&' in str(g.params[i]['ty']) and not str(g.params[i]['ty']).startswith('const')):
                            todo.append((g, i))
                    elif i in mut:
                        writes.append((e.get('l'), 'passed to %s as a mutable reference: `%s`' % (cc.get('q') or cc.get('name'), show(e)[:80])))
        if writes:
            ln, what = writes[0]
            ctx.violated(R, '%s:%s' % (fn.name, pname), fn, 'the caller\'s region `%s` is modified (%s, line %s): the integrand is then sampled in a box that is not the one requested, '
                         'and the caller\'s vector is changed behind its back' % (pname, what, ln), witness={'line': ln, 'write': what}, line=ln)
        else:
            ctx.holds(R, '%s:%s' % (fn.name, pname), fn, 'never written in this function')
